"""C24: chunked decoding is exact and rejects malformed framing."""
import random
from vlib import std, hbuild, recipes

PID = "C24"
META = {
    "text": "20 theorems (Properties_C24.v, all closed under the global context) about an executable model of "
            "TeChunkedParser::parse and of its callers' loop (inBuf = remaining() + newly read bytes; output MemBuf with a "
            "per-call potentialSpaceSize). (a) C24_segmentation_independent / C24_any_two_segmentations_agree / "
            "..._from_checkpoint: for EVERY input (valid or malformed, < 4 GiB), every way of cutting it into reads, both "
            "relaxed_header_parser modes, with output space that never fills, the read loop ends in exactly the outcome of one "
            "parse() on the whole input: same kind (done / exception kind / trailer too big / need more), same decoded bytes, same "
            "remaining() (hence consumed length) - instance of the generic Incremental.v theorem, from C24_definitive_outcomes_stable "
            "and C24_checkpoints_commute, which hold unconditionally since the repair 1aa8f1c. (b) C24_dechunk_exact / "
            "C24_dechunk_safe_for_every_schedule: for every body and every RFC 9112 chunking of it produced by an independent encoder "
            "(chunk-size = any hex digits of value < 2^63 incl. leading zeros and mixed case; chunk-ext = *(BWS ; BWS token [BWS = BWS "
            "(token | quoted-string with quoted-pairs)]); last-chunk with extensions; trailer fields, section < 64 KB), followed by "
            "arbitrary bytes, for every segmentation AND every schedule of output capacities: never an exception, never stuck, never "
            "early completion, output always a prefix of the body; once the whole encoding has been delivered and the capacities "
            "offered from then on add up to |body|, parse() returns true with output = body and remaining() = exactly the bytes after "
            "the encoding. C24_truncated_only_asks_for_more. (c) Rejections for every continuation, every capacity, both modes: 0x/0X "
            "prefix, non-hex size, size >= 2^63 (any number of digits), missing CRLF after size, chunk data not followed by CRLF, BWS "
            "between a chunk extension and CRLF (C24_rejects_ext_trailing_bws) - and, by (a), for every segmentation "
            "(C24_rejects_ext_trailing_bws_for_every_segmentation). The three character classes of the grammar are proved equal to the "
            "regenerated / modelled sets (256-entry sweeps). The model is tied to the code by differential runs of the extracted model "
            "against the real TeChunkedParser writing into real MemBufs (sources compiled from the working tree, UBSan): per-call trace "
            "(result, stage, needsMoreData/Space, |remaining()|, bytes appended), final state, remaining() and output compared.",
    "note": "Former finding C24-ext-trailing-bws-segmentation was repaired in /repo 1aa8f1c (ParseStrictBws moved into parseChunkSize); "
            "the model follows the repaired code, the reproducers are kept as corpus/C24/regress.txt, and the property is now a theorem "
            "for every segmentation. Remaining limits of the claim: (1) segmentation independence (a) is stated for ample output space "
            "(the http.cc situation); with limited space the decoder legitimately stops earlier, which is what (b) covers for valid "
            "encodings; for malformed input under limited space the rejection theorems are per parse() call. Malformed extension "
            "names/values (EExtName, EToken, EQPair, EQdtext) have no dedicated theorem but fall under (a) + correspondence. (2) Real "
            "limits appear as hypotheses: trailer section (incl. final CRLF) < 65536 bytes (grabMimeBlock; beyond it parse()==false with "
            "!needsMoreData(), classified BTooBig), inputs / numerals / single extensions shorter than 2^32-1 bytes (SBuf::npos). "
            "(3) Not modelled: mimeHeader() contents (cleanMimePrefix/unfoldMime of the trailer block), customExtensionValueParser "
            "(ICAP use-original-body). BWS after chunk-size without extensions (Bug 4492) and VT/FF/bare-CR as BWS in relaxed mode are "
            "tolerances the oracle does not judge. Trusted: Coq kernel, extraction, harness/h_chunked.cc, gen/gen_charsets.cc; the "
            "hand-written ChunkedModel.v is validated against the code only on the generated cases (9.7k quick / 150k thorough).",
    "technique": "Coq proof: stability-under-extension of every Tokenizer primitive and parser stage for arbitrary buffers, restart-point "
                 "lemma for the chunk-ext checkpoint, fuel-independence and output-prefix lemmas for the parse loop, instantiation of "
                 "Incremental.v (drive = one-shot); inductive invariant of one parse() call and of the callers' loop over capacity "
                 "schedules for grammatical input (grammar-as-encoder); vm_compute sweeps over regenerated 256-entry tables; + "
                 "extracted-model differential correspondence + independent RFC 9112 reference reader as oracle",
}

FRESH = ["src/http/one/TeChunkedParser.cc", "src/http/one/Tokenizer.cc", "src/parser/Tokenizer.cc",
         "src/http/one/Parser.cc", "src/mime_header.cc", "src/MemBuf.cc", "src/base/CharacterSet.cc"]


def impl(sanitize="ubsan"):
    return hbuild.build("h_chunked", "h_chunked.cc", fresh=FRESH, link=recipes.HTTP1, sanitize=sanitize)


def prebuild():
    impl()


def hx(b):
    return bytes(b).hex() if len(b) else "-"


def unhx(h):
    return b"" if h in ("-", "") else bytes.fromhex(h)


# ---------------------------------------------------------------------------
# Independent reference: RFC 9112 section 7.1 chunked-body as a deterministic reader.
#   chunked-body = *chunk last-chunk trailer-section CRLF
#   chunk = chunk-size [chunk-ext] CRLF chunk-data CRLF ; chunk-size = 1*HEXDIG
#   chunk-ext = *( BWS ";" BWS chunk-ext-name [ BWS "=" BWS chunk-ext-val ] )
#   chunk-ext-val = token / quoted-string ; trailer-section = *( field-line CRLF )
# ---------------------------------------------------------------------------
TCHAR = set(b"!#$%&'*+-.^_`|~0123456789ABCDEFGHIJKLMNOPQRSTUVWXYZabcdefghijklmnopqrstuvwxyz")
HEX = set(b"0123456789abcdefABCDEF")
BWS = set(b" \t")
QDTEXT = {9, 32, 0x21} | set(range(0x23, 0x5C)) | set(range(0x5D, 0x7F)) | set(range(0x80, 0x100))
QPAIR = {9, 32} | set(range(0x21, 0x7F)) | set(range(0x80, 0x100))
TRAILER_LIMIT = 64 * 1024


def ref_parse(enc):
    """-> ("valid", L, body, trailer_len) | ("more", body_so_far) | ("bad", pos, kind, body_so_far)"""
    n = len(enc)
    pos = 0
    body = bytearray()

    def skip(p, cs):
        while p < n and enc[p] in cs:
            p += 1
        return p

    while True:
        if enc[pos:pos + 2] in (b"0x", b"0X"):
            return ("bad", pos, "size-0x", bytes(body))
        p = skip(pos, HEX)
        if p == pos:
            return ("more", bytes(body)) if p == n else ("bad", pos, "size-nonhex", bytes(body))
        value = int(enc[pos:p], 16)
        if value >= 2 ** 63:
            return ("bad", pos, "size-overflow", bytes(body))
        if p == n:
            return ("more", bytes(body))
        pos = p
        seen_ext = False
        while True:
            p = skip(pos, BWS)
            if p == n:
                return ("more", bytes(body))
            if enc[p] != 0x3B:
                if p > pos:
                    if enc[p] == 13:
                        return ("bad", p, "ext-trailing-bws" if seen_ext else "size-trailing-bws", bytes(body), pos)
                    return ("bad", p, "ext-junk-after-bws", bytes(body))
                break
            p = skip(p + 1, BWS)
            if p == n:
                return ("more", bytes(body))
            q = skip(p, TCHAR)
            if q == p:
                return ("bad", p, "ext-name", bytes(body))
            if q == n:
                return ("more", bytes(body))
            pos = q
            p = skip(q, BWS)
            if p == n:
                return ("more", bytes(body))
            if enc[p] == 0x3D:
                p = skip(p + 1, BWS)
                if p == n:
                    return ("more", bytes(body))
                if enc[p] == 0x22:
                    p += 1
                    while True:
                        p = skip(p, QDTEXT)
                        if p == n:
                            return ("more", bytes(body))
                        if enc[p] == 0x5C:
                            if p + 1 == n:
                                return ("more", bytes(body))
                            if enc[p + 1] not in QPAIR:
                                return ("bad", p + 1, "ext-qpair", bytes(body))
                            p += 2
                            continue
                        if enc[p] == 0x22:
                            p += 1
                            break
                        return ("bad", p, "ext-qdtext", bytes(body))
                    if p == n:
                        pass
                    pos = p
                else:
                    q = skip(p, TCHAR)
                    if q == p:
                        return ("bad", p, "ext-value", bytes(body))
                    if q == n:
                        return ("more", bytes(body))
                    pos = q
            seen_ext = True
        # CRLF after chunk-size [chunk-ext]
        if pos == n:
            return ("more", bytes(body))
        if enc[pos] != 13:
            return ("bad", pos, "crlf-after-size", bytes(body))
        if pos + 1 == n:
            return ("more", bytes(body))
        if enc[pos + 1] != 10:
            return ("bad", pos, "crlf-after-size", bytes(body))   # reported at the CR
        pos += 2
        if value == 0:
            break
        avail = min(value, n - pos)
        body += enc[pos:pos + avail]
        pos += avail
        if avail < value:
            return ("more", bytes(body))
        for want in (13, 10):
            if pos == n:
                return ("more", bytes(body))
            if enc[pos] != want:
                return ("bad", pos, "crlf-after-data", bytes(body))
            pos += 1
    # trailer-section CRLF
    tstart = pos
    while True:
        if pos == n:
            return ("more", bytes(body))
        if enc[pos] == 13:
            if pos + 1 == n:
                return ("more", bytes(body))
            if enc[pos + 1] == 10:
                return ("valid", pos + 2, bytes(body), pos + 2 - tstart)
            return ("bad", pos + 1, "trailer", bytes(body))
        q = skip(pos, TCHAR)
        if q == n:
            return ("more", bytes(body))
        if q == pos or enc[q] != 0x3A:
            return ("bad", q, "trailer", bytes(body))
        p = q + 1
        while p < n and enc[p] not in (13, 10):
            p += 1
        if p == n:
            return ("more", bytes(body))
        if enc[p] != 13:
            return ("bad", p, "trailer", bytes(body))
        if p + 1 == n:
            return ("more", bytes(body))
        if enc[p + 1] != 10:
            return ("bad", p + 1, "trailer", bytes(body))
        pos = p + 2


JUDGED_BAD = {"size-0x", "size-nonhex", "size-overflow", "ext-trailing-bws", "ext-junk-after-bws", "ext-name",
              "ext-qpair", "ext-qdtext", "ext-value", "crlf-after-size", "crlf-after-data"}
RELAXED_BWS_EXTRA = {0x0B, 0x0C, 0x0D}   # Parser::WhitespaceCharacters() in relaxed mode adds VT, FF, CR


def parse_sched(s):
    if s == "-":
        return []
    return [tuple(int(x) for x in st.split(":")) for st in s.split(",")]


def parse_out(out):
    """-> dict(status, tokens, used, rest, out) or None"""
    if " | " not in out and not out.startswith("| "):
        return None
    left, right = out.split("| ", 1)
    d = {"tokens": left.split(), "status": right.split()[0]}
    for w in right.split()[1:]:
        k, _, v = w.partition("=")
        d[k] = v
    return d


def oracle(case, out):
    a = case.split()
    if a[0] != "chunked":
        return None
    if out.startswith(("CRASH", "ERR", "EXC")) or "BAD-" in out or "runtime error" in out or out.strip() == "":
        return ("oracle:crash", "implementation crashed / broke the harness contract: " + out[:200])
    relaxed = a[1] == "1"
    sched = parse_sched(a[2])
    enc = unhx(a[3])
    d = parse_out(out)
    if d is None:
        return ("oracle:unparsable", "unparsable implementation output")
    status = d["status"]
    got = unhx(d.get("out", "-"))
    fed_total = min(len(enc), sum(n for n, _ in sched))
    fed = enc[:fed_total]
    ref = ref_parse(fed)
    if status == "EXC-insufficient-escaped" or status.startswith("EXC-std") or status == "EXC-other":
        return ("oracle:exception-kind", "unexpected exception escaped parse(): " + status)
    if ref[0] == "valid":
        _, L, body, tlen = ref
        if tlen >= TRAILER_LIMIT:
            if status == "DONE" and got != body:
                return ("oracle:body-wrong", "decoded body differs from the encoded one")
            return None
        if not body.startswith(got):
            return ("oracle:body-wrong", "decoded output is not a prefix of the encoded body")
        if status.startswith("EXC") or status == "STUCK":
            return ("oracle:valid-rejected", "a valid chunked encoding was rejected (%s)" % status)
        # steps from the one that delivers byte L on: their capacities must cover the body
        acc = 0; capsum = None
        for n, c in sched:
            acc += n
            if capsum is None and acc >= L:
                capsum = 0
            if capsum is not None:
                capsum += c
        sufficient = capsum is not None and capsum >= len(body)
        if status == "DONE":
            if got != body:
                return ("oracle:body-wrong", "parse() reported completion with %d of %d body bytes" % (len(got), len(body)))
            used = int(d["used"])
            if unhx(d["rest"]) != enc[L:used]:
                return ("oracle:consumed-wrong", "remaining() after completion is not exactly the bytes after the encoding")
            return None
        if sufficient:
            return ("oracle:valid-not-finished", "all %d encoded bytes delivered and capacities cover the body but parse() never returned true (%s)" % (L, status))
        return None
    if ref[0] == "more":
        body = ref[1]
        if not body.startswith(got):
            return ("oracle:body-wrong", "decoded output is not a prefix of the encoded body")
        if status.startswith("EXC") or status == "STUCK":
            return ("oracle:prefix-rejected", "a proper prefix of a valid encoding was rejected (%s)" % status)
        if status == "DONE":
            return ("oracle:prefix-done", "a proper prefix of a valid encoding was reported complete")
        return None
    # bad
    _, pos, kind, body = ref[:4]
    if kind not in JUDGED_BAD:
        return None
    if relaxed and kind.startswith(("ext-", "crlf-after-size")) and fed[pos] in RELAXED_BWS_EXTRA \
       and not (kind == "ext-trailing-bws" and fed[pos + 1:pos + 2] == b"\n"):
        return None   # relaxed_header_parser tolerance: VT/FF/bare CR accepted as BWS inside chunk-ext
    if status.startswith("EXC"):
        if not body.startswith(got):
            return ("oracle:body-wrong", "decoded output is not a prefix of the body encoded before the malformation")
        return None
    sig = "oracle:malformed-not-rejected:" + kind
    if kind == "ext-trailing-bws":
        # where did reads end?  (the known defect needs a read ending inside, or at either end of, the BWS run after the extension)
        bws_start = ref[4]
        ends = set(); acc = 0
        for n, _ in sched:
            acc += n; ends.add(min(acc, len(enc)))
        hi = pos + (1 if relaxed else 0)
        sig += ":read-ends-inside-bws" if any(bws_start <= e <= hi for e in ends) else ":whole"
    went_past = len(got) > len(body) and got.startswith(body)
    if not went_past and not body.startswith(got):
        return ("oracle:body-wrong", "decoded output is not a prefix of the body encoded before the malformation")
    if went_past or status in ("DONE", "STUCK"):
        return (sig, "malformed framing (%s at byte %d) was not rejected: %s" % (kind, pos, status))
    if status == "END" and fed_total > 0 and len(got) == len(body):
        # the malformation was delivered and all data before it decoded, yet the parser waits
        return (sig, "malformed framing (%s at byte %d) makes the parser wait for more data" % (kind, pos))
    return None


# ---------------------------------------------------------------------------
# generators
# ---------------------------------------------------------------------------
TOK = b"!#$%&'*+-.^_`|~0123456789ABCDEFGHIJKLMNOPQRSTUVWXYZabcdefghijklmnopqrstuvwxyz"


def r_token(rng, lo=1, hi=6):
    return bytes(rng.choice(TOK) for _ in range(rng.randint(lo, hi)))


def r_bws(rng):
    return bytes(rng.choice(b" \t") for _ in range(rng.choice([0, 0, 0, 1, 1, 2, 3])))


def r_qs(rng):
    out = bytearray(b'"')
    qd = sorted(QDTEXT); qp = sorted(QPAIR)
    for _ in range(rng.choice([0, 1, 2, 3, 5, 9])):
        if rng.random() < 0.3:
            out += b"\\" + bytes([rng.choice(qp) if rng.random() < 0.7 else rng.choice(b'"\\')])
        else:
            out.append(rng.choice(qd) if rng.random() < 0.5 else rng.choice(b"abc ;=\t"))
    out += b'"'
    return bytes(out)


def r_exts(rng):
    out = b""
    for _ in range(rng.choice([0, 0, 0, 1, 1, 2, 3])):
        out += r_bws(rng) + b";" + r_bws(rng) + r_token(rng)
        k = rng.random()
        if k < 0.35:
            out += r_bws(rng) + b"=" + r_bws(rng) + r_token(rng)
        elif k < 0.7:
            out += r_bws(rng) + b"=" + r_bws(rng) + r_qs(rng)
    return out


def r_size(rng, v):
    s = ("%x" % v) if rng.random() < 0.5 else ("%X" % v)
    s = "".join(ch.upper() if rng.random() < 0.3 else ch for ch in s)
    return ("0" * rng.choice([0, 0, 0, 1, 2, 17])).encode() + s.encode()


def r_body(rng):
    k = rng.random()
    if k < 0.1: n = 0
    elif k < 0.55: n = rng.randint(1, 12)
    elif k < 0.9: n = rng.randint(13, 200)
    elif k < 0.985: n = rng.randint(201, 3000)
    else: n = rng.randint(3001, 65536)
    style = rng.random()
    if style < 0.4:
        return bytes(rng.randrange(256) for _ in range(n)) if n < 4000 else rng.randbytes(n)
    if style < 0.7:   # bytes that look like framing
        return bytes(rng.choice(b"\r\n0;= \t\"\\5aF") for _ in range(n)) if n < 4000 else rng.randbytes(n)
    return bytes(rng.choice(b"abcdefgh") for _ in range(n)) if n < 4000 else rng.randbytes(n)


def encode(rng, body, trailer=None):
    """an RFC 9112 chunking of body; returns (encoding, list of (offset, what) landmarks)"""
    out = bytearray()
    marks = []
    i = 0
    while i < len(body):
        k = rng.choice([1, 1, 2, 3, 5, 9, 16, 17, 100, 255, 256, 4096, len(body)])
        k = min(k, len(body) - i)
        marks.append((len(out), "size"))
        out += r_size(rng, k)
        marks.append((len(out), "aftersize"))
        out += r_exts(rng)
        marks.append((len(out), "crlf1"))
        out += b"\r\n"
        out += body[i:i + k]
        marks.append((len(out), "crlf2"))
        out += b"\r\n"
        i += k
    marks.append((len(out), "size"))
    out += b"0" * rng.choice([1, 1, 1, 2, 5])
    marks.append((len(out), "aftersize"))
    out += r_exts(rng)
    marks.append((len(out), "crlf1"))
    out += b"\r\n"
    if trailer is None:
        trailer = b""
        for _ in range(rng.choice([0, 0, 0, 1, 2, 3])):
            trailer += r_token(rng) + b":" + bytes(rng.choice(b" \tabcXYZ09;=,\"") for _ in range(rng.randint(0, 12))) + b"\r\n"
    out += trailer
    marks.append((len(out), "final"))
    out += b"\r\n"
    return bytes(out), marks


def r_sched(rng, total, bodylen):
    """(segment length, capacity) steps; always ends with enough zero-length steps to let the decoder drain"""
    k = rng.random()
    if k < 0.25:
        segs = [total]
    elif k < 0.45 and total <= 120:
        segs = [1] * total
    elif k < 0.6:
        cut = rng.randint(0, total)
        segs = [cut, total - cut]
    else:
        segs = []
        left = total
        while left > 0:
            s = min(left, rng.choice([0, 1, 1, 2, 3, 5, 8, 20, 100, 1000, 5000]))
            segs.append(s); left -= s
    c = rng.random()
    big = max(bodylen, 1) + rng.choice([0, 1, 100])
    if c < 0.45:
        caps = [big] * len(segs)
    elif c < 0.6:
        caps = [rng.choice([0, 1, 2, 3, 7, big]) for _ in segs]
    else:
        caps = [rng.choice([1, 2, 3, 5, 16, 64, 1000, 4096]) for _ in segs]
    steps = list(zip(segs, caps))
    # drain steps: enough capacity for the whole body (unless we deliberately starve the decoder)
    if rng.random() < 0.93:
        need = bodylen
        guard = 0
        while need > 0 and guard < 400:
            cc = rng.choice([1, 2, 7, 50, 1000, 70000]) if bodylen < 2000 else rng.choice([1000, 4096, 70000])
            if rng.random() < 0.1:
                cc = 0
            steps.append((0, cc)); need -= cc; guard += 1
        steps.append((0, rng.choice([0, 1, 5])))
    if not steps:
        steps = [(0, 1)]
    return ",".join("%d:%d" % st for st in steps)


def malform(rng, enc, marks):
    """one of the listed malformations at a grammar landmark, then the rest of the encoding (or junk) as continuation"""
    b = bytearray(enc)
    off, what = rng.choice(marks)
    k = rng.random()
    if what == "size":
        ch = rng.choice([b"0x", b"0X", b"g", b" ", b"-", b"+", b"x", b"\r\n", b";", b"8000000000000000", b"FFFFFFFFFFFFFFFFF",
                         b"7FFFFFFFFFFFFFFFF", b"10000000000000000", b"\x00", b"\xff"])
        if ch in (b"0x", b"0X") or k < 0.6:
            b[off:off] = ch
        else:
            b[off:off + 1] = ch
    elif what == "aftersize":
        ch = rng.choice([b" ", b"\t", b";", b";;", b"; =", b";a=", b";a= \r", b';a="', b';a="\\\r"', b';a="\x7f"', b';a="\n"', b";a=b ", b';a="b" ',
                         b";a=b\t\t", b";a b", b";\x0b", b"\x0b;a", b";a\x0c=b", b"\r;a", b";a=@", b";@", b"g", b"x", b"\n", b";a=b;c=d "])
        b[off:off] = ch
    elif what in ("crlf1", "crlf2", "final"):
        ch = rng.choice([b"", b"\n", b"\r", b"\r\r", b"\n\r", b" \r\n", b"x\r\n", b"\r\x00", b"\r\n\n"])
        if what == "final" and rng.random() < 0.5:
            ch = rng.choice([b"\r", b"", b"\n", b"x"])
        b[off:off + 2] = ch
    return bytes(b)


def gen_cases(rng, n):
    cases = []
    for _ in range(n):
        mode = 1 if rng.random() < 0.5 else 0
        body = r_body(rng)
        enc, marks = encode(rng, body)
        k = rng.random()
        if k < 0.45:                      # valid, possibly followed by the next message
            if rng.random() < 0.3:
                enc += rng.choice([b"HTTP/1.1 200 OK\r\n", b"0\r\n\r\n", b"\r\n", b"x", bytes(rng.randrange(256) for _ in range(5))])
        elif k < 0.6:                     # truncated
            enc = enc[:rng.randint(0, max(len(enc) - 1, 0))]
        elif k < 0.92:                    # listed malformations
            enc = malform(rng, enc, marks)
        else:                             # random byte damage
            b = bytearray(enc)
            for _ in range(rng.choice([1, 1, 2])):
                if b:
                    p = rng.randrange(len(b))
                    r = rng.random()
                    if r < 0.5: b[p] = rng.choice(b"\r\n;= \t\"\\0xXgG\x0b\x7f") if rng.random() < 0.7 else rng.randrange(256)
                    elif r < 0.75: del b[p]
                    else: b[p:p] = bytes([rng.choice(b"\r\n;= \t\"\\0x")])
            enc = bytes(b)
        cases.append("chunked %d %s %s" % (mode, r_sched(rng, len(enc), len(body)), hx(enc)))
    # boundary stream: sizes at the 63-bit edge, trailer limit, every split of short encodings
    edge = [b"7FFFFFFFFFFFFFFF\r\nab", b"8000000000000000\r\nab", b"7fffffffffffffff;a\r\n", b"0000000000000000000007fffffffffffffff\r\nq",
            b"ffffffffffffffff\r\n", b"10000000000000000\r\n", b"0x0\r\n\r\n", b"0X0\r\n\r\n", b"00x\r\n\r\n", b"0\r\n\r\n", b"0\r\n\r", b"0\r\n",
            b"1\r\na\r\n0\r\n\r\n", b"1\r\na\rX0\r\n\r\n", b"1\r\na\r\n0\r\nA: b\r\n\r\n", b"1 \r\na\r\n0\t\r\n\r\n", b"1;a=b \r\na\r\n0\r\n\r\n",
            b"1;a=\"b\" \r\na\r\n0\r\n\r\n", b"1;a \r\na\r\n0\r\n\r\n", b"1 ; a = b\r\na\r\n0\r\n\r\n", b"1;a=\"\\\"\\\\\"\r\na\r\n0\r\n\r\n"]
    for e in edge:
        for mode in (0, 1):
            cases.append("chunked %d %d:100,0:100 %s" % (mode, len(e), hx(e)))
            for cut in range(len(e) + 1):
                cases.append("chunked %d %d:100,%d:100,0:100 %s" % (mode, cut, len(e) - cut, hx(e)))
            cases.append("chunked %d %s,0:3 %s" % (mode, ",".join("1:%d" % rng.choice([0, 1, 2]) for _ in e), hx(e)))
    for tl in (65535 - 2, 65536 - 2, 65537 - 2, 65536 + 70):
        tr = b"A:" + b"v" * (tl - 4) + b"\r\n"
        e = b"1\r\na\r\n0\r\n" + tr + b"\r\n" + b"NEXT"
        cases.append("chunked 0 %d:10 %s" % (len(e), hx(e)))
        cases.append("chunked 1 40000:10,40000:10 %s" % hx(e))
    return cases


def mutate(rng, case):
    a = case.split()
    enc = bytearray(unhx(a[3]))
    k = rng.random()
    if k < 0.5 and enc:
        enc[rng.randrange(len(enc))] = rng.choice(b"\r\n;= \t\"\\0xg") if rng.random() < 0.6 else rng.randrange(256)
    elif k < 0.8:
        total = len(enc)
        cut = rng.randint(0, total)
        a[2] = "%d:%d,%d:%d,0:%d,0:%d" % (cut, rng.choice([0, 1, 100000]), total - cut, rng.choice([1, 100000]), 100000, 1)
    else:
        a[1] = "1" if a[1] == "0" else "0"
    a[3] = hx(enc)
    return " ".join(a)


def kind_fn(c, o):
    d = parse_out(o)
    if not d:
        return "other"
    s = d["status"]
    return "reject" if s.startswith("EXC") else {"DONE": "accept", "END": "more", "STUCK": "stuck"}.get(s, s)


def nontrivial_fn(c, o):
    d = parse_out(o)
    return bool(d) and (d["status"] == "DONE" or len(d["tokens"]) >= 2 or d.get("out", "-") != "-")


def run(res, tier):
    res.rule = ("random bodies 0..64 KB x RFC 9112 chunkings from an independent Python encoder (hex case, leading zeros, BWS, "
                "token/quoted-string extensions, trailers) x {valid, valid + following bytes, truncated, listed malformations at "
                "grammar landmarks, random byte damage} x segmentations {whole, every byte, one cut, random} x per-call output "
                "capacities {ample, tiny, zero}, both relaxed_header_parser modes; every split point of 21 edge encodings; "
                "trailer sizes at the 64 KB limit; a case is non-trivial when parse() completed, produced output or was called at least twice")
    std.run_standard(res, PID, tier, area="chunked", build_impl=impl, gen_cases=gen_cases, oracle=oracle,
                     corr_name="ChunkedModel vs src/http/one/TeChunkedParser.cc, src/http/one/Tokenizer.cc, src/parser/Tokenizer.cc",
                     gens=["charsets"], n_quick=9000, n_thorough=150000, seed_salt=24, mutate=mutate,
                     kind_fn=kind_fn, nontrivial_fn=nontrivial_fn)
