(* SmugglingProofs.v — lemmas and proofs for property C03 (request smuggling) about SmugglingModel.v. *)
Require Import SquidV.Bytes.
Require Import SquidV.TokModel SquidV.Incremental SquidV.ReqparseModel SquidV.ReqparseProofs SquidV.ReqparseGrammar.
Require SquidV.ClenModel SquidV.HdrparseModel SquidV.ChunkedModel SquidV.ChunkedProofs SquidV.HopModel.
Require Import SquidV.SmugglingModel.
Require Import SquidV.gen.CharSets_gen SquidV.gen.ReqTabs_gen SquidV.gen.Smuggling_gen.
Require Import ZifyBool ZifyN ZifyNat.
Local Open Scope N_scope.

(* ====================================================================== 1. line structure and headersEnd *)
Definition nolf (l : bytes) : Prop := forallb (fun c => negb (c =? 10)) l = true.
Definition crlf : bytes := [13; 10].

(* a head line as the strict reader sees it: not empty, no LF in it, does not start with CR *)
Definition line_ok (l : bytes) : Prop :=
  nolf l /\ match l with c :: _ => c <> 13 | [] => False end.
Definition enc_lines (ls : list bytes) : bytes := concat (map (fun l => l ++ crlf) ls).

Lemma nolf_app a b : nolf (a ++ b) <-> nolf a /\ nolf b.
Proof. unfold nolf. rewrite forallb_app, andb_true_iff. tauto. Qed.

Lemma he_state0 : forall l rest e fold, nolf l ->
  headers_end_go (l ++ 10 :: rest) 0 e fold = headers_end_go rest 1 (e + lenN l + 1) fold.
Proof.
  induction l as [|c l IH]; intros rest e fold Hl.
  - cbn [app lenN headers_end_go]. cbn. f_equal; lia.
  - unfold nolf in Hl. cbn [forallb] in Hl. apply andb_prop in Hl as [Hc Hl].
    cbn [app headers_end_go]. change (0 =? 0) with true. cbv iota.
    destruct (c =? 10) eqn:E; [discriminate|].
    rewrite IH by exact Hl. cbn [lenN]. f_equal. lia.
Qed.

Lemma he_line l rest e fold : line_ok l -> exists fold',
  headers_end_go ((l ++ crlf) ++ rest) 1 e fold = headers_end_go rest 1 (e + lenN l + 2) fold'.
Proof.
  intros [Hl Hc]. destruct l as [|c l]; [destruct Hc|].
  unfold nolf in Hl. cbn [forallb] in Hl. apply andb_prop in Hl as [Hc10 Hl].
  unfold crlf. rewrite <- app_assoc. cbn [app headers_end_go].
  change (1 =? 0) with false. change (1 =? 1) with true. cbv iota.
  assert (E13 : (c =? 13) = false) by (apply N.eqb_neq; exact Hc).
  assert (E10 : (c =? 10) = false) by (destruct (c =? 10); [discriminate|reflexivity]).
  rewrite E13, E10.
  replace (l ++ 13 :: 10 :: rest) with ((l ++ [13]) ++ 10 :: rest) by (rewrite <- app_assoc; reflexivity).
  assert (Hn : nolf (l ++ [13])) by (apply nolf_app; split; [exact Hl|reflexivity]).
  destruct ((c =? 32) || (c =? 9)).
  - exists true. rewrite he_state0 by exact Hn. rewrite lenN_app. cbn [lenN]. f_equal. lia.
  - exists fold. rewrite he_state0 by exact Hn. rewrite lenN_app. cbn [lenN]. f_equal. lia.
Qed.

Lemma he_lines : forall ls rest e fold, Forall line_ok ls -> exists fold',
  headers_end_go (enc_lines ls ++ crlf ++ rest) 1 e fold = (e + lenN (enc_lines ls) + 2, fold').
Proof.
  induction ls as [|l ls IH]; intros rest e fold H.
  - exists fold. cbn. f_equal; lia.
  - inversion H as [|? ? Hl Hls]; subst.
    unfold enc_lines. cbn [map concat]. fold (enc_lines ls). rewrite <- app_assoc.
    destruct (he_line l (enc_lines ls ++ crlf ++ rest) e fold Hl) as [f1 E1].
    rewrite <- app_assoc in E1. rewrite app_assoc. rewrite <- app_assoc in *.
    replace ((l ++ crlf) ++ enc_lines ls ++ crlf ++ rest) with ((l ++ crlf) ++ (enc_lines ls ++ crlf ++ rest)) by reflexivity.
    destruct (he_line l (enc_lines ls ++ crlf ++ rest) e fold Hl) as [f2 E2]. rewrite E2.
    destruct (IH rest (e + lenN l + 2) f2 Hls) as [f3 E3]. exists f3. rewrite E3.
    rewrite !lenN_app. unfold crlf. cbn [lenN]. f_equal. lia.
Qed.

(* the field block of a strictly formed head: the lines, then the empty line *)
Theorem headers_end_of_lines ls rest : Forall line_ok ls -> exists fold,
  headers_end (enc_lines ls ++ crlf ++ rest) = (lenN (enc_lines ls ++ crlf), fold).
Proof.
  intros H. unfold headers_end. destruct (he_lines ls rest 0 false H) as [f E]. exists f. rewrite E.
  rewrite lenN_app. unfold crlf. cbn [lenN]. f_equal; lia.
Qed.

(* ====================================================================== 2. the request parser on a line-structured head *)
Lemma dropN_app_exact' {A} (a b : list A) : dropN (lenN a) (a ++ b) = b.
Proof.
  induction a as [|x a IH]; cbn [lenN app dropN].
  - destruct b; reflexivity.
  - destruct (N.succ (lenN a) =? 0) eqn:E; [apply N.eqb_eq in E; lia|]. rewrite N.pred_succ. exact IH.
Qed.

(* the first LF splits a buffer uniquely *)
Lemma first_lf_unique : forall (a c : bytes) b d, nolf a -> nolf c -> a ++ 10 :: b = c ++ 10 :: d -> a = c /\ b = d.
Proof.
  induction a as [|x a IH]; intros c b d Ha Hc H.
  - destruct c as [|y c]; cbn [app] in H.
    + inversion H; auto.
    + inversion H; subst y. unfold nolf in Hc. cbn in Hc. discriminate.
  - destruct c as [|y c]; cbn [app] in H.
    + inversion H; subst x. unfold nolf in Ha. cbn in Ha. discriminate.
    + inversion H; subst y. unfold nolf in Ha, Hc. cbn [forallb] in Ha, Hc.
      apply andb_prop in Ha as [_ Ha]. apply andb_prop in Hc as [_ Hc].
      destruct (IH c b d Ha Hc H2) as [-> ->]. auto.
Qed.

(* grabMimeBlock when a field block is expected: it ends where headersEnd says *)
Lemma grab_mime_true_he limit s b s1 b1 :
  grab_mime limit s b = (true, s1, b1) -> r_http s && (r_major s =? 1) = true ->
  exists e fold, headers_end b = (e, fold) /\ e <> 0 /\ b1 = dropN e b /\
                 r_major s1 = r_major s /\ r_minor s1 = r_minor s.
Proof.
  unfold grab_mime. intros H Hx. rewrite Hx in H.
  destruct (headers_end b) as [e fold] eqn:HE. destruct (e =? 0) eqn:E0.
  - destruct (limit <=? lenN b + first_line_size s); inversion H.
  - destruct (limit <=? first_line_size s + e); inversion H; subst s1 b1.
    exists e, fold. repeat split; try reflexivity. apply N.eqb_neq. exact E0.
Qed.

Section HeadExtent.
  Variables (relaxed : bool) (limit : N).

  (* an accepted message: where the request line and the field block end *)
  Lemma first_done_shape s b f rest : r_stage s = SFirst -> fits b ->
    classify (do_first relaxed limit s b) = Done f rest ->
    exists line r s1, find_line b = Some (line, r) /\ parse_line relaxed s line = (s1, true) /\
      f_major f = r_major s1 /\ f_http f = r_http s1 /\
      (r_http s1 && (r_major s1 =? 1) = true ->
       exists e fold, headers_end r = (e, fold) /\ e <> 0 /\ rest = dropN e r).
  Proof.
    intros Hst Hf. unfold do_first. rewrite Hst. cbn [stage_eqb].
    destruct (first_line relaxed limit s b) as [[ret s1] b1] eqn:FL. destruct ret.
    - unfold first_line in FL.
      destruct (find_line b) as [[line r]|] eqn:FLn.
      + destruct (limit <=? lenN line) eqn:LL.
        * destruct (limit <=? lenN b); inversion FL.
        * destruct (parse_line relaxed s line) as [sx [|]] eqn:PL; inversion FL; subst sx b1.
          unfold do_mime. cbn [r_stage set_stage stage_eqb].
          destruct (grab_mime limit (set_stage s1 SMime) r) as [[ok s2] b2] eqn:G. destruct ok.
          -- pose proof (grab_mime_true_stage _ _ _ _ _ G) as Hd.
             destruct (grab_mime_true_split _ _ _ _ _ G) as (block & Hr & Hm & Hu & Hh & Hma & Hlim).
             unfold classify. rewrite !needs_more_stage, Hd. cbn [stage_eqb negb].
             intros K; inversion K; subst f rest.
             exists line, r, s1. split; [reflexivity|]. split; [exact PL|].
             cbn [f_major f_http fields_of]. rewrite Hma, Hh. cbn [r_major r_http set_stage].
             split; [reflexivity|]. split; [reflexivity|].
             intros Hx.
             destruct (grab_mime_true_he _ _ _ _ _ G) as (e & fold & HE & He & Hb & _); [exact Hx|].
             exists e, fold. auto.
          -- unfold classify.
             destruct (needs_more (if r_code s2 =? rq_sc_header_too_large then set_code s2 rq_sc_fields_too_large else s2));
               intros K; inversion K.
      + destruct (limit <=? lenN b); inversion FL.
    - destruct (first_line_more _ _ _ _ _ _ FL) as [-> ->].
      unfold do_mime. rewrite Hst. cbn [stage_eqb]. unfold classify. rewrite needs_more_stage, Hst. cbn.
      intros K; inversion K.
    - unfold classify. cbn. intros K; inversion K.
  Qed.

  (* skipGarbageLines leaves a buffer that starts with a head line alone *)
  Lemma none_view_line l x : line_ok l -> none_view relaxed (l ++ x) = l ++ x.
  Proof.
    intros [Hl Hc]. unfold none_view. destruct relaxed; [|reflexivity].
    destruct l as [|c l]; [destruct Hc|]. cbn [app skip_garbage].
    unfold nolf in Hl. cbn [forallb] in Hl. apply andb_prop in Hl as [H10 _].
    destruct (c =? 10); [discriminate|].
    assert (E : (c =? 13) = false) by (apply N.eqb_neq; exact Hc). rewrite E. reflexivity.
  Qed.

  (* HEAD EXTENT: the strict reader sees  line1 CRLF *(line CRLF) CRLF  at the front of the buffer; if Squid's request
     parser accepts the buffer as an HTTP/1.x message, it consumed exactly that head *)
  Theorem head_extent line1 ls x f rest :
    line_ok line1 -> Forall line_ok ls -> nolf line1 ->
    fits (line1 ++ crlf ++ enc_lines ls ++ crlf ++ x) ->
    parse_whole relaxed limit (line1 ++ crlf ++ enc_lines ls ++ crlf ++ x) = Done f rest ->
    f_major f = 1 ->
    rest = x.
  Proof.
    intros Hl1 Hls Hn1 Hf HP Hmaj1.
    unfold parse_whole in HP. rewrite step_classify, do_parse_none in HP by reflexivity.
    rewrite none_view_line in HP by exact Hl1.
    set (buf := line1 ++ crlf ++ enc_lines ls ++ crlf ++ x) in *.
    assert (Hne : buf <> []) by (unfold buf; destruct Hl1 as [_ Hc]; destruct line1; [destruct Hc|discriminate]).
    assert (Hn13 : relaxed = true -> buf <> [13]).
    { intros _ E. unfold buf in E. destruct Hl1 as [_ Hc]. destruct line1 as [|c l]; [destruct Hc|].
      cbn [app] in E. inversion E; subst c. apply Hc. reflexivity. }
    rewrite none_tail_first in HP by assumption.
    destruct (first_done_shape (set_stage rst0 SFirst) buf f rest eq_refl Hf HP)
      as (line & r & s1 & FLn & PL & Hma & Hht & Hend).
    destruct (find_line_split _ _ _ Hf FLn) as [Hb Hline].
    (* the first LF of buf is the one of line1's CRLF *)
    assert (Hsplit : line = line1 ++ [13] /\ r = enc_lines ls ++ crlf ++ x).
    { apply (first_lf_unique line (line1 ++ [13])).
      - exact Hline.
      - apply nolf_app. split; [exact Hn1|reflexivity].
      - rewrite <- Hb. unfold buf, crlf. rewrite <- !app_assoc. reflexivity. }
    destruct Hsplit as [-> ->].
    assert (H1x : r_http s1 && (r_major s1 =? 1) = true).
    { rewrite Hma in Hmaj1.
      destruct (parse_line_sound_1x relaxed (set_stage rst0 SFirst) (line1 ++ [13]) s1) as (m0 & t0 & d1 & d2 & _ & _ & _ & Hh & _).
      - unfold fits in *. rewrite Hb in Hf. rewrite lenN_app in Hf. lia.
      - exact PL.
      - rewrite Hmaj1. discriminate.
      - rewrite Hh, Hmaj1. reflexivity. }
    destruct (Hend H1x) as (e & fold & HE & He & ->).
    destruct (headers_end_of_lines ls x Hls) as [fold' HE'].
    rewrite HE in HE'. inversion HE'; subst e.
    rewrite app_assoc. apply dropN_app_exact'.
  Qed.
End HeadExtent.

(* ====================================================================== 3. the connection loop *)
Definition is_forward (e : event) : bool := match e with EForward _ _ => true | _ => false end.

(* every event but the last is a completely forwarded message *)
Lemma run_conn_terminal_last : forall fuel cf off buf pre e post,
  run_conn fuel cf off buf = pre ++ e :: post -> is_forward e = false -> post = [].
Proof.
  induction fuel as [|k IH]; intros cf off buf pre e post H He.
  - cbn in H. destruct pre as [|p pre]; cbn in H; inversion H; subst; [reflexivity|]. destruct pre; discriminate.
  - cbn [run_conn] in H. destruct buf as [|b0 buf]; [destruct pre; discriminate|].
    destruct (process_one cf (b0 :: buf)) as [ |c| |f persist rest|f| | ].
    1: destruct pre; discriminate.
    1,2,4,5,6: destruct pre as [|p pre]; cbn in H; inversion H; subst; try reflexivity; destruct pre; discriminate.
    destruct pre as [|p pre]; cbn [app] in H; inversion H; subst.
    + cbn in He. discriminate.
    + destruct persist.
      * eapply IH; eassumption.
      * destruct pre as [|p2 pre]; cbn in H2; inversion H2; subst; [reflexivity|]. destruct pre; discriminate.
Qed.

(* extents chain: each event starts where the previous message ended *)
Fixpoint chained (off : N) (evs : list event) : Prop :=
  match evs with
  | [] => True
  | EForward st f :: r => st = off /\ chained (off + fw_used f) r
  | EPartial st _ :: r | EReject st _ :: r | EReset st :: r | EOther st :: r => st = off /\ chained off r
  | EClose :: r | EFuel :: r => chained off r
  end.

Lemma run_conn_chained : forall fuel cf off buf, chained off (run_conn fuel cf off buf).
Proof.
  induction fuel as [|k IH]; intros cf off buf; cbn [run_conn]; [exact I|].
  destruct buf as [|b0 buf]; [exact I|].
  destruct (process_one cf (b0 :: buf)) as [ |c| |f persist rest|f| | ]; cbn [chained]; auto.
  split; [reflexivity|]. destruct persist; [apply IH|exact I].
Qed.

(* ====================================================================== 4. what goes upstream carries one framing *)
Import SquidV.ClenModel SquidV.HdrparseModel.

Lemma check_items_good relaxed : forall items st, cl_sawGood st = true -> cl_sawGood (check_items relaxed st items) = true.
Proof.
  induction items as [|raw more IH]; intros st Hg; cbn [check_items]; [exact Hg|].
  destruct (rtrim raw) as [|i0 it]; [exact Hg|].
  destruct (check_value relaxed st (i0 :: it)) as [ok st'] eqn:CV.
  assert (Hg' : cl_sawGood st' = true).
  { unfold check_value in CV. destruct (find_digits (cl_ws relaxed) (i0 :: it)); [|inversion CV; exact Hg].
    destruct (parse_offset b) as [[v n]|]; [|inversion CV; exact Hg].
    destruct (v <? 0)%Z; [inversion CV; exact Hg|].
    destruct (negb (good_suffix (cl_delim relaxed) (dropN n b))); [inversion CV; exact Hg|].
    rewrite Hg in CV. inversion CV. reflexivity. }
  destruct (negb ok && cl_sawBad st'); [exact Hg'|apply IH; exact Hg'].
Qed.

(* checkField keeps a field only for the first good value; sawGood never resets *)
Lemma check_field_keep relaxed st v k st' : check_field relaxed st v = (k, st') ->
  (k = true -> cl_sawGood st = false) /\ (k = true -> cl_sawGood st' = true) /\
  (cl_sawGood st = true -> cl_sawGood st' = true).
Proof.
  unfold check_field. destruct (cl_sawBad st).
  - intros H; inversion H; subst. repeat split; auto; discriminate.
  - destruct (has_comma v).
    + unfold check_list. destruct (negb relaxed); intros H; inversion H; subst.
      * repeat split; auto; discriminate.
      * repeat split; try discriminate. intros Hg. apply check_items_good. exact Hg.
    + unfold check_value. destruct (find_digits (cl_ws relaxed) v); [|intros H; inversion H; subst; repeat split; auto; discriminate].
      destruct (parse_offset b) as [[x n]|]; [|intros H; inversion H; subst; repeat split; auto; discriminate].
      destruct (x <? 0)%Z; [intros H; inversion H; subst; repeat split; auto; discriminate|].
      destruct (negb (good_suffix (cl_delim relaxed) (dropN n b))); [intros H; inversion H; subst; repeat split; auto; discriminate|].
      destruct (cl_sawGood st) eqn:G; intros H; inversion H; subst; repeat split; auto; discriminate.
Qed.

Lemma ids_differ' : (ID_CL =? ID_TE) = false.
Proof. vm_compute. reflexivity. Qed.

Definition n_cl (es : list hentry) : nat := length (filter (fun e => he_id e =? ID_CL) es).

Lemma entries_loop_one_cl relaxed : forall es st kept st', h_entries_loop relaxed es st = Some (kept, st') ->
  (cl_sawGood st = true -> n_cl kept = 0%nat) /\ (n_cl kept <= 1)%nat /\
  (cl_sawGood st = true -> cl_sawGood st' = true) /\ (n_cl kept = 1%nat -> cl_sawGood st' = true).
Proof.
  induction es as [|e r IH]; intros st kept st' H; cbn [h_entries_loop] in H.
  - inversion H; subst. cbn. repeat split; auto; try lia; discriminate.
  - destruct (he_id e =? ID_CL) eqn:Eid.
    + destruct (check_field relaxed st (he_value e)) as [keep st1] eqn:CF.
      destruct (check_field_keep _ _ _ _ _ CF) as (K1 & K2 & K3).
      destruct keep.
      * destruct (h_entries_loop relaxed r st1) as [[k s]|] eqn:L; [|discriminate]. inversion H; subst.
        destruct (IH _ _ _ L) as (I1 & I2 & I3 & I4).
        unfold n_cl in *. cbn [filter]. rewrite Eid. cbn [length]. rewrite (I1 (K2 eq_refl)).
        repeat split; try lia; try (intros; apply I3, K2; reflexivity).
      * destruct relaxed; [|discriminate].
        destruct (IH _ _ _ H) as (I1 & I2 & I3 & I4). repeat split; auto.
    + destruct (h_entries_loop relaxed r st) as [[k s]|] eqn:L; [|discriminate]. inversion H; subst.
      destruct (IH _ _ _ L) as (I1 & I2 & I3 & I4).
      unfold n_cl in *. cbn [filter]. rewrite Eid. repeat split; auto.
Qed.

Lemma n_cl_del es : n_cl (h_del_id ID_CL es) = 0%nat.
Proof.
  unfold n_cl, h_del_id. induction es as [|e r IH]; [reflexivity|]. cbn [filter].
  destruct (he_id e =? ID_CL) eqn:E; cbn [negb]; [exact IH|]. cbn [filter]. rewrite E. exact IH.
Qed.

Lemma n_cl_app a b : n_cl (a ++ b) = (n_cl a + n_cl b)%nat.
Proof. unfold n_cl. rewrite filter_app, app_length. reflexivity. Qed.

Lemma n_cl_del_te es : (n_cl (h_del_id ID_TE es) <= n_cl es)%nat.
Proof.
  unfold n_cl, h_del_id. induction es as [|e r IH]; [cbn; lia|]. cbn [filter].
  destruct (negb (he_id e =? ID_TE)); cbn [filter]; destruct (he_id e =? ID_CL); cbn [length]; lia.
Qed.

(* HttpHeader::parse leaves at most one Content-Length entry, and none next to Transfer-Encoding *)
Theorem parsed_header_one_cl relaxed req proh block hr : h_parse relaxed req proh block = Some hr ->
  (n_cl (hr_entries hr) <= 1)%nat /\ (h_has_id ID_TE (hr_entries hr) = true -> n_cl (hr_entries hr) = 0%nat).
Proof.
  unfold h_parse. destruct (h_block_fields relaxed req block) as [es|]; [|discriminate].
  destruct (h_entries_loop relaxed es cl_init) as [[kept st]|] eqn:L; [|discriminate].
  intros H; inversion H; subst hr. clear H.
  destruct (entries_loop_one_cl _ _ _ _ _ L) as (_ & Hle & _ & _).
  unfold h_post_process. destruct proh.
  - cbn [hr_entries]. pose proof (n_cl_del_te (h_del_id ID_CL kept)) as H1. rewrite n_cl_del in H1. split; [lia|intros _; lia].
  - destruct (h_has_id ID_TE kept) eqn:TE; cbn [hr_entries].
    + rewrite n_cl_del. split; [lia|reflexivity].
    + destruct (cl_sawBad st); cbn [hr_entries].
      * rewrite n_cl_del. split; [lia|reflexivity].
      * destruct (cl_needsSan st); cbn [hr_entries].
        -- rewrite n_cl_app, n_cl_del. destruct (cl_sawGood st).
           ++ split; [cbn; lia|]. intros HT. exfalso.
              unfold h_has_id in HT. rewrite existsb_app in HT. apply orb_prop in HT as [HT|HT].
              ** assert (h_has_id ID_TE kept = true); [|congruence].
                 unfold h_has_id, h_del_id in *. rewrite existsb_exists in *. destruct HT as (x & Hin & Hx).
                 apply filter_In in Hin as [Hin _]. exists x. auto.
              ** unfold h_cl_entry in HT. cbn [existsb he_id] in HT. rewrite ids_differ' in HT. discriminate HT.
           ++ rewrite app_nil_r. split; [cbn; lia|reflexivity].
        -- split; [exact Hle|]. intros HT. congruence.
Qed.

Lemma values_of_len id es : length (values_of id es) = length (filter (fun e => he_id e =? id) es).
Proof. unfold values_of. apply map_length. Qed.

(* ====================================================================== 5. one message *)
Definition fwd_ok (f : fwd) : Prop := (length (fw_cl f) <= 1)%nat /\ (fw_te f = true -> fw_cl f = []).

Lemma hdr_choice_one_cl relaxed ma mime hr :
  (if 1 <=? ma then h_parse relaxed true false mime else Some empty_hdr) = Some hr ->
  (n_cl (hr_entries hr) <= 1)%nat.
Proof.
  destruct (1 <=? ma).
  - intros H. apply (parsed_header_one_cl _ _ _ _ _ H).
  - intros H; inversion H; subst. cbn. lia.
Qed.

(* what process_one hands to the next hop always has a single framing *)
Theorem process_one_fwd_ok cf buf :
  match process_one cf buf with
  | MForward f _ _ => fwd_ok f /\ fw_te f = false
  | MPartial f => fwd_ok f
  | _ => True
  end.
Proof.
  unfold process_one.
  destruct (parse_whole (c_relaxed cf) (c_limit cf) buf) as [fl rest|[code fl]|s keep]; try exact I.
  destruct (unmodelled_method (f_mid fl)); [exact I|].
  destruct (f_mid fl =? req_m_none); [exact I|].
  destruct (((f_major fl =? 0) && negb (f_minor fl =? 9)) || (1 <? f_major fl)); [exact I|].
  destruct (if 1 <=? f_major fl then h_parse (c_relaxed cf) true false (f_mime fl) else Some empty_hdr) as [hr|] eqn:HP; [|exact I].
  pose proof (hdr_choice_one_cl _ _ _ _ HP) as Hn.
  destruct (match get_list ID_EXPECT (hr_entries hr) with Some l => negb (ci_eqb l w_100_continue) | None => false end); [exact I|].
  destruct (negb (check_entity_framing _ _ _ _ _ _ _ =? 0)); [exact I|].
  assert (Hv : (length (values_of ID_CL (hr_entries hr)) <= 1)%nat) by (rewrite values_of_len; exact Hn).
  destruct (h_has_id ID_TE (hr_entries hr)).
  - destruct (ChunkedModel.parse _ _ _ rest) as [ret st rem out| |]; try exact I.
    destruct ret; unfold fwd_ok; cbn [fw_cl fw_te length]; repeat split; auto; try lia; discriminate.
  - destruct (0 <? _)%Z.
    + destruct (_ <=? lenN rest); unfold fwd_ok; cbn [fw_cl fw_te]; repeat split; auto; discriminate.
    + unfold fwd_ok; cbn [fw_cl fw_te]; repeat split; auto; discriminate.
Qed.

Lemma takeN_app_exact' {A} (a b : list A) : takeN (lenN a) (a ++ b) = a.
Proof.
  induction a as [|x a IH]; cbn [lenN app takeN].
  - destruct b; reflexivity.
  - destruct (N.succ (lenN a) =? 0) eqn:E; [apply N.eqb_eq in E; lia|]. rewrite N.pred_succ, IH. reflexivity.
Qed.

(* the strictly formed chunked body, all of it in the buffer and nothing after it: decoded exactly (C24) *)
Lemma chunked_whole relaxed cap m : ChunkedProofs.message_ok m -> lenN (ChunkedProofs.body m) <= cap ->
  exists st, ChunkedModel.parse relaxed cap ChunkedModel.init_state (ChunkedProofs.encode m) =
             ChunkedModel.PRet true st [] (ChunkedProofs.body m).
Proof.
  intros Hm Hcap.
  pose proof (ChunkedProofs.dechunk_exact relaxed m [] [(ChunkedProofs.encode m, cap)] [] Hm) as H.
  assert (Hs : ChunkedProofs.segs [(ChunkedProofs.encode m, cap)] ++ [] = ChunkedProofs.encode m ++ []).
  { unfold ChunkedProofs.segs. cbn [map concat fst]. rewrite !app_nil_r. reflexivity. }
  specialize (H Hs).
  assert (Hl : ChunkedProofs.live [] [] [(ChunkedProofs.encode m, cap)] (lenN (ChunkedProofs.body m))).
  { cbn [ChunkedProofs.live]. left. split; [cbn; lia|]. cbn. lia. }
  specialize (H Hl). cbv zeta in H. destruct H as (Hst & Hout & used & later & Hsg & Hused).
  unfold ChunkedModel.run_chunked, ChunkedModel.run in *. cbn [app] in *.
  destruct (ChunkedModel.parse relaxed cap ChunkedModel.init_state (ChunkedProofs.encode m)) as [ret st rem o| |] eqn:P;
    cbn [ChunkedModel.r_status ChunkedModel.r_out ChunkedModel.r_rest] in *; try discriminate.
  destruct ret.
  - cbn [ChunkedModel.r_status ChunkedModel.r_out ChunkedModel.r_rest app] in *.
    unfold ChunkedProofs.segs in Hsg. cbn [map concat fst] in Hsg. rewrite app_nil_r in Hsg.
    rewrite Hused in Hsg. rewrite <- app_assoc in Hsg.
    assert (Hnil : rem ++ later = []).
    { apply (app_inv_head (ChunkedProofs.encode m)). rewrite app_nil_r. symmetry. exact Hsg. }
    apply app_eq_nil in Hnil as [-> _]. exists st. subst o. reflexivity.
  - destruct (ChunkedModel.p_stage st); cbn [ChunkedModel.r_status] in Hst; discriminate.
Qed.

Ltac len_solve := unfold crlf in *; repeat (rewrite lenN_app in * || cbn [lenN] in * ); lia.

(* MESSAGE EXTENT.  The strict reader sees, at the front of the connection buffer, a head
   line1 CRLF *(line CRLF) CRLF followed by body_enc and then tail.  If Squid forwards a message from this buffer as
   HTTP/1.x and its framing decision is the strict reader's (kind and declared length: the hypothesis Hfr), then the
   message ends exactly where the strict reader's ends: the bytes left for the next message are tail, and the body
   handed upstream is the strict body.  For a chunked body this is shown when nothing follows it in the buffer. *)
Theorem message_extent cf line1 ls body_enc tail f persist rest :
  line_ok line1 -> Forall line_ok ls ->
  fits (line1 ++ crlf ++ enc_lines ls ++ crlf ++ body_enc ++ tail) ->
  process_one cf (line1 ++ crlf ++ enc_lines ls ++ crlf ++ body_enc ++ tail) = MForward f persist rest ->
  fw_major f = 1 ->
  (fw_chunked f = false /\ lenN body_enc = Z.to_N (fw_clen f)) \/
  (fw_chunked f = true /\ tail = [] /\
   exists m, ChunkedProofs.message_ok m /\ body_enc = ChunkedProofs.encode m /\ lenN (ChunkedProofs.body m) <= c_cap cf) ->
  rest = tail /\
  fw_head f = lenN (line1 ++ crlf ++ enc_lines ls ++ crlf) /\
  fw_used f = lenN (line1 ++ crlf ++ enc_lines ls ++ crlf ++ body_enc) /\
  (fw_chunked f = false -> fw_body f = body_enc) /\
  (fw_chunked f = true -> forall m, ChunkedProofs.message_ok m -> body_enc = ChunkedProofs.encode m ->
                          lenN (ChunkedProofs.body m) <= c_cap cf -> fw_body f = ChunkedProofs.body m).
Proof.
  intros Hl1 Hls Hf HP Hma Hfr.
  unfold process_one in HP.
  destruct (parse_whole (c_relaxed cf) (c_limit cf) (line1 ++ crlf ++ enc_lines ls ++ crlf ++ body_enc ++ tail))
    as [fl r0|[code fl]|s keep] eqn:PW; try discriminate.
  destruct (unmodelled_method (f_mid fl)); [discriminate|].
  destruct (f_mid fl =? req_m_none); [discriminate|].
  destruct (((f_major fl =? 0) && negb (f_minor fl =? 9)) || (1 <? f_major fl)); [discriminate|].
  destruct (if 1 <=? f_major fl then h_parse (c_relaxed cf) true false (f_mime fl) else Some empty_hdr) as [hr|]; [|discriminate].
  destruct (match get_list ID_EXPECT (hr_entries hr) with Some l => negb (ci_eqb l w_100_continue) | None => false end); [discriminate|].
  destruct (negb (check_entity_framing _ _ _ _ _ _ _ =? 0)); [discriminate|].
  assert (Hmaj : f_major fl = 1).
  { destruct (h_has_id ID_TE (hr_entries hr)).
    - destruct (ChunkedModel.parse _ _ _ r0) as [ret st rem out| |]; try discriminate. destruct ret; inversion HP; subst f; exact Hma.
    - destruct (0 <? _)%Z; [destruct (_ <=? lenN r0)|]; inversion HP; subst f; exact Hma. }
  assert (Hr0 : r0 = body_enc ++ tail).
  { destruct Hl1 as [Hn1 Hc1]. eapply head_extent; try eassumption. split; assumption. }
  subst r0. clear PW Hma.
  destruct (h_has_id ID_TE (hr_entries hr)) eqn:TE.
  - (* chunked *)
    destruct Hfr as [[Hc _]|(Hc & Ht & m & Hm & Hb & Hcap)].
    { destruct (ChunkedModel.parse _ _ _ (body_enc ++ tail)) as [ret st rem out| |]; try discriminate.
      destruct ret; inversion HP; subst f; cbn [fw_chunked] in Hc; discriminate. }
    subst tail body_enc. rewrite app_nil_r in HP.
    destruct (chunked_whole (c_relaxed cf) (c_cap cf) m Hm Hcap) as [st P]. rewrite P in HP.
    inversion HP; subst f rest persist. cbn [fw_head fw_used fw_chunked fw_body].
    split; [reflexivity|]. split; [len_solve|]. split; [len_solve|].
    split; [discriminate|].
    intros _ m' Hm' He' Hc'.
    destruct (chunked_whole (c_relaxed cf) (c_cap cf) m' Hm' Hc') as [st' P']. rewrite <- He' in P'. rewrite P in P'.
    inversion P'. reflexivity.
  - (* Content-Length or no body *)
    destruct Hfr as [[Hc Hn]|(Hc & _)].
    2:{ destruct (0 <? _)%Z; [destruct (_ <=? lenN (body_enc ++ tail))|]; inversion HP; subst f; cbn [fw_chunked] in Hc; discriminate. }
    destruct (0 <? _)%Z eqn:Hpos.
    + destruct (_ <=? lenN (body_enc ++ tail)) eqn:Hfit; [|discriminate].
      inversion HP; subst f rest persist. cbn [fw_head fw_used fw_chunked fw_body fw_clen] in *.
      rewrite <- Hn. rewrite takeN_app_exact', dropN_app_exact'.
      split; [reflexivity|]. split; [len_solve|]. split; [len_solve|].
      split; [reflexivity|discriminate].
    + inversion HP; subst f rest persist. cbn [fw_head fw_used fw_chunked fw_body fw_clen] in *.
      assert (body_enc = []) as ->.
      { destruct body_enc; [reflexivity|]. cbn [lenN] in Hn. lia. }
      cbn [app]. split; [reflexivity|]. split; [len_solve|]. split; [len_solve|].
      split; [reflexivity|discriminate].
Qed.

Lemma run_conn_fwd_ok : forall fuel cf off buf e, In e (run_conn fuel cf off buf) ->
  match e with
  | EForward _ f => fwd_ok f /\ fw_te f = false
  | EPartial _ f => fwd_ok f
  | _ => True
  end.
Proof.
  induction fuel as [|k IH]; intros cf off buf e Hin; cbn [run_conn] in Hin.
  - destruct Hin as [<-|[]]. exact I.
  - destruct buf as [|b0 buf]; [destruct Hin|].
    pose proof (process_one_fwd_ok cf (b0 :: buf)) as Hok.
    destruct (process_one cf (b0 :: buf)) as [ |c| |f persist rest|f| | ]; cbn [In] in Hin.
    1: destruct Hin.
    1,2,4,5,6: destruct Hin as [<-|[]]; try exact I; exact Hok.
    destruct Hin as [<-|Hin]; [exact Hok|].
    destruct persist; [eapply IH; exact Hin|]. destruct Hin as [<-|[]]. exact I.
Qed.

(* ====================================================================== 6. the witness of the known finding *)
Definition w_l1 : bytes := [80;79;83;84;32;104;116;116;112;58;47;47;111;47;109;48;32;72;84;84;80;47;49;46;49].          (* POST http://o/m0 HTTP/1.1 *)
Definition w_host : bytes := [72;111;115;116;58;32;104].        (* Host: h *)
Definition w_te_line : bytes := name_transfer_encoding ++ [58; 32] ++ word_chunked ++ [11].   (* Transfer-Encoding: chunked<VT> *)
Definition w_cl_line : bytes := [67;111;110;116;101;110;116;45;76;101;110;103;116;104;58;32;54;49].     (* Content-Length: 61 *)
Definition w_inner : bytes := [71;69;84;32;104;116;116;112;58;47;47;111;47;120;48;32;72;84;84;80;47;49;46;49;13;10;72;111;115;116;58;32;104;13;10;67;111;110;110;101;99;116;105;111;110;58;32;99;108;111;115;101;13;10;13;10].       (* GET http://o/x0 HTTP/1.1 CRLF Host: h CRLF Connection: close CRLF CRLF *)
Definition w_body : bytes := [48; 13; 10; 13; 10] ++ w_inner.      (* 0 CRLF CRLF, then the embedded request *)
Definition w_head : bytes := w_l1 ++ crlf ++ enc_lines [w_host; w_te_line; w_cl_line] ++ crlf.
Definition w_stream : bytes := w_head ++ w_body.
Definition w_inner_uri : bytes := [104;116;116;112;58;47;47;111;47;120;48].   (* http://o/x0 *)

(* REPAIRED in /repo (cc868a1, only SP / HTAB are trimmed around Content-Length and Transfer-Encoding values): in both
   parser modes `chunked<VT>` is an unsupported transfer coding; the message is answered 501 and nothing after it is read *)
Theorem vt_after_chunked_rejected : forall relaxed,
  run_stream (sm_default_cfg relaxed) w_stream = [EReject 0 sm_sc_not_implemented] /\
  Forall line_ok [w_l1; w_host; w_te_line; w_cl_line] /\
  w_te_line = name_transfer_encoding ++ [58; 32] ++ word_chunked ++ [11].
Proof. intros [|]; (split; [vm_compute; reflexivity|]); repeat split; try reflexivity; repeat constructor; try discriminate. Qed.

(* likewise `Content-Length: <VT>5` and `Content-Length: 5<FF>`: 400 in both modes *)
Definition w_cl_vt_stream : bytes := w_l1 ++ crlf ++ enc_lines [w_host; [67;111;110;116;101;110;116;45;76;101;110;103;116;104;58;32;11;53]] ++ crlf ++ [104;101;108;108;111].
Definition w_cl_ff_stream : bytes := w_l1 ++ crlf ++ enc_lines [w_host; [67;111;110;116;101;110;116;45;76;101;110;103;116;104;58;32;53;12]] ++ crlf ++ [104;101;108;108;111].
Theorem vt_content_length_rejected : forall relaxed,
  run_stream (sm_default_cfg relaxed) w_cl_vt_stream = [EReject 0 sm_sc_bad_request] /\
  run_stream (sm_default_cfg relaxed) w_cl_ff_stream = [EReject 0 sm_sc_bad_request].
Proof. intros [|]; split; vm_compute; reflexivity. Qed.

(* STILL accepted by the relaxed parser (known findings C03-chunk-line-bws, C03-cl-list-vt-ff): VT as bad white space
   inside a chunk extension, and VT next to an element of a Content-Length list *)
Definition w_hello : bytes := [104;101;108;108;111].
Definition w_chunk_vt_stream : bytes :=
  w_l1 ++ crlf ++ enc_lines [w_host; name_transfer_encoding ++ [58; 32] ++ word_chunked] ++ crlf ++
  [53; 11; 59; 97] ++ crlf ++ w_hello ++ crlf ++ [48] ++ crlf ++ crlf.               (* 5 VT ; a CRLF hello CRLF 0 CRLF CRLF *)
Theorem vt_in_chunk_ext_refuted : exists f,
  run_stream (sm_default_cfg true) w_chunk_vt_stream = [EForward 0 f] /\ fw_chunked f = true /\ fw_body f = w_hello /\
  run_stream (sm_default_cfg false) w_chunk_vt_stream = [EReset 0].
Proof. eexists. split; [vm_compute; reflexivity|]. repeat split; vm_compute; reflexivity. Qed.

Definition w_cl_list_vt_stream : bytes :=
  w_l1 ++ crlf ++ enc_lines [w_host; name_content_length ++ [58; 32; 53; 11; 44; 32; 53]] ++ crlf ++ w_hello.   (* Content-Length: 5 VT , SP 5 *)
Theorem vt_in_content_length_list_refuted : exists f,
  run_stream (sm_default_cfg true) w_cl_list_vt_stream = [EForward 0 f] /\ fw_body f = w_hello /\ fw_cl f = [[53]] /\
  run_stream (sm_default_cfg false) w_cl_list_vt_stream = [EReject 0 sm_sc_bad_request].
Proof. eexists. split; [vm_compute; reflexivity|]. repeat split; vm_compute; reflexivity. Qed.

(* ====================================================================== 7. the stream *)
(* a message as the strict reader delimits it: request line, field lines, the octets of its body encoding *)
Record smsg := { sm_line1 : bytes; sm_lines : list bytes; sm_body_enc : bytes }.
Definition smsg_bytes (m : smsg) : bytes := sm_line1 m ++ crlf ++ enc_lines (sm_lines m) ++ crlf ++ sm_body_enc m.
Definition smsg_ok (m : smsg) : Prop := line_ok (sm_line1 m) /\ Forall line_ok (sm_lines m).
Definition stream_of (ms : list smsg) : bytes := concat (map smsg_bytes ms).

(* Squid's framing decision for the i-th forwarded message is the strict reader's for its i-th message
   (HTTP/1.x, a body of declared length, that length) *)
Fixpoint agree (ms : list smsg) (evs : list event) : Prop :=
  match ms, evs with
  | m :: ms', EForward _ f :: evs' =>
      fw_major f = 1 /\ fw_chunked f = false /\ lenN (sm_body_enc m) = Z.to_N (fw_clen f) /\ agree ms' evs'
  | _, _ => True
  end.

(* the i-th forwarded message occupies exactly the extent of the strict reader's i-th message and carries its body *)
Fixpoint aligned (off : N) (ms : list smsg) (evs : list event) : Prop :=
  match ms, evs with
  | m :: ms', EForward st f :: evs' =>
      st = off /\ fw_used f = lenN (smsg_bytes m) /\ fw_body f = sm_body_enc m /\
      aligned (off + lenN (smsg_bytes m)) ms' evs'
  | _, _ => True
  end.

Lemma smsg_split m T : smsg_bytes m ++ T =
  sm_line1 m ++ crlf ++ enc_lines (sm_lines m) ++ crlf ++ sm_body_enc m ++ T.
Proof. unfold smsg_bytes. rewrite <- !app_assoc. reflexivity. Qed.

Lemma fits_suffix a b : fits (a ++ b) -> fits b.
Proof. unfold fits. rewrite lenN_app. lia. Qed.

Theorem stream_aligned : forall ms fuel cf off tail,
  Forall smsg_ok ms -> fits (stream_of ms ++ tail) ->
  agree ms (run_conn fuel cf off (stream_of ms ++ tail)) ->
  aligned off ms (run_conn fuel cf off (stream_of ms ++ tail)).
Proof.
  induction ms as [|m ms IH]; intros fuel cf off tail Hok Hf Hag; [exact I|].
  inversion Hok as [|? ? [Hl1 Hls] Hok']; subst.
  unfold stream_of in *. cbn [map concat] in *. fold (stream_of ms) in *.
  rewrite <- app_assoc in *.
  destruct fuel as [|k]; [exact I|].
  cbn [run_conn] in *.
  destruct (smsg_bytes m ++ stream_of ms ++ tail) as [|b0 l] eqn:Eb; [exact I|].
  destruct (process_one cf (b0 :: l)) as [ |c| |f persist rest|f| | ] eqn:PO; try exact I.
  cbn [agree] in Hag. destruct Hag as (Hmaj & Hch & Hlen & Hag').
  rewrite <- Eb in PO, Hf. rewrite smsg_split in PO, Hf.
  destruct (message_extent cf (sm_line1 m) (sm_lines m) (sm_body_enc m) (stream_of ms ++ tail) f persist rest
              Hl1 Hls Hf PO Hmaj (or_introl (conj Hch Hlen))) as (Hrest & _ & Hused & Hbody & _).
  cbn [aligned]. split; [reflexivity|].
  assert (Hu : fw_used f = lenN (smsg_bytes m)).
  { rewrite Hused. unfold smsg_bytes. rewrite <- ?app_assoc. reflexivity. }
  split; [exact Hu|]. split; [apply Hbody; exact Hch|].
  destruct persist; [|destruct ms; exact I].
  subst rest. rewrite Hu in *. apply IH; [exact Hok'| |exact Hag'].
  rewrite <- smsg_split in Hf. apply fits_suffix in Hf. exact Hf.
Qed.
