(* Properties_C56.v — C56: inter-process queues (src/ipc/Queue.h OneToOneUniQueue + QueueReader) are FIFO
   without lost items or wakeups. Statements only; proofs live in QueueProofs.v.

   Vocabulary (QueueModel.v):
     reach c i p its sched  the state after running schedule `sched` (0 = producer, 1 = consumer; one entry = one
                            atomic operation, one non-atomic item copy, one notify, or one idle look) from a queue of
                            capacity c whose cursors theIn = theOut = i, with a producer that pushes the values `its`
                            (Full => dropped; push() = true => sends a notification) and a consumer that runs
                            clearSignal(); pop() until false; idle — taking notifications, making up to p polls of its own.
                            ANY capacity, values, p and schedule.
     acc s / pushed s       (ghost) the values copied into the ring so far / whose push() has returned
     popped s               (ghost) the values returned by pop() = true so far (None = an unwritten slot)
     queued s               the ring contents from the last completed pop up to the last copied-in item, read from
                            the ring at the positions the code computes: ((i + j) mod 2^32) mod c
     cidle (cp s)           the consumer is asleep: its last pop() answered false (after block() and the re-check)
     will_notify s          the push() in flight will answer true (at raiseSignal with blocked && !signal, or already decided)
     valid_cfg c i          0 < c < 2^32 and i < 2^32
     no_wrap_or_dividing c i its   2^32 mod c = 0, or i + |its| <= 2^32 (the unsigned cursors do not pass 2^32 in this run) *)
Require Import SquidV.Bytes SquidV.QueueModel SquidV.QueueProofs.
Local Open Scope N_scope.

(* ================= FIFO exactness ================= *)

(* at every step: what pop() returned so far, followed by what the ring still holds between the cursors, is exactly
   what push() copied in, in order: no loss, no duplication, no reordering *)
Theorem C56_fifo_exact_partial : forall c i p its sched,
  valid_cfg c i -> no_wrap_or_dividing c i its ->
  let s := reach c i p its sched in map Some (acc s) = popped s ++ queued s.
Proof. exact reach_fifo_exact. Qed.
Print Assumptions C56_fifo_exact_partial.

(* the statement without the hypothesis on the indices is false: capacity 3, cursors at 2^32-1, push 1, push 2,
   pop, pop returns 2, 2 (confirmed on the real code: corpus/C56/known.txt) *)
Theorem C56_fifo_exact_refuted :
  exists c i p its sched, valid_cfg c i /\
    let s := reach c i p its sched in
    all_done s = true /\ pushed s = [1; 2] /\ popped s = [Some 2; Some 2] /\ map Some (acc s) <> popped s ++ queued s.
Proof. exact fifo_exact_refuted. Qed.
Print Assumptions C56_fifo_exact_refuted.

(* the values popped so far are the first values copied in *)
Theorem C56_popped_is_prefix_of_copied_in_partial : forall c i p its sched,
  valid_cfg c i -> no_wrap_or_dividing c i its ->
  let s := reach c i p its sched in
  popped s = map Some (takeN (lenN (popped s)) (acc s)) /\ lenN (popped s) <= lenN (acc s).
Proof. exact reach_popped_prefix. Qed.
Print Assumptions C56_popped_is_prefix_of_copied_in_partial.

(* pop() never returns a slot before push() has copied the item into it *)
Theorem C56_never_reads_unwritten_slot_partial : forall c i p its sched,
  valid_cfg c i -> no_wrap_or_dividing c i its ->
  forall v, In v (popped (reach c i p its sched)) -> exists x, v = Some x.
Proof. exact reach_never_reads_unwritten. Qed.
Print Assumptions C56_never_reads_unwritten_slot_partial.

(* theSize = (items copied in and counted) - (items popped); it never exceeds the capacity (a slot copied in but
   not yet counted included), never wraps, and a consumer committed to a pop always has an item. Any indices. *)
Theorem C56_size_counts_queued_items : forall c i p its sched, valid_cfg c i ->
  let s := reach c i p its sched in
  size s + wp (pp s) + lenN (popped s) = lenN (acc s) /\ size s + tp (pp s) + wp (pp s) <= cap s /\ cc (cp s) <= size s.
Proof. exact reach_size_exact. Qed.
Print Assumptions C56_size_counts_queued_items.

(* Full is thrown only when exactly `capacity` items are queued *)
Theorem C56_full_only_when_full : forall c i p its sched v, valid_cfg c i ->
  let s := reach c i p its sched in
  pp s = PPush1 v -> snd (pstep s) = [EvFull v] -> lenN (acc s) = lenN (popped s) + cap s.
Proof. exact reach_full_only_when_full. Qed.
Print Assumptions C56_full_only_when_full.

(* ================= no lost wakeup (any capacity, any indices) ================= *)

(* whenever the consumer sleeps and the queue is not empty, a notification is pending or the push in flight will ask for one *)
Theorem C56_no_lost_wakeup : forall c i p its sched, valid_cfg c i ->
  let s := reach c i p its sched in
  cidle (cp s) = true -> 0 < size s -> 0 < notifs s \/ will_notify s = true.
Proof. exact reach_no_lost_wakeup. Qed.
Print Assumptions C56_no_lost_wakeup.

(* a sleeping consumer with nothing pending has left blocked = true and signal = false behind ... *)
Theorem C56_idle_consumer_flags : forall c i p its sched, valid_cfg c i ->
  let s := reach c i p its sched in
  cidle (cp s) = true -> notifs s = 0 -> is_notify (pp s) = false -> blocked s = true /\ signal s = false.
Proof. exact reach_idle_flags. Qed.
Print Assumptions C56_idle_consumer_flags.

(* ... so the next push into the empty queue answers "notify": five producer steps later push(v) has returned true *)
Theorem C56_next_push_notifies : forall c i p its sched v, valid_cfg c i ->
  let s := reach c i p its sched in
  cp s = CIdle -> size s = 0 -> notifs s = 0 -> pp s = PPush1 v ->
  exists s', exec s [0; 0; 0; 0; 0] = (s', [EvPush v true], 5) /\ pp s' = PNotify /\ signal s' = true.
Proof. exact reach_next_push_notifies. Qed.
Print Assumptions C56_next_push_notifies.

(* ================= completed runs ================= *)

(* when both processes have ended (the consumer ends only asleep, with nothing pending, after the producer): nothing is
   left in the queue, a final single-threaded pop loop finds nothing, the flags are "blocked, no signal". Any indices. *)
Theorem C56_completed_run_leaves_nothing : forall c i p its sched, valid_cfg c i ->
  let s := reach c i p its sched in
  all_done s = true -> size s = 0 /\ notifs s = 0 /\ blocked s = true /\ signal s = false /\ drain_all s = [].
Proof. exact reach_completed_empty. Qed.
Print Assumptions C56_completed_run_leaves_nothing.

(* ... and the consumer received exactly the values whose push() returned, once each, in order *)
Theorem C56_completed_run_delivers_all_partial : forall c i p its sched,
  valid_cfg c i -> no_wrap_or_dividing c i its ->
  let s := reach c i p its sched in
  all_done s = true ->
  size s = 0 /\ notifs s = 0 /\ blocked s = true /\ signal s = false /\
  acc s = pushed s /\ popped s = map Some (pushed s) /\ drain_all s = [].
Proof. exact reach_completed_delivers_all. Qed.
Print Assumptions C56_completed_run_delivers_all_partial.

(* the same on what an observer sees (no ghost state): the EvPop values of a completed run are the EvPush values *)
Theorem C56_completed_run_events_partial : forall c i p its sched s evs n,
  valid_cfg c i -> no_wrap_or_dividing c i its ->
  exec (init c i p its) sched = (s, evs, n) -> all_done s = true ->
  pops_of evs = map Some (pushes_of evs).
Proof. exact completed_run_events. Qed.
Print Assumptions C56_completed_run_events_partial.

(* and at every moment of any run the EvPop values are a prefix of the values copied in *)
Theorem C56_run_events_prefix_partial : forall c i p its sched s evs n,
  valid_cfg c i -> no_wrap_or_dividing c i its ->
  exec (init c i p its) sched = (s, evs, n) ->
  pops_of evs = map Some (takeN (lenN (pops_of evs)) (acc s)).
Proof. exact run_events_prefix. Qed.
Print Assumptions C56_run_events_prefix_partial.

(* every run completes: after ANY schedule the round-robin continuation ends with both processes ended — the consumer asleep
   with nothing pending, the producer out of items (the runner's out-of-fuel answer is impossible). Any indices. *)
Theorem C56_every_run_completes : forall c i p its sched, valid_cfg c i ->
  exists s evs n, run_case c i p its sched = Some (s, evs, n) /\ all_done s = true.
Proof. exact run_case_completes. Qed.
Print Assumptions C56_every_run_completes.

(* what the runner prints for every case (and the harness must print too): completed, popped values = pushed values,
   final drain empty, nothing pending, flags "blocked, no signal" *)
Theorem C56_every_run_completes_and_delivers_partial : forall c i p its sched,
  valid_cfg c i -> no_wrap_or_dividing c i its ->
  exists s evs n, run_case c i p its sched = Some (s, evs, n) /\ all_done s = true /\
    pops_of evs = map Some (pushes_of evs) /\ drain_all s = [] /\ notifs s = 0 /\ blocked s = true /\ signal s = false.
Proof. exact run_case_completes_and_delivers. Qed.
Print Assumptions C56_every_run_completes_and_delivers_partial.

(* ================= the invariants themselves ================= *)
Theorem C56_invariant_all_interleavings : forall c i p its sched,
  valid_cfg c i -> no_wrap_or_dividing c i its -> Inv (reach c i p its sched).
Proof. exact reach_inv. Qed.
Print Assumptions C56_invariant_all_interleavings.

Theorem C56_signalling_invariant_any_indices : forall c i p its sched,
  valid_cfg c i -> Inv1 (reach c i p its sched).
Proof. exact reach_inv1. Qed.
Print Assumptions C56_signalling_invariant_any_indices.

(* every power-of-two capacity (squid's callers: 1024) satisfies the index hypothesis for every cursor value and run length *)
Theorem C56_power_of_two_capacity_ok : forall k i its, k <= 32 -> no_wrap_or_dividing (2 ^ k) i its.
Proof. exact pow2_capacity_ok. Qed.
Print Assumptions C56_power_of_two_capacity_ok.

(* ================= the hypotheses are satisfiable, non-trivially ================= *)
Example C56_ex_cfg_1024 : valid_cfg 1024 4294967295 /\ no_wrap_or_dividing 1024 4294967295 [1; 2; 3].
Proof. vm_compute. repeat split; try reflexivity. left. reflexivity. Qed.

Example C56_ex_cfg_nondividing_no_wrap : valid_cfg 3 0 /\ no_wrap_or_dividing 3 0 [1; 2; 3; 4].
Proof. vm_compute. repeat split; try reflexivity. right. discriminate. Qed.

(* the consumer went to sleep first; the producer published item 1 and is inside raiseSignal():
   asleep + non-empty + nothing pending yet, and the push in flight will notify *)
Example C56_ex_asleep_nonempty_push_in_flight :
  let s := reach 2 0 0 [1] [1; 1; 1; 1; 1; 1; 0; 0; 0] in
  cp s = CIdle /\ size s = 1 /\ notifs s = 0 /\ pp s = PPush4 1 /\ will_notify s = true.
Proof. vm_compute. repeat split; reflexivity. Qed.

(* two steps later the notification is on its way, one more and it is pending *)
Example C56_ex_asleep_nonempty_notification_pending :
  let s := reach 2 0 0 [1] [1; 1; 1; 1; 1; 1; 0; 0; 0; 0; 0; 0] in
  cp s = CIdle /\ size s = 1 /\ notifs s = 1 /\ signal s = true.
Proof. vm_compute. repeat split; reflexivity. Qed.

(* the premises of C56_next_push_notifies / C56_idle_consumer_flags *)
Example C56_ex_asleep_empty :
  let s := reach 2 0 0 [7] [1; 1; 1; 1; 1; 1] in
  cp s = CIdle /\ size s = 0 /\ notifs s = 0 /\ pp s = PPush1 7 /\ is_notify (pp s) = false.
Proof. vm_compute. repeat split; reflexivity. Qed.

(* the window the re-check after block() exists for: the producer publishes between the consumer's first empty()
   and block(), sees blocked = false and does not notify; the re-check finds the item *)
Example C56_ex_recheck_window :
  match run_case 2 0 0 [1] [1; 1; 1; 0; 0; 0; 0; 1; 1] with
  | Some (s, evs, _) => evs = [EvClear; EvPush 1 false; EvPop (Some 1); EvEmpty; EvEnd] /\ all_done s = true
  | None => False
  end.
Proof. vm_compute. split; reflexivity. Qed.

(* Full: capacity 1, the producer runs ahead *)
Example C56_ex_full :
  let s := reach 1 0 0 [1; 2] [0; 0; 0; 0] in
  pp s = PPush1 2 /\ snd (pstep s) = [EvFull 2] /\ lenN (acc s) = lenN (popped s) + cap s.
Proof. vm_compute. repeat split; reflexivity. Qed.

(* a completed run with contention, a poll, a Full and a notification *)
Example C56_ex_completed_run :
  match run_case 2 0 1 [1; 2; 3; 4] [1;1;1;1;1;1; 0;0;0;0;0;0;0;0;0;0; 1;1;1;1;1;1; 0;0;0; 1;1;1] with
  | Some (s, evs, _) => all_done s = true /\ pops_of evs = map Some (pushes_of evs) /\ pushes_of evs = [1; 2; 4]
  | None => False
  end.
Proof. vm_compute. repeat split; reflexivity. Qed.
