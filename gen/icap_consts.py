#!/usr/bin/env python3
"""Table generator for the ICAP model (C60), source-level: reads /repo's current text and prints Coq.
   - BodyPipe::MaxCapacity (src/BodyPipe.h): the virgin/adapted pipe capacity and ModXact's TheBackupLimit
   - the order of ModXact::State::Writing (src/adaptation/icap/ModXact.h): the code compares these enumerators
     with < / >= / >
   - the status dispatch of ModXact::parseIcapHead (src/adaptation/icap/ModXact.cc): which ICAP status code
     reaches which handler
usage: icap_consts.py <repo>"""
import re, sys, os

repo = sys.argv[1] if len(sys.argv) > 1 else "/repo"


def rd(p):
    with open(os.path.join(repo, p), encoding="latin1") as f:
        return f.read()


def strip_comments(t):
    t = re.sub(r"/\*.*?\*/", " ", t, flags=re.S)
    return re.sub(r"//[^\n]*", "", t)


out = ["@@FILE IcapConst_gen.v\n", "(* generated from /repo by gen/icap_consts.py -- do not edit *)\n",
       "Require Import SquidV.Bytes.\nLocal Open Scope N_scope.\n"]

# 1. capacity
bp = strip_comments(rd("src/BodyPipe.h"))
m = re.search(r"MaxCapacity\s*=\s*([0-9*+\s()]+);", bp)
if not m:
    sys.exit("MaxCapacity not found")
cap = eval(m.group(1), {"__builtins__": {}})
mx = strip_comments(rd("src/adaptation/icap/ModXact.cc"))
m = re.search(r"TheBackupLimit\s*=\s*([A-Za-z0-9_:*+\s()]+);", mx)
if not m:
    sys.exit("TheBackupLimit not found")
lim = m.group(1).strip()
if lim == "BodyPipe::MaxCapacity":
    limv = cap
else:
    try:
        limv = eval(lim, {"__builtins__": {}})
    except Exception:
        sys.exit("cannot evaluate TheBackupLimit = " + lim)
out.append("Definition pipe_capacity : N := %d.\nDefinition backup_limit : N := %d.\n" % (cap, limv))

# 2. Writing enum order
mh = strip_comments(rd("src/adaptation/icap/ModXact.h"))
m = re.search(r"enum\s+Writing\s*\{([^}]*)\}", mh)
if not m:
    sys.exit("enum Writing not found")
names = [x.strip() for x in m.group(1).split(",") if x.strip()]
for i, n in enumerate(names):
    out.append("Definition rank_%s : N := %d.\n" % (n, i))
out.append("Definition writing_enum_size : N := %d.\n" % len(names))
for en in ("Parsing", "Sending"):
    m = re.search(r"enum\s+%s\s*\{([^}]*)\}" % en, mh)
    if not m:
        sys.exit("enum %s not found" % en)
    ns = [x.strip() for x in m.group(1).split(",") if x.strip()]
    out.append("Definition %s_enum_size : N := %d.\n" % (en.lower(), len(ns)))

# 3. status dispatch in parseIcapHead
sc = strip_comments(rd("src/http/StatusCode.h"))
codes = dict((a, int(b)) for a, b in re.findall(r"\b(sc[A-Za-z0-9_]+)\s*=\s*(\d+)", sc))
m = re.search(r"void\s+Adaptation::Icap::ModXact::parseIcapHead\s*\(\s*\)\s*\{", mx)
if not m:
    sys.exit("parseIcapHead not found")
body = mx[m.end():]
m = re.search(r"switch\s*\(\s*icapReply->sline\.status\(\)\s*\)\s*\{", body)
if not m:
    sys.exit("status switch not found")
# take the switch block by brace matching
i = m.end()
depth = 1
j = i
while depth and j < len(body):
    if body[j] == "{":
        depth += 1
    elif body[j] == "}":
        depth -= 1
    j += 1
sw = body[i:j - 1]
HANDLERS = {"handleUnknownScode": 0, "handle100Continue": 1, "handle200Ok": 2, "handle204NoContent": 3,
            "handle206PartialContent": 4}
table = {}
default = None
pending = []
for piece in re.split(r"(?=\bcase\b|\bdefault\s*:)", sw):
    piece = piece.strip()
    if not piece:
        continue
    mm = re.match(r"case\s+Http::(sc[A-Za-z0-9_]+)\s*:(.*)", piece, flags=re.S)
    isdef = piece.startswith("default")
    rest = mm.group(2) if mm else piece.split(":", 1)[1]
    if mm:
        if mm.group(1) not in codes:
            sys.exit("unknown status name " + mm.group(1))
        pending.append(codes[mm.group(1)])
    hs = [h for h in re.findall(r"\b(handle[A-Za-z0-9]+)\s*\(", rest) if h in HANDLERS]
    if hs:
        # a validated 200: `if (!validate200Ok()) throw ...; else handle200Ok();`
        h = hs[-1]
        if h == "handle200Ok" and "validate200Ok" not in rest:
            sys.exit("handle200Ok no longer guarded by validate200Ok")
        if isdef:
            default = HANDLERS[h]
        for c in pending:
            table[c] = HANDLERS[h]
        pending = []
    elif isdef:
        sys.exit("default case without a handler")
if default is None:
    sys.exit("no default handler")
out.append("(* handler codes: 0 handleUnknownScode, 1 handle100Continue, 2 validate200Ok+handle200Ok, 3 handle204NoContent, 4 handle206PartialContent *)\n")
expr = str(default)
for c in sorted(table, reverse=True):
    expr = "if st =? %d then %d else %s" % (c, table[c], expr)
out.append("Definition icap_dispatch (st : N) : N := %s.\n" % expr)
out.append("Definition icap_dispatch_codes : list N := [%s].\n" % ";".join(str(c) for c in sorted(table)))
sys.stdout.write("".join(out))
