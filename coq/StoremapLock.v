(* StoremapLock.v — proofs about StoremapModel.v (C55), part 1.

   Part 1 (composition with C54). Every process takes part in the lock of every anchor f as TWO processes
   of RwlockModel: [pri f th] (the entry it opens / holds) and [tra f th] (its freeEntry / freeEntryByKey
   calls). [LInv]: for every anchor, the counting invariant of RwlockProofs ([Inv]) holds of the anchor's
   lock fields and the list of these virtual processes. It is preserved by every step of every process:
   steps inside a lock method by RwlockProofs.pstep_inv, all other steps because they leave the weights
   unchanged; an assert() about the lock state cannot fail. *)
Require Import SquidV.Bytes SquidV.RwlockModel SquidV.RwlockProofs SquidV.StoremapModel.
Require Import ZifyBool ZifyN ZifyNat.
Local Open Scope Z_scope.

(* ---------- lists ---------- *)
Lemma nthN_updN_same : forall (A : Type) (l : list A) (n : N) (x y : A),
  nthN n l = Some x -> nthN n (updN n y l) = Some y.
Proof.
  induction l as [|a l IH]; intros n x y H; simpl in *; [discriminate|].
  destruct (N.eqb_spec n 0%N) as [E|E]; simpl.
  - subst. reflexivity.
  - destruct (N.eqb_spec n 0%N); [contradiction|]. eapply IH; eassumption.
Qed.

Lemma nthN_updN_other : forall (A : Type) (l : list A) (n m : N) (y : A),
  n <> m -> nthN m (updN n y l) = nthN m l.
Proof.
  induction l as [|a l IH]; intros n m y D; simpl; [reflexivity|].
  destruct (N.eqb_spec n 0%N) as [E|E]; simpl.
  - destruct (N.eqb_spec m 0%N); [lia | reflexivity].
  - destruct (N.eqb_spec m 0%N); [reflexivity|]. apply IH. lia.
Qed.

Lemma updN_same : forall (A : Type) (l : list A) (n : N) (x : A), nthN n l = Some x -> updN n x l = l.
Proof.
  induction l as [|a l IH]; intros n x H; simpl in *; [reflexivity|].
  destruct (N.eqb_spec n 0%N) as [E|E].
  - inversion H; subst. reflexivity.
  - f_equal. apply IH. assumption.
Qed.

Lemma updN_none : forall (A : Type) (l : list A) (n : N) (x : A), nthN n l = None -> updN n x l = l.
Proof.
  induction l as [|a l IH]; intros n x H; simpl in *; [reflexivity|].
  destruct (N.eqb_spec n 0%N) as [E|E]; [discriminate|]. f_equal. apply IH. assumption.
Qed.

Lemma lenN_updN : forall (A : Type) (l : list A) (n : N) (x : A), lenN (updN n x l) = lenN l.
Proof.
  induction l as [|a l IH]; intros n x; simpl; [reflexivity|].
  destruct (n =? 0)%N; simpl; [reflexivity | rewrite IH; reflexivity].
Qed.

(* ---------- Inv only depends on the weights ---------- *)
Lemma inv_swap : forall s l1 l2 p q sp sq,
  wt p = wt q -> cr p = cr q ->
  Inv (mkState s (l1 ++ (p, sp) :: l2)) -> Inv (mkState s (l1 ++ (q, sq) :: l2)).
Proof.
  intros s l1 l2 p q sp sq Hw Hc [H1 H2 H3 H4 H5 H6 H7 H8 H9].
  cbn [sh ths] in *.
  unfold Srl, Srd, Swl, Sfw, Swr, Sap, Sup, Sxc, Src, Scr in *.
  rewrite !sumf_app, !sumf_cons in *.
  constructor; cbn [sh ths]; unfold Srl, Srd, Swl, Sfw, Swr, Sap, Sup, Sxc, Src, Scr;
    rewrite ?sumf_app, ?sumf_cons; rewrite <- ?Hw, <- ?Hc; assumption.
Qed.

Lemma inv_no_crashed : forall s l1 l2 sp, Inv (mkState s (l1 ++ (Crashed, sp) :: l2)) -> False.
Proof.
  intros s l1 l2 sp [_ _ _ _ _ _ _ _ H9]. cbn [ths] in H9.
  pose proof (rest_facts l1) as F1. pose proof (rest_facts l2) as F2.
  unfold Scr in *. rewrite sumf_app, sumf_cons in H9. cbn [cr] in H9. lia.
Qed.

(* rd <= rc pointwise: whoever is counted in `readers` has decided to read *)
Lemma rd_le_rc : forall l, Srd l <= Src l.
Proof.
  unfold Srd, Src. induction l as [|[p scr] l IH]; [simpl; lia|].
  rewrite !sumf_cons.
  pc_cases p; cbn [wt wmode rl rd wl fw wr ap up xc rc cr us_wl us_fw ux_r b2z]; lia.
Qed.

(* what a holder can conclude about the lock fields *)
Lemma inv_holder_facts : forall s l1 l2 p sp,
  Inv (mkState s (l1 ++ (p, sp) :: l2)) ->
  (wr (wt p) = 1 -> writing s = true) /\
  (rd (wt p) = 1 -> (readers s =? 0) = false) /\
  (xc (wt p) = 1 -> readers s = 0) /\
  (xc (wt p) = 1 -> appending s = false) /\
  (ap (wt p) = 1 -> appending s = true) /\
  (fw (wt p) = 1 -> ap (wt p) = 0 -> appending s = false).
Proof.
  intros s l1 l2 p sp [H1 H2 H3 H4 H5 H6 H7 H8 H9]. cbn [sh ths] in *.
  pose proof (rest_facts l1) as F1. pose proof (rest_facts l2) as F2.
  pose proof (rd_le_rc l1) as G1. pose proof (rd_le_rc l2) as G2.
  pose proof (wt_nonneg p) as NP.
  assert (RP : rd (wt p) <= rc (wt p)).
  { pose proof (rd_le_rc [(p, sp)]) as X. unfold Srd, Src in X. rewrite !sumf_cons in X. simpl in X. lia. }
  assert (XP : xc (wt p) + ap (wt p) <= fw (wt p)).
  { pose proof (rest_facts [(p, sp)]) as X. unfold Sxc, Sap, Sfw in X. rewrite !sumf_cons in X. simpl in X. lia. }
  unfold Srl, Srd, Swl, Sfw, Swr, Sap, Sup, Sxc, Src, Scr in *.
  rewrite !sumf_app, !sumf_cons in *.
  destruct s as [R Wr Ap Up RL WL]. cbn [readers writing appending updating readLevel writeLevel] in *.
  repeat split; intros.
  - destruct Wr; [reflexivity | simpl in H4; lia].
  - destruct (Z.eqb_spec R 0); [lia | reflexivity].
  - lia.
  - destruct Ap; [simpl in H5; lia | reflexivity].
  - destruct Ap; [reflexivity | simpl in H5; lia].
  - destruct Ap; [simpl in H5; lia | reflexivity].
Qed.

(* ---------- one step of one activity preserves the anchor's lock invariant ---------- *)
Definition res_inv (L : shared) (l1 l2 : list thread) (r : ares) : Prop :=
  match r with
  | ANext p' => Inv (mkState L (l1 ++ (alock p', []) :: l2))
  | ADone m _ => Inv (mkState L (l1 ++ (Ready m, []) :: l2))
  | ACrashL => False
  | ACrashD m => Inv (mkState L (l1 ++ (Done m, []) :: l2))
  end.

Ltac swap_with H := eapply inv_swap; [ | | exact H]; reflexivity.

(* calling a lock method that is legal in the caller's mode (the use step of RwlockModel) *)
Lemma enter_inv : forall s l1 l2 m o sp sq,
  legal m o = true ->
  Inv (mkState s (l1 ++ (Ready m, sp) :: l2)) -> Inv (mkState s (l1 ++ (entry m o, sq) :: l2)).
Proof.
  intros s l1 l2 m o sp sq Lg H.
  assert (H0 : Inv (mkState s (l1 ++ (Ready m, [o]) :: l2))) by (swap_with H).
  assert (P : pstep s (Ready m) [o] = (s, entry m o, [], [EvUse m])).
  { cbn [pstep fetch]. rewrite Lg. reflexivity. }
  pose proof (pstep_inv _ _ _ _ _ _ _ _ _ H0 P) as H1.
  swap_with H1.
Qed.

Ltac enter_with H m o := (eapply (enter_inv _ _ _ m o); [ | exact H]; reflexivity).
Ltac step_with H :=
  first [ swap_with H | (eapply enter_inv; [ | exact H]; reflexivity)
        | enter_with H MExcl OpUX | enter_with H MAppend OpUX | enter_with H MBusy OpUX
        | enter_with H MExcl OpSA | enter_with H MAppend OpSP | enter_with H MShared OpUS
        | enter_with H MShared OpSX | enter_with H MIdle OpLX | enter_with H MIdle OpLS ].

Lemma lcont_inv : forall L l1 l2 a c m sp,
  Inv (mkState L (l1 ++ (Ready m, sp) :: l2)) -> res_inv L l1 l2 (lcont a c m).
Proof.
  intros L l1 l2 a c m sp H.
  destruct c as [ow ok| | | | | |c'| |k| |k| |k| | | | | | ]; try destruct c'; destruct m; cbn [lcont keep]; unfold callL, fc_entry;
    repeat match goal with
           | |- context [if ?x then _ else _] => destruct x
           end;
    cbn [res_inv alock amode keep wmode_of]; step_with H.
Qed.

Ltac split_ifs_in E :=
  repeat match type of E with
         | context [if ?c then _ else _] => destruct c eqn:?
         | context [match getS ?a ?b with _ => _ end] => destruct (getS a b) eqn:?
         | context [match sidx ?a ?b with _ => _ end] => destruct (sidx a b) eqn:?
         end.

Lemma astepA_inv : forall sh a p a' sh1 r evs l1 l2 sp,
  Inv (mkState (lk a) (l1 ++ (alock p, sp) :: l2)) ->
  astepA sh a p = (a', sh1, r, evs) ->
  anchors sh1 = anchors sh /\ res_inv (lk a') l1 l2 r.
Proof.
  intros sh a p a' sh1 r evs l1 l2 sp HI E.
  destruct p.
  1: { (* inside a lock method *)
    cbn [astepA alock] in *.
    destruct (pstep (lk a) lp []) as [[[L' lp'] scr'] evs'] eqn:P.
    assert (HI0 : Inv (mkState (lk a) (l1 ++ (lp, []) :: l2))) by (swap_with HI).
    pose proof (pstep_inv _ _ _ _ _ _ _ _ _ HI0 P) as HI'.
    destruct lp'; inversion E; subst; clear E; cbn [lk set_lk]; split; try reflexivity;
      try (cbn [res_inv alock]; swap_with HI').
    - eapply lcont_inv. exact HI'.
    - apply (lcont_inv _ _ _ _ _ _ []). eapply inv_swap; [ | | exact HI']; reflexivity.
    - cbn [res_inv]. eapply inv_no_crashed. exact HI'. }
  all: cbn [alock amode] in HI;
    try match goal with b : bool |- _ => destruct b end;
    try match goal with c : fcx |- _ => destruct c end;
    cbn [wmode_of keep] in HI;
    pose proof (inv_holder_facts _ _ _ _ _ HI) as (F1 & F2 & F3 & F4 & F5 & F6);
    cbn [wt wmode rl rd wl fw wr ap up xc rc] in F1, F2, F3, F4, F5, F6;
    cbn [astepA keep] in E;
    try rewrite (F1 eq_refl) in E; try rewrite (F2 eq_refl) in E; try rewrite (F3 eq_refl) in E;
    try rewrite (F4 eq_refl) in E; try rewrite (F5 eq_refl) in E;
    cbn [Z.eqb] in E;
    unfold fc_entry, fl_head, lk_head, callL in E;
    split_ifs_in E;
    try match type of E with context [match ?c with Some _ => _ | None => _ end] => destruct c end;
    split_ifs_in E;
    inversion E; subst; clear E;
    cbn [lk set_wtbf set_halted set_akey set_astart set_asplice anchors putS putO set_slices set_owner set_count];
    (split; [reflexivity|]);
    cbn [res_inv alock amode keep wmode_of]; step_with HI.
Qed.

(* ---------- the per-anchor lock invariant of a StoreMap state ---------- *)
Definition LInv (st : mstate) : Prop :=
  forall f a, nthN f (anchors (msh st)) = Some a -> Inv (mkState (lk a) (proj f (mths st))).

Lemma proj_app : forall f l1 l2, proj f (l1 ++ l2) = proj f l1 ++ proj f l2.
Proof. intros. unfold proj. apply flat_map_app. Qed.

Lemma proj_cons : forall f th l, proj f (th :: l) = (pri f th, []) :: (tra f th, []) :: proj f l.
Proof. reflexivity. Qed.

Lemma mid2 : forall (A : Type) (L1 L2 : list A) x y, L1 ++ x :: y :: L2 = (L1 ++ [x]) ++ y :: L2.
Proof. intros. rewrite <- app_assoc. reflexivity. Qed.

Lemma inv_swap2 : forall s L1 L2 p q p' q' a b c d,
  wt p = wt p' -> cr p = cr p' -> wt q = wt q' -> cr q = cr q' ->
  Inv (mkState s (L1 ++ (p, a) :: (q, b) :: L2)) -> Inv (mkState s (L1 ++ (p', c) :: (q', d) :: L2)).
Proof.
  intros s L1 L2 p q p' q' a b c d H1 H2 H3 H4 H.
  apply (inv_swap s L1 _ p p' a c H1 H2) in H.
  rewrite mid2 in *. apply (inv_swap s _ L2 q q' b d H3 H4) in H. exact H.
Qed.

Lemma linv_replace : forall sh sh' l1 th th' l2,
  LInv (mkS sh (l1 ++ th :: l2)) ->
  (forall f a', nthN f (anchors sh') = Some a' ->
     exists a, nthN f (anchors sh) = Some a /\
       forall L1 L2, Inv (mkState (lk a) (L1 ++ (pri f th, []) :: (tra f th, []) :: L2)) ->
                     Inv (mkState (lk a') (L1 ++ (pri f th', []) :: (tra f th', []) :: L2))) ->
  LInv (mkS sh' (l1 ++ th' :: l2)).
Proof.
  intros sh sh' l1 th th' l2 HL HS f a' Ha'. cbn [msh mths] in *.
  destruct (HS f a' Ha') as (a & Ha & K).
  specialize (HL f a Ha). cbn [msh mths] in HL.
  rewrite proj_app, proj_cons in *. apply K. exact HL.
Qed.

Lemma fetchk_legal : forall m s o r, fetchk m s = Some (o, r) -> legalk m o = true /\ (length r < length s)%nat.
Proof.
  induction s as [|x s IH]; simpl; intros o r H; [discriminate|].
  destruct (legalk m x) eqn:E.
  - inversion H; subst. split; [assumption | lia].
  - destruct (IH _ _ H). split; [assumption | lia].
Qed.

Lemma cm_lmode_newcm_same : forall old f m o, cm_lmode (newcm old f m o) f = m.
Proof.
  intros. destruct m; cbn [newcm cm_lmode]; rewrite ?N.eqb_refl; try reflexivity.
  destruct o as [| |[k|]| | |l w| | ]; cbn [cm_lmode]; rewrite ?N.eqb_refl; try reflexivity.
  destruct old; cbn [cm_lmode]; rewrite ?N.eqb_refl; try reflexivity.
  destruct (f0 =? f)%N; cbn [cm_lmode]; rewrite ?N.eqb_refl; reflexivity.
Qed.

Lemma cm_lmode_newcm_other : forall old f g m o, f <> g -> cm_lmode (newcm old f m o) g = MIdle.
Proof.
  intros old f g m o D.
  assert (X : (f =? g)%N = false) by (destruct (N.eqb_spec f g); [contradiction | reflexivity]).
  destruct m; cbn [newcm cm_lmode]; rewrite ?X; try reflexivity.
  destruct o as [| |[k|]| | |l w| | ]; cbn [cm_lmode]; rewrite ?X; try reflexivity.
  destruct old; cbn [cm_lmode]; rewrite ?X; try reflexivity.
  destruct (f0 =? f)%N; cbn [cm_lmode]; rewrite ?X; reflexivity.
Qed.

(* start of an operation: the first pc carries the same weights as the client's mode *)
Lemma start_op_weights : forall sh m o sh' p' evs r c f,
  legalk m o = true ->
  start_op sh m o = (sh', p', evs) ->
  anchors sh' = anchors sh /\
  wt (pri f (mkT m p' c r)) = wt (Ready (cm_lmode m f)) /\ cr (pri f (mkT m p' c r)) = 0 /\
  wt (tra f (mkT m p' c r)) = wt (Ready MIdle) /\ cr (tra f (mkT m p' c r)) = 0.
Proof.
  intros sh m o sh' p' evs r c f Lg E.
  destruct m; destruct o; try discriminate Lg; cbn [start_op cm_anchor cm_app cm_last] in E;
    repeat match type of E with
           | context [if ?x then _ else _] => destruct x eqn:?
           | context [match first_free ?a ?b with _ => _ end] => destruct (first_free a b) eqn:?
           end;
    inversion E; subst; clear E;
    cbn [pri tra tpc cm alock amode cm_lmode cm_anchor cm_app cm_last entry anchors putO set_owner wmode_of];
    repeat match goal with |- context [(?a =? ?b)%N] => destruct (N.eqb_spec a b) end;
    repeat split; try reflexivity; subst; try contradiction.
Qed.

Lemma astep_anchors : forall sh g p sh' r evs a0,
  nthN g (anchors sh) = Some a0 ->
  astep sh g p = (sh', r, evs) ->
  exists a1 sh1 , astepA sh a0 p = (a1, sh1, r, evs) /\ anchors sh' = updN g a1 (anchors sh) /\ anchors sh1 = anchors sh.
Proof.
  intros sh g p sh' r evs a0 Ha E. unfold astep in E. rewrite Ha in E.
  destruct (astepA sh a0 p) as [[[a1 sh1] r1] evs1] eqn:EA.
  inversion E; subst; clear E.
  exists a1, sh1. split; [reflexivity|].
  assert (anchors sh1 = anchors sh).
  { destruct p; cbn [astepA] in EA;
      repeat match type of EA with
             | context [pstep ?x ?y ?z] => destruct (pstep x y z) as [[[? ?] ?] ?]
             | context [match ?x with Ready _ => _ | _ => _ end] => destruct x
             | context [if ?c then _ else _] => destruct c
             | context [match getS ?a ?b with _ => _ end] => destruct (getS a b)
             | context [match sidx ?a ?b with _ => _ end] => destruct (sidx a b)
             | context [match ?c with Some _ => _ | None => _ end] => destruct c
             end;
      inversion EA; subst; reflexivity. }
  split; [|assumption]. cbn [putA set_anchors anchors]. rewrite H. reflexivity.
Qed.

(* the theorems below are about processes that never call the update methods (openForUpdating ... ):
   their scripts contain no update operation, so they are never inside one nor in the updater's mode *)
Definition nou_op (o : kop) : bool := match o with KU _ | KSp _ | KCu | KAu => false | _ => true end.
Definition nou_cm (m : cmode) : bool := match m with CUpd _ => false | _ => true end.
Definition nou_pc (p : spc) : bool := match p with UP _ _ => false | _ => true end.
Definition noU (th : mthread) : Prop :=
  nou_cm (cm th) = true /\ nou_pc (tpc th) = true /\ forallb nou_op (scr th) = true.

Lemma fetchk_nou : forall m s o r, forallb nou_op s = true -> fetchk m s = Some (o, r) -> nou_op o = true /\ forallb nou_op r = true.
Proof.
  induction s as [|x s IH]; simpl; intros o r H F; [discriminate|].
  apply andb_true_iff in H. destruct H as [H1 H2].
  destruct (legalk m x); [inversion F; subst; split; assumption | eapply IH; eassumption].
Qed.

Lemma newcm_nou : forall old f m o, nou_cm (newcm old f m o) = true.
Proof.
  intros. destruct m; cbn [newcm nou_cm]; try reflexivity.
  destruct o as [| |[k|]| | |l w| | ]; try reflexivity. destruct old; try reflexivity. destruct (f0 =? f)%N; reflexivity.
Qed.

Lemma tstep_noU : forall sh th sh' th' evs, noU th -> tstep sh th = (sh', th', evs) -> noU th'.
Proof.
  intros sh [m p c s] sh' th' evs (N1 & N2 & N3) E. unfold tstep in E. cbn [cm tpc cur scr] in *.
  destruct p as [ | | |f0 m0|g0 m0|k|k|k|g p|g p|u q]; try discriminate N2.
  - destruct (fetchk m s) as [[o r]|] eqn:F.
    + destruct (fetchk_nou _ _ _ _ N3 F) as [O1 O2].
      destruct (start_op sh m o) as [[sh1 p1] evs1] eqn:S. inversion E; subst; clear E.
      unfold noU. cbn [cm tpc scr]. split; [assumption|]. split; [|assumption].
      destruct m; try discriminate N1; destruct o; try discriminate O1; cbn [start_op] in S;
        repeat match type of S with
               | context [if ?x then _ else _] => destruct x
               | context [match first_free ?a ?b with _ => _ end] => destruct (first_free a b)
               end; inversion S; subst; reflexivity.
    + inversion E; subst. repeat split; auto.
  - inversion E; subst. repeat split; auto.
  - inversion E; subst. repeat split; auto.
  - inversion E; subst. repeat split; auto.
  - inversion E; subst. repeat split; auto.
  - destruct (fileno_of sh k); inversion E; subst; repeat split; auto.
  - destruct (fileno_of sh k); inversion E; subst; repeat split; auto.
  - destruct (fileno_of sh k); inversion E; subst; repeat split; auto.
  - destruct (astep sh g p) as [[sh1 r] evs1]. destruct r; inversion E; subst; unfold noU; cbn [cm tpc scr]; repeat split; auto.
    apply newcm_nou.
  - destruct (astep sh g p) as [[sh1 r] evs1]. destruct r; inversion E; subst; unfold noU; cbn [cm tpc scr]; repeat split; auto.
    destruct m0; reflexivity.
Qed.

(* one step of one process preserves the lock invariant of every anchor *)
Lemma tstep_linv : forall sh l1 th l2 sh' th' evs,
  nou_pc (tpc th) = true ->
  LInv (mkS sh (l1 ++ th :: l2)) ->
  tstep sh th = (sh', th', evs) ->
  LInv (mkS sh' (l1 ++ th' :: l2)) /\ tpc th' <> CrashedL \/ tpc th = CrashedL.
Proof.
  intros sh l1 th l2 sh' th' evs NU HL E.
  destruct th as [m p c s]. unfold tstep in E. cbn [cm tpc cur scr] in E. cbn [tpc] in NU.
  destruct p as [ | | |f0 m0|g0 m0|k|k|k|g p|g p|u q]; try discriminate NU.
  - (* Rdy *)
    left. destruct (fetchk m s) as [[o r]|] eqn:F.
    + destruct (start_op sh m o) as [[sh1 p1] evs1] eqn:S. inversion E; subst; clear E.
      destruct (fetchk_legal _ _ _ _ F) as [Lg _].
      split.
      * eapply linv_replace; [exact HL|]. intros f a' Ha'.
        destruct (start_op_weights _ _ _ _ _ _ r (match p1 with Rdy => None | _ => Some o end) f Lg S) as (A & W1 & C1 & W2 & C2).
        rewrite A in Ha'. exists a'. split; [assumption|]. intros L1 L2 H.
        eapply inv_swap2; [ | | | | exact H]; cbn [pri tra tpc cm]; first [symmetry; assumption | reflexivity].
      * cbn [tpc]. destruct m; destruct o; cbn [start_op] in S;
          repeat match type of S with
                 | context [if ?x then _ else _] => destruct x
                 | context [match first_free ?a ?b with _ => _ end] => destruct (first_free a b)
                 end; inversion S; subst; discriminate.
    + inversion E; subst; clear E. split; [|discriminate].
      eapply linv_replace; [exact HL|]. intros f a' Ha'. exists a'. split; [assumption|].
      intros L1 L2 H. exact H.
  - left. inversion E; subst; clear E. split; [exact HL | discriminate].
  - right. reflexivity.
  - left. inversion E; subst; clear E. split; [exact HL | discriminate].
  - left. inversion E; subst; clear E. split; [exact HL | discriminate].
  - (* KeyW *)
    left. destruct (fileno_of sh k) as [idx|]; inversion E; subst; clear E; (split; [|discriminate]);
      (eapply linv_replace; [exact HL|]); intros f a' Ha'; exists a'; (split; [assumption|]); intros L1 L2 H;
      (eapply inv_swap2; [ | | | | exact H]); cbn [pri tra tpc cm alock entry];
      repeat match goal with |- context [(?a =? ?b)%N] => destruct (N.eqb_spec a b) end; reflexivity.
  - (* KeyR *)
    left. destruct (fileno_of sh k) as [idx|]; inversion E; subst; clear E; (split; [|discriminate]);
      (eapply linv_replace; [exact HL|]); intros f a' Ha'; exists a'; (split; [assumption|]); intros L1 L2 H;
      (eapply inv_swap2; [ | | | | exact H]); cbn [pri tra tpc cm alock entry];
      repeat match goal with |- context [(?a =? ?b)%N] => destruct (N.eqb_spec a b) end; reflexivity.
  - (* KeyF *)
    left. destruct (fileno_of sh k) as [idx|]; inversion E; subst; clear E; (split; [|discriminate]);
      (eapply linv_replace; [exact HL|]); intros f a' Ha'; exists a'; (split; [assumption|]); intros L1 L2 H;
      (eapply inv_swap2; [ | | | | exact H]); cbn [pri tra tpc cm alock entry];
      repeat match goal with |- context [(?a =? ?b)%N] => destruct (N.eqb_spec a b) end; reflexivity.
  - (* Prim g p *)
    left.
    destruct (astep sh g p) as [[sh1 r] evs1] eqn:EA.
    destruct (nthN g (anchors sh)) as [a0|] eqn:Ha0.
    + destruct (astep_anchors _ _ _ _ _ _ _ Ha0 EA) as (a1 & sh2 & EA2 & An & _).
      pose proof (HL g a0 Ha0) as HIg. cbn [msh mths] in HIg.
      rewrite proj_app, proj_cons in HIg. cbn [pri tpc] in HIg. rewrite N.eqb_refl in HIg.
      destruct (astepA_inv _ _ _ _ _ _ _ _ _ _ HIg EA2) as [_ RI].
      assert (K : forall th',
        (forall f, f <> g -> wt (pri f th') = wt (Ready MIdle) /\ cr (pri f th') = 0) ->
        (forall f, tra f th' = Ready MIdle) ->
        (forall L1 L2, res_inv (lk a1) L1 L2 r -> Inv (mkState (lk a1) (L1 ++ (pri g th', []) :: L2))) ->
        LInv (mkS sh1 (l1 ++ th' :: l2))).
      { intros th1 P1 T1 P2. eapply linv_replace; [exact HL|]. intros f a' Ha'. rewrite An in Ha'.
        destruct (N.eq_dec f g) as [->|D].
        - rewrite (nthN_updN_same _ _ _ _ _ Ha0) in Ha'. inversion Ha'; subst a'.
          exists a0. split; [assumption|]. intros L1 L2 H. cbn [pri tra tpc] in H. rewrite N.eqb_refl in H.
          rewrite T1.
          destruct (astepA_inv _ _ _ _ _ _ _ _ _ _ H EA2) as [_ RI2]. apply P2. exact RI2.
        - rewrite nthN_updN_other in Ha' by congruence. exists a'. split; [assumption|]. intros L1 L2 H.
          cbn [pri tra tpc] in H. destruct (N.eqb_spec g f); [congruence|].
          destruct (P1 f D) as [W C]. rewrite T1.
          eapply inv_swap; [ | | exact H]; [symmetry; exact W | symmetry; exact C]. }
      destruct r as [p'|lm o| |lm]; inversion E; subst; clear E.
      * split; [|discriminate]. apply K.
        -- intros f D. cbn [pri tpc]. destruct (N.eqb_spec g f); [congruence|]. split; reflexivity.
        -- intros f. reflexivity.
        -- intros L1 L2 R. cbn [pri tpc]. rewrite N.eqb_refl. exact R.
      * split; [|discriminate]. apply K.
        -- intros f D. cbn [pri tpc cm]. rewrite cm_lmode_newcm_other by congruence. split; reflexivity.
        -- intros f. reflexivity.
        -- intros L1 L2 R. cbn [pri tpc cm]. rewrite cm_lmode_newcm_same. exact R.
      * exfalso. exact RI.
      * split; [|discriminate]. apply K.
        -- intros f D. cbn [pri tpc]. destruct (N.eqb_spec g f); [congruence|]. split; reflexivity.
        -- intros f. reflexivity.
        -- intros L1 L2 R. cbn [pri tpc]. rewrite N.eqb_refl. exact R.
    + (* invalid anchor: assert(validEntry()) *)
      unfold astep in EA. rewrite Ha0 in EA. inversion EA; subst; clear EA. inversion E; subst; clear E.
      split; [|discriminate].
      eapply linv_replace; [exact HL|]. intros f a' Ha'. exists a'. split; [assumption|]. intros L1 L2 H.
      cbn [pri tra tpc] in *. destruct (N.eqb_spec g f); [subst; congruence|]. exact H.
  - (* Tran g p *)
    left.
    destruct (astep sh g p) as [[sh1 r] evs1] eqn:EA.
    destruct (nthN g (anchors sh)) as [a0|] eqn:Ha0.
    + destruct (astep_anchors _ _ _ _ _ _ _ Ha0 EA) as (a1 & sh2 & EA2 & An & _).
      pose proof (HL g a0 Ha0) as HIg. cbn [msh mths] in HIg.
      rewrite proj_app, proj_cons in HIg. cbn [tra tpc] in HIg. rewrite N.eqb_refl in HIg. rewrite mid2 in HIg.
      destruct (astepA_inv _ _ _ _ _ _ _ _ _ _ HIg EA2) as [_ RI].
      assert (K : forall th',
        (forall f, pri f th' = Ready (cm_lmode m f)) ->
        (forall f, f <> g -> tra f th' = Ready MIdle) ->
        (forall L1 L2, res_inv (lk a1) L1 L2 r -> Inv (mkState (lk a1) (L1 ++ (tra g th', []) :: L2))) ->
        LInv (mkS sh1 (l1 ++ th' :: l2))).
      { intros th1 P1 T1 P2. eapply linv_replace; [exact HL|]. intros f a' Ha'. rewrite An in Ha'.
        rewrite P1. cbn [pri tpc cm].
        destruct (N.eq_dec f g) as [->|D].
        - rewrite (nthN_updN_same _ _ _ _ _ Ha0) in Ha'. inversion Ha'; subst a'.
          exists a0. split; [assumption|]. intros L1 L2 H. cbn [tra tpc] in H. rewrite N.eqb_refl in H.
          rewrite mid2 in *.
          destruct (astepA_inv _ _ _ _ _ _ _ _ _ _ H EA2) as [_ RI2]. apply P2. exact RI2.
        - rewrite nthN_updN_other in Ha' by congruence. exists a'. split; [assumption|]. intros L1 L2 H.
          cbn [tra tpc] in H. destruct (N.eqb_spec g f); [congruence|].
          rewrite (T1 f D). exact H. }
      destruct r as [p'|lm o| |lm]; inversion E; subst; clear E.
      * split; [|discriminate]. apply K.
        -- intros f. reflexivity.
        -- intros f D. cbn [tra tpc]. destruct (N.eqb_spec g f); [congruence | reflexivity].
        -- intros L1 L2 R. cbn [tra tpc]. rewrite N.eqb_refl. exact R.
      * split; [|destruct lm; discriminate]. apply K.
        -- intros f. destruct lm; reflexivity.
        -- intros f D. destruct lm; cbn [tra tpc]; try reflexivity; destruct (N.eqb_spec g f); congruence.
        -- intros L1 L2 R. cbn [res_inv] in R.
           destruct lm; cbn [tra tpc]; rewrite ?N.eqb_refl; try exact R; (eapply inv_swap; [ | | exact R]; reflexivity).
      * exfalso. exact RI.
      * split; [|discriminate]. apply K.
        -- intros f. reflexivity.
        -- intros f D. cbn [tra tpc]. destruct (N.eqb_spec g f); [congruence | reflexivity].
        -- intros L1 L2 R. cbn [tra tpc]. rewrite N.eqb_refl. exact R.
    + unfold astep in EA. rewrite Ha0 in EA. inversion EA; subst; clear EA. inversion E; subst; clear E.
      split; [|discriminate].
      eapply linv_replace; [exact HL|]. intros f a' Ha'. exists a'. split; [assumption|]. intros L1 L2 H.
      cbn [pri tra tpc cm] in *. destruct (N.eqb_spec g f); [subst; congruence|]. exact H.
Qed.

(* ---------- lifting: steps, schedules, reachable states ---------- *)
Definition NoCrashL (st : mstate) : Prop := forall th, In th (mths st) -> tpc th <> CrashedL.
Definition NoUpd (st : mstate) : Prop := forall th, In th (mths st) -> noU th.
Definition LInvC (st : mstate) : Prop := LInv st /\ (NoCrashL st /\ NoUpd st).

Lemma sstep_linv : forall st t st' evs b, LInvC st -> sstep st t = (st', evs, b) -> LInvC st'.
Proof.
  intros [sh l] t st' evs b (HL & HN & HU) E. unfold sstep in E. cbn [msh mths] in E.
  destruct (nthN t l) as [th|] eqn:Nt; [|inversion E; subst; (split; [|split]); assumption].
  destruct (terminalk (tpc th)) eqn:T; [inversion E; subst; (split; [|split]); assumption|].
  destruct (tstep sh th) as [[sh1 th1] evs1] eqn:TS.
  inversion E; subst; clear E.
  destruct (nthN_split _ _ _ _ Nt) as (l1 & l2 & E1 & E2 & _). rewrite E2. subst l.
  assert (UT : noU th) by (apply HU; cbn [mths]; apply in_or_app; right; left; reflexivity).
  assert (PC : nou_pc (tpc th) = true) by (destruct UT as (_ & X & _); exact X).
  assert (REST : forall (P : mthread -> Prop), (forall x, In x (l1 ++ th :: l2) -> P x) -> P th1 -> forall x, In x (l1 ++ th1 :: l2) -> P x).
  { intros P HP H1 x I. apply in_app_or in I. destruct I as [I|[I|I]].
    - apply HP. apply in_or_app. left. exact I.
    - subst x. exact H1.
    - apply HP. apply in_or_app. right. right. exact I. }
  destruct (tstep_linv _ _ _ _ _ _ _ PC HL TS) as [[A B]|C].
  - split; [exact A|]. split.
    + intros x I. cbn [mths] in I. revert x I. apply REST; [exact HN | exact B].
    + intros x I. cbn [mths] in I. revert x I. apply (REST noU); [exact HU | eapply tstep_noU; eassumption].
  - exfalso. apply (HN th); [cbn [mths]; apply in_or_app; right; left; reflexivity | exact C].
Qed.

Lemma sexec_linv : forall sched st st' evs n, LInvC st -> sexec st sched = (st', evs, n) -> LInvC st'.
Proof.
  induction sched as [|t r IH]; intros st st' evs n HI E; simpl in E.
  - inversion E; subst; assumption.
  - destruct (sstep st t) as [[st1 e1] b] eqn:S1.
    destruct (sexec st1 r) as [[st2 e2] n2] eqn:S2.
    inversion E; subst; clear E.
    eapply IH; [|eassumption]. eapply sstep_linv; eassumption.
Qed.

Lemma nthN_repeatN : forall (A : Type) (x y : A) k f, nthN f (repeatN x k) = Some y -> y = x.
Proof.
  induction k as [|k IH]; intros f H; simpl in H; [discriminate|].
  destruct (f =? 0)%N; [inversion H; reflexivity | eapply IH; eassumption].
Qed.

Lemma sumf_proj_init : forall g f scripts,
  g (Ready MIdle) = 0 ->
  sumf g (proj f (map (fun s => mkT CIdle Rdy None s) scripts)) = 0.
Proof.
  intros g f scripts H. induction scripts as [|s l IH]; [reflexivity|].
  cbn [map]. rewrite proj_cons. rewrite !sumf_cons. cbn [pri tra tpc cm cm_lmode]. rewrite H, IH. reflexivity.
Qed.

Definition noupd (scripts : list (list kop)) : bool := forallb (forallb nou_op) scripts.

Lemma sinit_linv : forall n scripts, noupd scripts = true -> LInvC (sinit n scripts).
Proof.
  intros n scripts NU. split; [|split].
  - intros f a Ha. cbn [sinit msh mths mshared0 anchors] in *.
    apply nthN_repeatN in Ha. subst a. cbn [lk anchor0].
    constructor; cbn [sh ths idle_shared readers writing appending updating readLevel writeLevel];
      unfold Srl, Srd, Swl, Sfw, Swr, Sap, Sup, Sxc, Src, Scr; rewrite ?sumf_proj_init; try reflexivity; try lia.
  - intros th I. cbn [sinit mths] in I. apply in_map_iff in I. destruct I as (s & E & _). subst th. discriminate.
  - intros th I. cbn [sinit mths] in I. apply in_map_iff in I. destruct I as (s & E & Is). subst th.
    unfold noU. cbn [cm tpc scr]. repeat split. unfold noupd in NU. rewrite forallb_forall in NU. apply NU. exact Is.
Qed.

Theorem sreach_linv : forall n scripts sched, noupd scripts = true -> LInvC (sreach n scripts sched).
Proof.
  intros n scripts sched NU. unfold sreach. destruct (sexec (sinit n scripts) sched) as [[st e] k] eqn:E. simpl.
  eapply sexec_linv; [apply sinit_linv; exact NU | eassumption].
Qed.

(* ---------- positions in the list of virtual lock processes ---------- *)
Lemma nthN_proj : forall f ths t th, nthN t ths = Some th ->
  nthN (2 * t) (proj f ths) = Some (pri f th, []) /\ nthN (2 * t + 1) (proj f ths) = Some (tra f th, []).
Proof.
  intros f ths. induction ths as [|x l IH]; intros t th H; simpl in H; [discriminate|].
  rewrite proj_cons.
  destruct (N.eqb_spec t 0%N) as [E|E].
  - subst. inversion H; subst. split; reflexivity.
  - destruct (IH _ _ H) as [I1 I2].
    split.
    + replace (2 * t)%N with (N.succ (N.succ (2 * N.pred t))) by lia.
      cbn [nthN]. destruct (N.eqb_spec (N.succ (N.succ (2 * N.pred t))) 0%N); [lia|]. rewrite N.pred_succ.
      destruct (N.eqb_spec (N.succ (2 * N.pred t)) 0%N); [lia|]. rewrite N.pred_succ. exact I1.
    + replace (2 * t + 1)%N with (N.succ (N.succ (2 * N.pred t + 1))) by lia.
      cbn [nthN]. destruct (N.eqb_spec (N.succ (N.succ (2 * N.pred t + 1))) 0%N); [lia|]. rewrite N.pred_succ.
      destruct (N.eqb_spec (N.succ (2 * N.pred t + 1)) 0%N); [lia|]. rewrite N.pred_succ. exact I2.
Qed.

(* ---------- consequences of the lock invariant ---------- *)
(* what process th holds of anchor f's lock through the entry it opened (None: it is inside a lock method) *)
Definition holdsP (f : N) (th : mthread) : option mode := holds (pri f th).
Definition holdsT (f : N) (th : mthread) : option mode := holds (tra f th).

Section LockConsequences.
  Variable st : mstate.
  Hypothesis HI : LInvC st.

  Theorem holders_compat_PP : forall f a i j thi thj x y,
    nthN f (anchors (msh st)) = Some a ->
    i <> j -> nthN i (mths st) = Some thi -> nthN j (mths st) = Some thj ->
    holdsP f thi = Some x -> holdsP f thj = Some y -> compat x y = true.
  Proof.
    intros f a i j thi thj x y Ha D Ni Nj Hx Hy.
    destruct HI as [HL _]. specialize (HL f a Ha).
    destruct (nthN_proj f _ _ _ Ni) as [Pi _]. destruct (nthN_proj f _ _ _ Nj) as [Pj _].
    eapply (holders_compatible _ HL (2 * i)%N (2 * j)%N); cbn [ths]; try eassumption. lia.
  Qed.

  Theorem holders_compat_PT : forall f a i j thi thj x y,
    nthN f (anchors (msh st)) = Some a ->
    nthN i (mths st) = Some thi -> nthN j (mths st) = Some thj ->
    holdsP f thi = Some x -> holdsT f thj = Some y -> compat x y = true.
  Proof.
    intros f a i j thi thj x y Ha Ni Nj Hx Hy.
    destruct HI as [HL _]. specialize (HL f a Ha).
    destruct (nthN_proj f _ _ _ Ni) as [Pi _]. destruct (nthN_proj f _ _ _ Nj) as [_ Pj].
    eapply (holders_compatible _ HL (2 * i)%N (2 * j + 1)%N); cbn [ths]; try eassumption. lia.
  Qed.

  Theorem no_lock_assert_fails : forall i th, nthN i (mths st) = Some th -> tpc th <> CrashedL.
  Proof.
    intros i th Ni. destruct HI as [_ [HN _]]. apply HN.
    destruct (nthN_split _ _ _ _ Ni) as (l1 & l2 & E & _ & _). rewrite E. apply in_or_app. right. left. reflexivity.
  Qed.
End LockConsequences.

(* the two lock shares of one process are compatible as well *)
Theorem holders_compat_same : forall st, LInvC st -> forall f a i th x y,
  nthN f (anchors (msh st)) = Some a -> nthN i (mths st) = Some th ->
  holdsP f th = Some x -> holdsT f th = Some y -> compat x y = true.
Proof. intros st HI f a i th x y Ha Ni Hx Hy. eapply holders_compat_PT; eassumption. Qed.
