(* Extract_pipetunnel.v — extraction of the pipeline (C05) and tunnel (C06) models (ExtrOcamlBasic only). *)
Require Import ExtrOcamlBasic.
Require Import SquidV.Bytes SquidV.PipetunnelModel.
Extraction "m_pipetunnel.ml" conn0 prun drain mk_resp rle pipe_ids resp_bytes reqs_of
  tun_start trun tsettle gs other is_err.
