// Table generator for C20 (purge area): what AnyP::Uri::absolute()/Encode() depend on, as src/anyp/Uri.cc defines
// it *now*. Uri.cc is included into this unit so that its file-static PathChars() is reachable.
#include "squid.h"
#include <iostream>
#include <string>
#include <cstring>
#include "anyp/Uri.cc"
#include "mem/forward.h"

int main() {
    Mem::Init();
    AnyP::UriScheme::Init();
    std::cout << "@@FILE PurgeUri_gen.v\n(* generated from /repo by gen/gen_purgeuri.cc -- do not edit *)\n"
              "Require Import SquidV.Bytes.\nLocal Open Scope N_scope.\n";
    std::cout << "Definition pg_PathChars_tbl : list bool := [";
    for (int c = 0; c < 256; ++c) std::cout << (c ? ";" : "") << (PathChars()[static_cast<unsigned char>(c)] ? "true" : "false");
    std::cout << "].\nDefinition pg_PathChars : cset := mem_tbl pg_PathChars_tbl.\n";
    // the bytes Uri::absolutePath() leaves verbatim (its character set is a function-local static: probed through
    // the public API, one byte at a time, on an http Uri)
    std::cout << "Definition pg_AbsPathChars_tbl : list bool := [";
    for (int c = 0; c < 256; ++c) {
        const char ch = static_cast<char>(c);
        AnyP::Uri u;
        u.setScheme(AnyP::PROTO_HTTP, "http");
        u.path(SBuf(&ch, 1));
        const auto ap = u.absolutePath();
        std::cout << (c ? ";" : "") << ((ap.length() == 1 && ap[0] == ch) ? "true" : "false");
    }
    std::cout << "].\nDefinition pg_AbsPathChars : cset := mem_tbl pg_AbsPathChars_tbl.\n";
    // the three bytes Encode() emits for every byte value (appendf \"%%%02X\")
    std::cout << "Definition pg_encoded_tbl : list (list N) := [";
    for (int c = 0; c < 256; ++c) {
        const char ch = static_cast<char>(c);
        const auto e = AnyP::Uri::Encode(SBuf(&ch, 1), CharacterSet("none", ""));
        std::cout << (c ? ";" : "") << "[";
        for (SBuf::size_type i = 0; i < e.length(); ++i) std::cout << (i ? ";" : "") << static_cast<unsigned>(static_cast<unsigned char>(e[i]));
        std::cout << "]";
    }
    std::cout << "].\n";
    const auto slash = AnyP::Uri::SlashPath();
    std::cout << "Definition pg_SlashPath : bytes := [";
    for (SBuf::size_type i = 0; i < slash.length(); ++i) std::cout << (i ? ";" : "") << static_cast<unsigned>(static_cast<unsigned char>(slash[i]));
    std::cout << "].\n";
    return 0;
}
