(* Properties_C40.v — C40: FTP address replies and listings are parsed safely and strictly.
   Statements only; proofs live in FtpProofs.v. `ipf` is the external numeric-host lookup
   (getaddrinfo with AI_NUMERICHOST behind Ip::Address::operator=(const char * )): every statement holds for every ipf. *)
Require Import SquidV.Bytes SquidV.TokModel SquidV.FtpModel SquidV.FtpProofs.
Require Import SquidV.gen.Ftp_gen SquidV.gen.FtpSrc_gen.
Local Open Scope N_scope.

(* --- what "%d" and strtol(,,10) convert: blanks, an optional sign, a non-empty digit string; the value handed
       to the checks below is the mathematical value of the digits, whatever their number --- *)
Theorem C40_number_syntax : forall s v r,
  scan_int s = Some (v, r) ->
  exists ws sg ds,
    s = ws ++ sg ++ ds ++ r /\ forallb is_c_space ws = true /\
    (sg = [] \/ sg = [45] \/ sg = [43]) /\ ds <> [] /\ forallb is_digit ds = true /\
    v = (if list_eqb sg [45] then (- dec_value ds)%Z else dec_value ds) /\
    match r with c :: _ => is_digit c = false | [] => True end.
Proof. exact scan_int_shape. Qed.
Print Assumptions C40_number_syntax.

(* --- PORT / PASV: Ftp::ParseIpPort without forceIp --- *)
(* accepted => six numbers were converted, the values the code keeps (after %d's conversion to int) are octets,
   the port is p1*256+p2 in 1..65535 (>= 1024 under ftp_sanitycheck), the address is exactly h1.h2.h3.h4, not 0.0.0.0 *)
Theorem C40_port_accepted_stored_components_in_range : forall ipf sanity buf a port,
  parse_ip_port ipf sanity None buf = Some (a, port) ->
  exists v1 v2 v3 v4 v5 v6,
    scan_commas 6 buf = [v1; v2; v3; v4; v5; v6] /\
    zoctet (to_int v1) /\ zoctet (to_int v2) /\ zoctet (to_int v3) /\ zoctet (to_int v4) /\
    zoctet (to_int v5) /\ zoctet (to_int v6) /\
    port = (to_int v5 * 256 + to_int v6)%Z /\ (1 <= port <= 65535)%Z /\ (sanity = true -> 1024 <= port)%Z /\
    a = v4mapped (to_int v1) (to_int v2) (to_int v3) (to_int v4) /\
    ~ (to_int v1 = 0 /\ to_int v2 = 0 /\ to_int v3 = 0 /\ to_int v4 = 0)%Z.
Proof. exact parse_ip_port_sound. Qed.
Print Assumptions C40_port_accepted_stored_components_in_range.

(* the property at full strength (the numbers WRITTEN in the string are in range) under the restriction that
   every written number fits an int. Missing: numbers beyond the int range, see the two refutations. *)
Theorem C40_port_components_in_range_partial : forall ipf sanity buf a port,
  parse_ip_port ipf sanity None buf = Some (a, port) ->
  Forall (fun v => - two31 <= v < two31)%Z (scan_commas 6 buf) ->
  exists v1 v2 v3 v4 v5 v6,
    scan_commas 6 buf = [v1; v2; v3; v4; v5; v6] /\
    zoctet v1 /\ zoctet v2 /\ zoctet v3 /\ zoctet v4 /\ zoctet v5 /\ zoctet v6 /\
    port = (v5 * 256 + v6)%Z /\ (1 <= port <= 65535)%Z /\ (sanity = true -> 1024 <= port)%Z /\
    a = v4mapped v1 v2 v3 v4 /\ ~ (v1 = 0 /\ v2 = 0 /\ v3 = 0 /\ v4 = 0)%Z.
Proof. exact parse_ip_port_components_partial. Qed.
Print Assumptions C40_port_components_in_range_partial.

(* full statement refuted: "1,2,3,4,4294967300,0" is accepted under ftp_sanitycheck as port 1024 *)
Theorem C40_port_components_in_range_refuted :
  exists buf a port vs,
    parse_ip_port (fun _ => None) true None buf = Some (a, port) /\ scan_commas 6 buf = vs /\
    ~ Forall zoctet vs.
Proof. exact parse_ip_port_components_refuted. Qed.
Print Assumptions C40_port_components_in_range_refuted.

(* and "4294967297,2,3,4,5,6" is accepted as 1.2.3.4 *)
Theorem C40_port_host_component_in_range_refuted :
  exists buf a port vs,
    parse_ip_port (fun _ => None) false None buf = Some (a, port) /\ scan_commas 6 buf = vs /\
    ~ Forall zoctet vs.
Proof. exact parse_ip_port_host_refuted. Qed.
Print Assumptions C40_port_host_component_in_range_refuted.

(* --- PASV with forceIp (ftp_sanitycheck on: the control connection's peer address is used) --- *)
Theorem C40_pasv_forced_port_in_range : forall ipf sanity t buf a port,
  parse_ip_port ipf sanity (Some t) buf = Some (a, port) ->
  exists v1 v2 v3 v4 v5 v6,
    scan_commas 6 buf = [v1; v2; v3; v4; v5; v6] /\
    zoctet (to_int v5) /\ zoctet (to_int v6) /\
    port = (to_int v5 * 256 + to_int v6)%Z /\ (1 <= port <= 65535)%Z /\ (sanity = true -> 1024 <= port)%Z /\
    a = assign ipf t.
Proof. exact parse_ip_port_forced_sound. Qed.
Print Assumptions C40_pasv_forced_port_in_range.

(* "every component in range" is false with forceIp: "999,2,3,4,5,6" is accepted, whatever the lookup answers *)
Theorem C40_pasv_forced_host_refuted : forall ipf t,
  exists a port vs,
    parse_ip_port ipf true (Some t) w_forced = Some (a, port) /\ scan_commas 6 w_forced = vs /\
    ~ Forall zoctet vs.
Proof. exact parse_ip_port_forced_refuted. Qed.
Print Assumptions C40_pasv_forced_host_refuted.

(* --- EPRT: Ftp::ParseProtoIpPort --- *)
(* accepted => the string is <d> net-prt <d> text <d> port '|'...; net-prt as an int is 1 or 2 and agrees with the
   family of the address; the address is the lookup of exactly the delimited text (shorter than MAX_IPSTRLEN), not a
   wildcard; the MATHEMATICAL value of the port digits is in 1..65535 (>= 1024 under ftp_sanitycheck) and is the
   port returned: no truncation into the valid range (the repaired F7) *)
Theorem C40_eprt_accepted_in_range : forall ipf sanity buf a port,
  parse_proto_ip_port ipf sanity buf = EOk a port ->
  exists d s pv s2 ip s3 e3,
    buf = d :: s /\
    scan_int s = Some (pv, d :: s2) /\ (to_int pv = 1 \/ to_int pv = 2)%Z /\
    s2 = ip ++ d :: s3 /\ forallb (fun c => negb (c =? d)) ip = true /\ lenN ip < max_ipstrlen /\
    ipf ip = Some a /\ is_any a = false /\ ((to_int pv = 2)%Z <-> is_v4 a = false) /\
    scan_int s3 = Some (port, e3) /\ head0 e3 = 124 /\
    (1 <= port <= 65535)%Z /\ (sanity = true -> 1024 <= port)%Z.
Proof. exact parse_proto_sound. Qed.
Print Assumptions C40_eprt_accepted_in_range.

(* the written protocol number itself is 1 or 2 when it fits an int. Missing: larger numbers, refuted below *)
Theorem C40_eprt_protocol_in_range_partial : forall ipf sanity d s a port pv r,
  parse_proto_ip_port ipf sanity (d :: s) = EOk a port ->
  scan_int s = Some (pv, r) -> (- two31 <= pv < two31)%Z ->
  (pv = 1 \/ pv = 2)%Z /\ ((pv = 2)%Z <-> is_v4 a = false).
Proof. exact parse_proto_protocol_partial. Qed.
Print Assumptions C40_eprt_protocol_in_range_partial.

(* "|4294967297|1.2.3.4|8080|" is accepted as protocol 1 *)
Theorem C40_eprt_protocol_in_range_refuted :
  exists ipf buf a port pv r,
    parse_proto_ip_port ipf true buf = EOk a port /\ scan_int (dropN 1 buf) = Some (pv, r) /\
    ~ (pv = 1 \/ pv = 2)%Z.
Proof. exact parse_proto_protocol_refuted. Qed.
Print Assumptions C40_eprt_protocol_in_range_refuted.

(* the parser's only precondition is a non-empty string (it reads buf[1] unconditionally) *)
Theorem C40_eprt_total_on_nonempty : forall ipf sanity buf,
  buf <> [] -> parse_proto_ip_port ipf sanity buf <> EPrecondition.
Proof. exact parse_proto_nonempty. Qed.
Print Assumptions C40_eprt_total_on_nonempty.

(* ... which the callers in src/servers/FtpServer.cc establish (re-read from the program text on every run), as they
   establish the fresh Ip::Address and the 501 answer on refusal; tbuf[] is only written by size-bounded snprintf;
   the token loop guard does not exceed the declared array size *)
Theorem C40_server_handlers_guarded :
  port_handler_guarded = true /\ eprt_handler_guarded = true /\
  tbuf_writes_are_sized_snprintf = true /\ 0 < tbuf_size /\ max_tokens <= tokens_capacity.
Proof. exact handlers_guarded. Qed.
Print Assumptions C40_server_handlers_guarded.

(* --- Ftp::UnescapeDoubleQuoted inverts FTP path quoting --- *)
Theorem C40_unescape_roundtrip : forall s rest,
  match rest with c :: _ => (c =? 34) = false | [] => True end ->
  unescape_dq (34 :: dq_escape s ++ 34 :: rest) = s.
Proof. exact unescape_roundtrip. Qed.
Print Assumptions C40_unescape_roundtrip.

(* --- listing lines: ftpListParseParts --- *)
(* every token is a non-empty blank-free piece of the line lying at its recorded offset between blanks / line ends *)
Theorem C40_listing_tokens_located : forall buf t,
  In t (all_tokens buf) ->
  t_tok t <> [] /\ forallb nonwsp (t_tok t) = true /\
  exists pre post, buf = pre ++ t_tok t ++ post /\ lenN pre = t_pos t /\ ends_blank pre /\ starts_blank post.
Proof. exact all_tokens_ok. Qed.
Print Assumptions C40_listing_tokens_located.

(* the store loop keeps exactly the first MAX_TOKENS tokens and never stores past tokens[] *)
Theorem C40_listing_token_limit : forall buf,
  store_loop max_tokens tokens_capacity (all_tokens buf) [] = Val (takeN max_tokens (all_tokens buf)).
Proof. exact stored_tokens. Qed.
Print Assumptions C40_listing_token_limit.

(* for every line and both flags: no read outside the line and its terminator, no tokens[] access outside
   [0, n_tokens), no write past tbuf[] *)
Theorem C40_listing_in_bounds : forall nlst skipws buf, list_parse nlst skipws buf <> OOB.
Proof. exact list_parse_in_bounds. Qed.
Print Assumptions C40_listing_in_bounds.

(* Unix format: the name, and for links " -> " and the target, are the tail of the line (nothing is invented) *)
Theorem C40_listing_unix_name_is_line_tail : forall skipws buf arr i p,
  unix_body skipws buf arr i = Val (Found p) ->
  exists pre, buf = pre ++ p_name p ++ match p_link p with Some l => arrow ++ l | None => [] end.
Proof. exact unix_name_is_line_tail. Qed.
Print Assumptions C40_listing_unix_name_is_line_tail.

(* --- hypotheses are satisfiable / the functions do accept --- *)
(* "1,2,3,4,5,6" *)
Example C40_ex_port : parse_ip_port (fun _ => None) true None [49;44;50;44;51;44;52;44;53;44;54]
                      = Some (v4mapped 1 2 3 4, 1286%Z).
Proof. vm_compute. reflexivity. Qed.
(* "|1|1.2.3.4|8080|" *)
Example C40_ex_eprt : parse_proto_ip_port w_ipf true ([124;49;124] ++ w_ip1234 ++ [124;56;48;56;48;124])
                      = EOk (v4mapped 1 2 3 4) 8080%Z.
Proof. vm_compute. reflexivity. Qed.
(* "|1|1.2.3.4|65616|" (the old F7 reproducer) is refused *)
Example C40_ex_eprt_f7 : parse_proto_ip_port w_ipf false ([124;49;124] ++ w_ip1234 ++ [124;54;53;54;49;54;124]) = EFail.
Proof. vm_compute. reflexivity. Qed.
(* "-rw 1 a b 5 Jan  1  2000 x" *)
Example C40_ex_list :
  list_parse false false [45;114;119;32;49;32;97;32;98;32;53;32;74;97;110;32;32;49;32;32;50;48;48;48;32;120]
  = Val (LParts {| p_type := 45; p_size := 5%Z; p_date := Some [74;97;110;32;32;49;32;32;50;48;48;48];
                   p_name := [120]; p_link := None |}).
Proof. vm_compute. reflexivity. Qed.
Example C40_ex_unq : unescape_dq [34;97;34;34;98;34;32;120] = [97;34;98].
Proof. vm_compute. reflexivity. Qed.
(* the checked primitives do report accesses outside their objects: a guard above the capacity, an offset past the
   terminator, an index at n_tokens, an snprintf size above the array *)
Example C40_ex_oob_store : store_loop 3 2 [{| t_tok := [97]; t_pos := 0 |}; {| t_tok := [98]; t_pos := 2 |}; {| t_tok := [99]; t_pos := 4 |}] [] = OOB.
Proof. vm_compute. reflexivity. Qed.
Example C40_ex_oob_read : cstr_at [97; 98] 3 = OOB /\ cstr_at [97; 98] 2 = Val [].
Proof. vm_compute. split; reflexivity. Qed.
Example C40_ex_oob_index : tok_get [{| t_tok := [97]; t_pos := 0 |}] 1%Z = OOB /\ tok_get [{| t_tok := [97]; t_pos := 0 |}] (-1)%Z = OOB.
Proof. vm_compute. split; reflexivity. Qed.
Example C40_ex_oob_snprintf : snprintf_chk 128 129 [97] = OOB.
Proof. vm_compute. reflexivity. Qed.
