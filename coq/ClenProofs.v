(* ClenProofs.v — specification and proofs for ClenModel.v (C26). *)
Require Import SquidV.Bytes SquidV.ClenModel.
Require Import SquidV.gen.CharSets_gen.
Require Import ZifyBool ZifyN ZifyNat.
Local Open Scope N_scope.

(* ================= Specification vocabulary (independent of the model) ================= *)

(* dec_val (ClenModel): value of a string of decimal digits, fold_left (a*10 + (c-48)) *)

(* optional white space before / after the number: RFC 9110 OWS = SP / HTAB, in both parser modes
   (the mode argument is kept for the callers; it is not used) *)
Definition ows_before (relaxed : bool) (c : N) : bool := (c =? 32) || (c =? 9).
Definition ows_after (relaxed : bool) (c : N) : bool := (c =? 32) || (c =? 9).

(* "item is OWS 1*DIGIT OWS and its number is v, which fits a signed 64-bit integer" *)
Definition is_token (relaxed : bool) (item : bytes) (v : Z) : Prop :=
  exists w ds t, item = w ++ ds ++ t /\
    forallb (ows_before relaxed) w = true /\ ds <> [] /\ forallb c_isdigit ds = true /\
    forallb (ows_after relaxed) t = true /\ dec_val ds = v /\ (v < two63)%Z.

(* reading a field value as RFC 9110 lists do: split at commas, trim white space, ignore empty elements;
   a value without a comma is one occurrence *)
Fixpoint split_on (d : N) (l : bytes) : list bytes :=
  match l with
  | [] => [[]]
  | c :: r => if c =? d then [] :: split_on d r
              else match split_on d r with p :: ps => (c :: p) :: ps | [] => [[c]] end
  end.
Definition blank (p : bytes) : bool := forallb c_isspace p.
Definition trim (p : bytes) : bytes := rtrim (ltrim p).
Definition occurrences (f : bytes) : list bytes :=
  if existsb (N.eqb 44) f then map trim (filter (fun p => negb (blank p)) (split_on 44 f)) else [f].

(* the interpreter "uses v": sawGood && !sawBad && value = v *)
Definition uses (st : clst) (v : Z) : Prop :=
  cl_sawBad st = false /\ cl_sawGood st = true /\ cl_value st = v.

(* ================= character tables ================= *)
Lemma tbl_get_oob {A} (d : A) t c : lenN t <= c -> tbl_get d t c = d.
Proof.
  revert c; induction t as [|x t IH]; intros c H; cbn [tbl_get]; [reflexivity|].
  cbn [lenN] in H. destruct (c =? 0) eqn:E; [lia|]. apply IH. lia.
Qed.

Definition tables_check (c : N) : bool :=
  Bool.eqb (cs_DIGIT c) (c_isdigit c) && Bool.eqb (cs_WSP c) ((c =? 32) || (c =? 9)).

Lemma tables_ok c : tables_check c = true.
Proof.
  destruct (N.ltb_spec c 256) as [H|H].
  - exact (forallb_bytes tables_check ltac:(vm_compute; reflexivity) c H).
  - unfold tables_check, cs_DIGIT, cs_WSP, mem_tbl.
    rewrite !tbl_get_oob by (vm_compute lenN; exact H).
    unfold c_isdigit.
    repeat match goal with |- context [?a =? ?b] => let E := fresh in destruct (a =? b) eqn:E; [lia|] end.
    destruct (48 <=? c) eqn:E1, (c <=? 57) eqn:E2; try reflexivity; lia.
Qed.

Lemma digit_tbl c : cs_DIGIT c = c_isdigit c.
Proof.
  pose proof (tables_ok c) as H. unfold tables_check in H.
  apply andb_prop in H as [H _]. now apply Bool.eqb_prop.
Qed.
Lemma wsp_tbl c : cs_WSP c = ((c =? 32) || (c =? 9)).
Proof.
  pose proof (tables_ok c) as H. unfold tables_check in H.
  apply andb_prop in H as [_ H]. now apply Bool.eqb_prop.
Qed.
Lemma ws_tbl relaxed c : cl_ws relaxed c = ows_before relaxed c.
Proof. exact (wsp_tbl c). Qed.
Lemma delim_tbl relaxed c : cl_delim relaxed c = ows_after relaxed c.
Proof. exact (wsp_tbl c). Qed.

Lemma ws_not_digit relaxed c : ows_before relaxed c = true -> c_isdigit c = false.
Proof. unfold ows_before, c_isdigit; lia. Qed.
Lemma delim_not_digit relaxed c : ows_after relaxed c = true -> c_isdigit c = false.
Proof. unfold ows_after, c_isdigit; lia. Qed.

(* ================= list helpers ================= *)
Lemma dropN_app_len {A} (a b : list A) : dropN (lenN a) (a ++ b) = b.
Proof.
  induction a as [|x a IH]; cbn [lenN app dropN].
  - destruct b; cbn [dropN]; reflexivity.
  - destruct (N.succ (lenN a) =? 0) eqn:E; [lia|]. rewrite N.pred_succ. exact IH.
Qed.

Lemma span_app_stop {A} (p : A -> bool) a b :
  forallb p a = true -> match b with [] => True | y :: _ => p y = false end ->
  span p (a ++ b) = (a, b).
Proof.
  intros Ha Hb. induction a as [|x a IH]; cbn [app span].
  - destruct b as [|y b]; cbn [span]; [reflexivity| now rewrite Hb].
  - cbn [forallb] in Ha. apply andb_prop in Ha as [Hx Ha]. rewrite Hx, (IH Ha). reflexivity.
Qed.

Lemma forallb_app' {A} (p : A -> bool) a b : forallb p (a ++ b) = forallb p a && forallb p b.
Proof. induction a as [|x a IH]; cbn [app forallb]; [reflexivity| now rewrite IH, andb_assoc]. Qed.

(* ================= findDigits ================= *)
Lemma find_digits_sound relaxed l d :
  find_digits (cl_ws relaxed) l = Some d ->
  exists w c r, l = w ++ d /\ d = c :: r /\ c_isdigit c = true /\ forallb (ows_before relaxed) w = true.
Proof.
  induction l as [|c l IH]; cbn [find_digits]; [discriminate|].
  rewrite digit_tbl, ws_tbl. destruct (c_isdigit c) eqn:Ed.
  - intros [= <-]. exists [], c, l. repeat split; assumption.
  - destruct (ows_before relaxed c) eqn:Ew; [|discriminate]. intros H.
    destruct (IH H) as (w & c' & r & -> & -> & Hc & Hw).
    exists (c :: w), c', r. cbn [app forallb]. rewrite Ew, Hw. repeat split; assumption.
Qed.

Lemma find_digits_complete relaxed w c r :
  forallb (ows_before relaxed) w = true -> c_isdigit c = true ->
  find_digits (cl_ws relaxed) (w ++ c :: r) = Some (c :: r).
Proof.
  intros Hw Hc. induction w as [|x w IH]; cbn [app find_digits].
  - now rewrite digit_tbl, Hc.
  - cbn [forallb] in Hw. apply andb_prop in Hw as [Hx Hw].
    rewrite digit_tbl, ws_tbl, (ws_not_digit _ _ Hx), Hx. exact (IH Hw).
Qed.

Lemma find_digits_none relaxed l :
  find_digits (cl_ws relaxed) l = None ->
  forall w c r, l = w ++ c :: r -> forallb (ows_before relaxed) w = true -> c_isdigit c = true -> False.
Proof.
  intros H w c r -> Hw Hc. rewrite (find_digits_complete _ _ _ _ Hw Hc) in H. discriminate.
Qed.

(* ================= strtoll on a string that starts with a digit ================= *)
Lemma c_str_digits l : fst (span c_isdigit (c_str l)) = fst (span c_isdigit l).
Proof.
  induction l as [|c l IH]; cbn [c_str span]; [reflexivity|].
  destruct (c =? 0) eqn:E0.
  - assert (c_isdigit c = false) as -> by (unfold c_isdigit; lia). reflexivity.
  - cbn [span]. destruct (c_isdigit c); [|reflexivity].
    destruct (span c_isdigit (c_str l)), (span c_isdigit l). cbn [fst] in *. now rewrite IH.
Qed.

Lemma dec_val_nonneg_acc ds : forall a, (0 <= a)%Z -> forallb c_isdigit ds = true ->
  (0 <= fold_left (fun a c => a * 10 + (Z.of_N c - 48))%Z ds a)%Z.
Proof.
  induction ds as [|c ds IH]; intros a Ha Hd; cbn [fold_left]; [exact Ha|].
  cbn [forallb] in Hd. apply andb_prop in Hd as [Hc Hd]. apply IH; [|exact Hd].
  unfold c_isdigit in Hc. lia.
Qed.
Lemma dec_val_nonneg ds : forallb c_isdigit ds = true -> (0 <= dec_val ds)%Z.
Proof. apply dec_val_nonneg_acc. lia. Qed.

Lemma parse_offset_digit_led c r :
  c_isdigit c = true ->
  let ds := fst (span c_isdigit (c :: r)) in
  parse_offset (c :: r) = if (dec_val ds >? two63 - 1)%Z then None else Some (dec_val ds, lenN ds).
Proof.
  intros Hc ds. unfold parse_offset, c_strtoll.
  assert (E0 : (c =? 0) = false) by (unfold c_isdigit in Hc; lia).
  assert (Es : c_isspace c = false) by (unfold c_isdigit in Hc; unfold c_isspace; lia).
  assert (E45 : (c =? 45) = false) by (unfold c_isdigit in Hc; lia).
  assert (E43 : (c =? 43) = false) by (unfold c_isdigit in Hc; lia).
  cbn [c_str]. rewrite E0. cbn [skip_ws]. rewrite Es, E45, E43.
  assert (Eds : fst (span c_isdigit (c :: c_str r)) = ds).
  { unfold ds. rewrite <- (c_str_digits (c :: r)). cbn [c_str]. now rewrite E0. }
  rewrite Eds.
  assert (Hne : exists y ys, ds = y :: ys).
  { unfold ds. cbn [span]. rewrite Hc. destruct (span c_isdigit r). cbn [fst]. eauto. }
  destruct Hne as (y & ys & Hy). rewrite Hy. rewrite <- Hy.
  destruct (dec_val ds >? two63 - 1)%Z eqn:Eb; [reflexivity|].
  assert (lenN ds <> 0) by (rewrite Hy; cbn [lenN]; lia).
  destruct (0 + lenN ds =? 0) eqn:En; [lia|]. now rewrite N.add_0_l.
Qed.

(* ================= checkValue ================= *)
Lemma forallb_eqf {A} (p q : A -> bool) l : (forall x, p x = q x) -> forallb p l = forallb q l.
Proof. intros H. induction l as [|x l IH]; cbn [forallb]; [reflexivity| now rewrite H, IH]. Qed.

(* the syntactic part of checkValue: the number it extracts, or None when it sets sawBad *)
Definition cv_parse (relaxed : bool) (item : bytes) : option Z :=
  match find_digits (cl_ws relaxed) item with
  | None => None
  | Some d =>
    match parse_offset d with
    | None => None
    | Some (v, n) =>
      if (v <? 0)%Z then None
      else if negb (good_suffix (cl_delim relaxed) (dropN n d)) then None else Some v
    end
  end.

Definition cv_dup (relaxed : bool) (st : clst) (v : Z) : clst :=
  let conflicting := negb (cl_value st =? v)%Z in
  {| cl_value := cl_value st;
     cl_problem := if conflicting then 2 else if cl_problem st =? 0 then 1 else cl_problem st;
     cl_sawBad := negb relaxed || conflicting; cl_needsSan := true; cl_sawGood := true |}.
Definition cv_first (st : clst) (v : Z) : clst :=
  {| cl_value := v; cl_problem := cl_problem st; cl_sawBad := cl_sawBad st;
     cl_needsSan := cl_needsSan st; cl_sawGood := true |}.

Lemma check_value_unfold relaxed st item :
  check_value relaxed st item =
  match cv_parse relaxed item with
  | None => (false, set_bad st)
  | Some v => if cl_sawGood st then (false, cv_dup relaxed st v) else (true, cv_first st v)
  end.
Proof.
  unfold check_value, cv_parse.
  destruct (find_digits (cl_ws relaxed) item) as [d|]; [|reflexivity].
  destruct (parse_offset d) as [[v n]|]; [|reflexivity].
  destruct (v <? 0)%Z; [reflexivity|].
  destruct (negb (good_suffix (cl_delim relaxed) (dropN n d))); reflexivity.
Qed.

Lemma span_fst_snd {A} (p : A -> bool) l : span p l = (fst (span p l), snd (span p l)).
Proof. destruct (span p l); reflexivity. Qed.

Theorem cv_parse_token relaxed item v : cv_parse relaxed item = Some v <-> is_token relaxed item v.
Proof.
  unfold cv_parse. split.
  - destruct (find_digits (cl_ws relaxed) item) as [d|] eqn:Ef; [|discriminate].
    destruct (find_digits_sound _ _ _ Ef) as (w & c & r & -> & -> & Hc & Hw).
    rewrite (parse_offset_digit_led c r Hc). cbv zeta.
    set (ds := fst (span c_isdigit (c :: r))). set (t := snd (span c_isdigit (c :: r))).
    assert (Hsplit : c :: r = ds ++ t) by (symmetry; apply span_app).
    destruct (dec_val ds >? two63 - 1)%Z eqn:Eb; [discriminate|].
    destruct (dec_val ds <? 0)%Z eqn:En; [discriminate|].
    rewrite Hsplit, dropN_app_len. unfold good_suffix.
    destruct (forallb (cl_delim relaxed) t) eqn:Et; cbn [negb]; [|discriminate].
    intros [= <-]. exists w, ds, t. split; [reflexivity|]. repeat split.
    + exact Hw.
    + unfold ds. cbn [span]. rewrite Hc. destruct (span c_isdigit r). cbn [fst]. discriminate.
    + apply span_all.
    + rewrite <- Et. apply forallb_eqf. intros x. symmetry. apply delim_tbl.
    + lia.
  - intros (w & ds & t & -> & Hw & Hne & Hd & Ht & <- & Hlt).
    destruct ds as [|c ds']; [contradiction|]. cbn [app].
    cbn [forallb] in Hd. apply andb_prop in Hd as [Hc Hd'].
    rewrite (find_digits_complete relaxed w c (ds' ++ t) Hw Hc).
    rewrite (parse_offset_digit_led c (ds' ++ t) Hc). cbv zeta.
    assert (Hsp : span c_isdigit (c :: ds' ++ t) = (c :: ds', t)).
    { apply (span_app_stop c_isdigit (c :: ds') t).
      - cbn [forallb]. now rewrite Hc, Hd'.
      - destruct t as [|y t']; [exact I|]. cbn [forallb] in Ht. apply andb_prop in Ht as [Hy _].
        exact (delim_not_digit _ _ Hy). }
    rewrite Hsp. cbn [fst].
    destruct (dec_val (c :: ds') >? two63 - 1)%Z eqn:Eb; [lia|].
    assert (0 <= dec_val (c :: ds'))%Z by (apply dec_val_nonneg; cbn [forallb]; now rewrite Hc, Hd').
    destruct (dec_val (c :: ds') <? 0)%Z eqn:En; [lia|].
    change (c :: ds' ++ t) with ((c :: ds') ++ t). rewrite dropN_app_len. unfold good_suffix.
    rewrite (forallb_eqf _ _ t (delim_tbl relaxed)), Ht. reflexivity.
Qed.

(* ================= the interpreter as a three-state automaton over examined occurrences ================= *)
Inductive summary := SNone | SGood (v : Z) | SBad.
Definition abs (st : clst) : summary :=
  if cl_sawBad st then SBad else if cl_sawGood st then SGood (cl_value st) else SNone.
Definition step (relaxed : bool) (s : summary) (o : option Z) : summary :=
  match s, o with
  | SBad, _ => SBad
  | _, None => SBad
  | SNone, Some v => SGood v
  | SGood v, Some v' => if relaxed && (v =? v')%Z then SGood v else SBad
  end.

Lemma step_bad relaxed os : fold_left (step relaxed) os SBad = SBad.
Proof. induction os as [|o os IH]; cbn [fold_left step]; [reflexivity| exact IH]. Qed.

Lemma abs_check_value relaxed st item : cl_sawBad st = false ->
  abs (snd (check_value relaxed st item)) = step relaxed (abs st) (cv_parse relaxed item).
Proof.
  intros Hb. rewrite check_value_unfold. unfold abs. rewrite Hb.
  destruct (cv_parse relaxed item) as [v|].
  - destruct (cl_sawGood st) eqn:Eg; cbn [snd cv_dup cv_first cl_sawBad cl_sawGood cl_value step].
    + destruct relaxed, (cl_value st =? v)%Z; reflexivity.
    + now rewrite Hb.
  - cbn [snd set_bad cl_sawBad]. destruct (cl_sawGood st); reflexivity.
Qed.

(* items of a list that the loop of checkList actually hands to checkValue *)
Fixpoint examined (items : list bytes) : list bytes :=
  match items with
  | [] => []
  | raw :: more => match rtrim raw with [] => [] | it => it :: examined more end
  end.

Lemma abs_check_items relaxed : forall items st, cl_sawBad st = false ->
  abs (check_items relaxed st items) =
  fold_left (step relaxed) (map (cv_parse relaxed) (examined items)) (abs st).
Proof.
  induction items as [|raw more IH]; intros st Hb; cbn [check_items examined map fold_left]; [reflexivity|].
  destruct (rtrim raw) as [|x xs] eqn:Er; [reflexivity|].
  cbn [map fold_left]. rewrite <- (abs_check_value relaxed st (x :: xs) Hb).
  destruct (check_value relaxed st (x :: xs)) as [ok st'] eqn:Ec. cbn [snd].
  destruct (cl_sawBad st') eqn:Eb'.
  - assert (Hok : ok = false).
    { rewrite check_value_unfold in Ec. destruct (cv_parse relaxed (x :: xs)); [|now inversion Ec].
      destruct (cl_sawGood st); inversion Ec; subst; [reflexivity|].
      cbn [cv_first cl_sawBad] in Eb'. congruence. }
    subst ok. cbn [negb andb]. unfold abs at 2. rewrite Eb', step_bad. unfold abs. now rewrite Eb'.
  - rewrite andb_false_r. apply IH. exact Eb'.
Qed.

(* the occurrences a field contributes, as the code reads them *)
Definition field_occ (relaxed : bool) (f : bytes) : list (option Z) :=
  if has_comma f then
    (if relaxed then map (cv_parse relaxed) (examined (split_items Lead [] (c_str f))) else [None])
  else [cv_parse relaxed f].

Lemma abs_set_san st : abs (set_san st) = abs st.
Proof. reflexivity. Qed.

Lemma abs_check_field relaxed st f :
  abs (snd (check_field relaxed st f)) = fold_left (step relaxed) (field_occ relaxed f) (abs st).
Proof.
  unfold check_field, field_occ. destruct (cl_sawBad st) eqn:Hb.
  - cbn [snd]. unfold abs. rewrite Hb. now rewrite step_bad.
  - destruct (has_comma f).
    + unfold check_list. destruct relaxed; cbn [negb snd].
      * rewrite abs_check_items by exact Hb. now rewrite abs_set_san.
      * cbn [fold_left]. unfold abs. cbn [set_bad cl_sawBad]. rewrite Hb.
        destruct (cl_sawGood st); reflexivity.
    + cbn [fold_left]. apply abs_check_value. exact Hb.
Qed.

Lemma abs_check_fields relaxed : forall vs st,
  abs (snd (check_fields relaxed st vs)) =
  fold_left (step relaxed) (concat (map (field_occ relaxed) vs)) (abs st).
Proof.
  induction vs as [|f vs IH]; intros st; cbn [check_fields map concat fold_left]; [reflexivity|].
  destruct (check_field relaxed st f) as [k st1] eqn:E1.
  destruct (check_fields relaxed st1 vs) as [ks st2] eqn:E2. cbn [snd].
  rewrite fold_left_app. rewrite <- (abs_check_field relaxed st f), E1. cbn [snd].
  rewrite <- IH, E2. reflexivity.
Qed.

(* what the automaton computes *)
Lemma fold_good relaxed v : forall os,
  fold_left (step relaxed) os (SGood v) = SGood v <->
  (forall o, In o os -> o = Some v) /\ (relaxed = false -> os = []).
Proof.
  induction os as [|o os IH]; cbn [fold_left].
  - split; [intros _; split; [intros o []| reflexivity]| reflexivity].
  - destruct o as [v'|]; cbn [step].
    + destruct relaxed; cbn [andb].
      * destruct (v =? v')%Z eqn:E.
        -- apply Z.eqb_eq in E. subst v'. rewrite IH. split.
           ++ intros [H1 H2]. split; [|discriminate]. intros o [<-|Hi]; [reflexivity| now apply H1].
           ++ intros [H1 _]. split; [|discriminate]. intros o Hi. apply H1. now right.
        -- rewrite step_bad. split; [discriminate|]. intros [H1 _].
           specialize (H1 (Some v') (or_introl eq_refl)). inversion H1. lia.
      * rewrite step_bad. split; [discriminate|]. intros [_ H2]. now specialize (H2 eq_refl).
    + rewrite step_bad. split; [discriminate|]. intros [H1 _].
      specialize (H1 None (or_introl eq_refl)). discriminate.
Qed.

Lemma fold_bad_or_good relaxed : forall os s, s <> SNone ->
  fold_left (step relaxed) os s <> SNone.
Proof.
  induction os as [|o os IH]; intros s Hs; cbn [fold_left]; [exact Hs|]. apply IH.
  destruct s as [|v|]; [contradiction| |]; destruct o as [v'|]; cbn [step]; try discriminate.
  destruct (relaxed && (v =? v')%Z); discriminate.
Qed.

Theorem fold_none_spec relaxed os v :
  fold_left (step relaxed) os SNone = SGood v <->
  os <> [] /\ (forall o, In o os -> o = Some v) /\ (relaxed = false -> lenN os = 1).
Proof.
  destruct os as [|o os]; cbn [fold_left].
  - split; [discriminate| intros [H _]; contradiction].
  - destruct o as [v'|]; cbn [step].
    + split.
      * intros H. assert (v' = v).
        { destruct (Z.eq_dec v' v) as [|Hn]; [assumption|]. exfalso.
          assert (G : forall os, fold_left (step relaxed) os (SGood v') = SGood v -> False).
          { clear -Hn. induction os as [|o os IH]; cbn [fold_left]; [intros [= ?]; contradiction|].
            destruct o as [w|]; cbn [step]; [|now rewrite step_bad].
            destruct (relaxed && (v' =? w)%Z); [exact IH| now rewrite step_bad]. }
          exact (G _ H). }
        subst v'. apply fold_good in H as [H1 H2]. split; [discriminate|]. split.
        -- intros o [<-|Hi]; [reflexivity| now apply H1].
        -- intros Hr. rewrite (H2 Hr). reflexivity.
      * intros (_ & H1 & H2). assert (v' = v) by (specialize (H1 _ (or_introl eq_refl)); congruence).
        subst v'. apply fold_good. split.
        -- intros o Hi. apply H1. now right.
        -- intros Hr. specialize (H2 Hr). cbn [lenN] in H2. destruct os; [reflexivity| cbn [lenN] in H2; lia].
    + rewrite step_bad. split; [discriminate|]. intros (_ & H1 & _).
      specialize (H1 None (or_introl eq_refl)). discriminate.
Qed.

Lemma fold_none_none relaxed os : fold_left (step relaxed) os SNone = SNone <-> os = [].
Proof.
  destruct os as [|o os]; cbn [fold_left]; [tauto|]. split; [|discriminate].
  intros H. exfalso. revert H. apply fold_bad_or_good. destruct o; cbn [step]; discriminate.
Qed.

Lemma abs_uses st v : abs st = SGood v <-> uses st v.
Proof.
  unfold abs, uses. destruct (cl_sawBad st), (cl_sawGood st); split; intros H;
    try discriminate; try (destruct H as (? & ? & ?); discriminate).
  - inversion H. auto.
  - destruct H as (_ & _ & ->). reflexivity.
Qed.

(* ================= field sequences ================= *)
Lemma forallb_imp {A} (p q : A -> bool) l : (forall x, p x = true -> q x = true) ->
  forallb p l = true -> forallb q l = true.
Proof.
  intros H. induction l as [|x l IH]; cbn [forallb]; [reflexivity|].
  intros Hx. apply andb_prop in Hx as [H1 H2]. now rewrite (H _ H1), (IH H2).
Qed.

Lemma before_nc relaxed c : ows_before relaxed c = true -> negb (c =? 44) = true.
Proof. unfold ows_before; lia. Qed.
Lemma after_nc relaxed c : ows_after relaxed c = true -> negb (c =? 44) = true.
Proof. unfold ows_after; lia. Qed.
Lemma digit_nc c : c_isdigit c = true -> negb (c =? 44) = true.
Proof. unfold c_isdigit; lia. Qed.

Lemma token_no_comma relaxed f v : is_token relaxed f v -> has_comma f = false.
Proof.
  intros (w & ds & t & -> & Hw & _ & Hd & Ht & _).
  assert (H : forallb (fun c => negb (c =? 44)) (w ++ ds ++ t) = true).
  { rewrite !forallb_app'.
    rewrite (forallb_imp _ _ w (before_nc relaxed) Hw).
    rewrite (forallb_imp _ _ ds digit_nc Hd).
    rewrite (forallb_imp _ _ t (after_nc relaxed) Ht). reflexivity. }
  unfold has_comma. induction (w ++ ds ++ t) as [|c l IH]; cbn [c_str existsb]; [reflexivity|].
  cbn [forallb] in H. apply andb_prop in H as [Hc Hl].
  destruct (c =? 0); cbn [existsb]; [reflexivity|]. rewrite (IH Hl).
  destruct (44 =? c) eqn:E; [lia| reflexivity].
Qed.

Lemma field_occ_nolist relaxed f : has_comma f = false -> field_occ relaxed f = [cv_parse relaxed f].
Proof. intros H. unfold field_occ. now rewrite H. Qed.

Lemma field_occ_strict_len f : lenN (field_occ false f) = 1.
Proof. unfold field_occ. destruct (has_comma f); reflexivity. Qed.

(* strict mode, complete characterisation: used iff exactly one field, which is a single token *)
Theorem strict_iff vs v :
  uses (snd (check_fields false cl_init vs)) v <-> exists f, vs = [f] /\ is_token false f v.
Proof.
  rewrite <- abs_uses, abs_check_fields. change (abs cl_init) with SNone. rewrite fold_none_spec. split.
  - intros (Hne & Hall & Hlen). specialize (Hlen eq_refl).
    destruct vs as [|f [|g vs']].
    + contradiction.
    + exists f. split; [reflexivity|]. cbn [map concat] in Hall. rewrite app_nil_r in Hall.
      unfold field_occ in Hall. destruct (has_comma f) eqn:Ec.
      * specialize (Hall None (or_introl eq_refl)). discriminate.
      * apply cv_parse_token. apply Hall. now left.
    + exfalso. cbn [map concat] in Hlen. rewrite !lenN_app, !field_occ_strict_len in Hlen. lia.
  - intros (f & -> & Ht). cbn [map concat]. rewrite app_nil_r.
    rewrite (field_occ_nolist _ _ (token_no_comma _ _ _ Ht)).
    apply cv_parse_token in Ht. rewrite Ht. split; [discriminate|]. split; [|reflexivity].
    intros o [<-|[]]. reflexivity.
Qed.

(* relaxed mode, fields without a list: used iff there is at least one field and all are tokens of value v *)
Theorem relaxed_nolist_iff vs v :
  (forall f, In f vs -> has_comma f = false) ->
  (uses (snd (check_fields true cl_init vs)) v <-> vs <> [] /\ forall f, In f vs -> is_token true f v).
Proof.
  intros Hnc. rewrite <- abs_uses, abs_check_fields. change (abs cl_init) with SNone. rewrite fold_none_spec.
  assert (Hocc : concat (map (field_occ true) vs) = map (cv_parse true) vs).
  { induction vs as [|f vs IH]; cbn [map concat]; [reflexivity|].
    rewrite (field_occ_nolist true f (Hnc f (or_introl eq_refl))). cbn [app]. f_equal.
    apply IH. intros g Hg. apply Hnc. now right. }
  rewrite Hocc. split.
  - intros (Hne & Hall & _). split; [intros ->; now apply Hne|].
    intros f Hf. apply cv_parse_token. apply Hall. now apply in_map.
  - intros (Hne & Hall). split; [destruct vs; [contradiction| discriminate]|]. split; [|discriminate].
    intros o Ho. apply in_map_iff in Ho as (f & <- & Hf). apply cv_parse_token. now apply Hall.
Qed.

(* any mode, any fields: whatever is used is the value of every occurrence the code examined *)
Theorem used_value_is_every_examined relaxed vs v :
  uses (snd (check_fields relaxed cl_init vs)) v ->
  concat (map (field_occ relaxed) vs) <> [] /\
  forall o, In o (concat (map (field_occ relaxed) vs)) -> o = Some v.
Proof.
  rewrite <- abs_uses, abs_check_fields. change (abs cl_init) with SNone. rewrite fold_none_spec. tauto.
Qed.

(* no value is used and nothing is flagged only if the code examined no occurrence at all *)
Theorem not_flagged_not_used_means_nothing relaxed vs :
  let st := snd (check_fields relaxed cl_init vs) in
  cl_sawBad st = false -> cl_sawGood st = false -> concat (map (field_occ relaxed) vs) = [].
Proof.
  intros st Hb Hg. apply (fold_none_none relaxed). rewrite <- (abs_check_fields relaxed vs cl_init : _ = fold_left _ _ SNone).
  fold st. unfold abs. now rewrite Hb, Hg.
Qed.

(* hence: at least one examined occurrence and no common token value ==> sawBad (bad framing) *)
Theorem ambiguous_is_flagged relaxed vs :
  concat (map (field_occ relaxed) vs) <> [] ->
  (forall v, ~ uses (snd (check_fields relaxed cl_init vs)) v) ->
  cl_sawBad (snd (check_fields relaxed cl_init vs)) = true.
Proof.
  intros Hne Hno. destruct (cl_sawBad (snd (check_fields relaxed cl_init vs))) eqn:Hb; [reflexivity|].
  destruct (cl_sawGood (snd (check_fields relaxed cl_init vs))) eqn:Hg.
  - exfalso. apply (Hno (cl_value (snd (check_fields relaxed cl_init vs)))). repeat split; assumption.
  - exfalso. apply Hne. now apply not_flagged_not_used_means_nothing.
Qed.

(* ================= xint64toa / getInt64 round trip ================= *)
Lemma dec_val_snoc ds d : dec_val (ds ++ [d]) = (dec_val ds * 10 + (Z.of_N d - 48))%Z.
Proof. unfold dec_val. rewrite fold_left_app. reflexivity. Qed.

Lemma dec_digits_S k n :
  dec_digits (S k) n = if n <? 10 then [48 + n] else dec_digits k (n / 10) ++ [48 + n mod 10].
Proof. reflexivity. Qed.

Lemma dec_digits_spec : forall fuel n, n < 10 ^ N.of_nat (S fuel) ->
  dec_val (dec_digits (S fuel) n) = Z.of_N n /\ forallb c_isdigit (dec_digits (S fuel) n) = true /\
  dec_digits (S fuel) n <> [].
Proof.
  induction fuel as [|k IH]; intros n Hn; rewrite dec_digits_S; destruct (n <? 10) eqn:E.
  - repeat split; [unfold dec_val; cbn [fold_left]; lia| cbn [forallb]; unfold c_isdigit; lia| discriminate].
  - change (10 ^ N.of_nat 1) with 10 in Hn. lia.
  - repeat split; [unfold dec_val; cbn [fold_left]; lia| cbn [forallb]; unfold c_isdigit; lia| discriminate].
  - assert (Hk : n / 10 < 10 ^ N.of_nat (S k)).
    { rewrite (Nat2N.inj_succ (S k)), N.pow_succ_r' in Hn. apply N.div_lt_upper_bound; lia. }
    destruct (IH _ Hk) as (Hv & Hd & Hne). repeat split.
    + rewrite dec_val_snoc, Hv. pose proof (N.div_mod n 10). lia.
    + rewrite forallb_app', Hd. cbn [forallb]. unfold c_isdigit. pose proof (N.mod_lt n 10). lia.
    + intros H. apply app_eq_nil in H as [_ H]. discriminate.
Qed.

Lemma span_all_digits l : forallb c_isdigit l = true -> span c_isdigit l = (l, []).
Proof. intros H. rewrite <- (app_nil_r l) at 1. now apply span_app_stop. Qed.

Lemma parse_int64_to_a v : (0 <= v < two63)%Z -> exists n, parse_offset (int64_to_a v) = Some (v, n).
Proof.
  intros Hv. unfold int64_to_a.
  assert (Hn : Z.to_N v < 10 ^ N.of_nat 20) by (unfold two63 in Hv; change (10 ^ N.of_nat 20) with 100000000000000000000; lia).
  destruct (dec_digits_spec 19 _ Hn) as (Hval & Hd & Hne).
  destruct (dec_digits 20 (Z.to_N v)) as [|c r] eqn:E; [contradiction|].
  pose proof Hd as Hd0. cbn [forallb] in Hd. apply andb_prop in Hd as [Hc _].
  rewrite (parse_offset_digit_led c r Hc). cbv zeta. rewrite (span_all_digits _ Hd0). cbn [fst].
  rewrite Hval, Z2N.id by lia. destruct (v >? two63 - 1)%Z eqn:Eb; [lia|]. eauto.
Qed.

(* getInt64 on a kept single-token field: strtoll skips the same leading white space *)
Lemma skip_ws_app w : forall l n, forallb c_isspace w = true ->
  skip_ws (w ++ l) n = skip_ws l (n + lenN w).
Proof.
  induction w as [|x w IH]; intros l n H; cbn [app lenN]; [f_equal; lia|].
  cbn [forallb] in H. apply andb_prop in H as [Hx Hw]. cbn [skip_ws]. rewrite Hx, (IH _ _ Hw). f_equal. lia.
Qed.

Lemma skip_ws_shift m : forall l n l1 n1, skip_ws l n = (l1, n1) -> skip_ws l (n + m) = (l1, n1 + m).
Proof.
  induction l as [|x l IH]; intros n l1 n1; cbn [skip_ws].
  - intros [= <- <-]. reflexivity.
  - destruct (c_isspace x); [|intros [= <- <-]; reflexivity].
    intros H. specialize (IH _ _ _ H). rewrite <- IH. f_equal. lia.
Qed.

Lemma c_str_app_nonul a b : forallb (fun c => negb (c =? 0)) a = true -> c_str (a ++ b) = a ++ c_str b.
Proof.
  induction a as [|x a IH]; cbn [app forallb]; [reflexivity|]. intros H. apply andb_prop in H as [Hx Ha].
  cbn [c_str]. destruct (x =? 0); [discriminate|]. now rewrite (IH Ha).
Qed.

Lemma before_space relaxed c : ows_before relaxed c = true -> c_isspace c = true.
Proof. unfold ows_before, c_isspace; lia. Qed.
Lemma before_nonul relaxed c : ows_before relaxed c = true -> negb (c =? 0) = true.
Proof. unfold ows_before; lia. Qed.

Lemma token_parse_offset relaxed f v : is_token relaxed f v -> exists n, parse_offset f = Some (v, n).
Proof.
  intros (w & ds & t & -> & Hw & Hne & Hd & Ht & <- & Hlt).
  destruct ds as [|c ds']; [contradiction|].
  pose proof Hd as Hd0. cbn [forallb] in Hd. apply andb_prop in Hd as [Hc Hd'].
  assert (Hsp : span c_isdigit ((c :: ds') ++ t) = (c :: ds', t)).
  { apply span_app_stop; [exact Hd0|]. destruct t as [|y t']; [exact I|].
    cbn [forallb] in Ht. apply andb_prop in Ht as [Hy _]. exact (delim_not_digit _ _ Hy). }
  pose proof (parse_offset_digit_led c (ds' ++ t) Hc) as Hp. cbv zeta in Hp.
  change (c :: ds' ++ t) with ((c :: ds') ++ t) in Hp. rewrite Hsp in Hp. cbn [fst] in Hp.
  destruct (dec_val (c :: ds') >? two63 - 1)%Z eqn:Eb; [lia|].
  (* the same computation behind the skipped white space *)
  unfold parse_offset, c_strtoll in *.
  rewrite (c_str_app_nonul w _ (forallb_imp _ _ w (before_nonul relaxed) Hw)).
  rewrite (skip_ws_app w _ 0 (forallb_imp _ _ w (before_space relaxed) Hw)).
  destruct (skip_ws (c_str ((c :: ds') ++ t)) 0) as [l1 n1] eqn:E1.
  assert (E2 : skip_ws (c_str ((c :: ds') ++ t)) (0 + lenN w) = (l1, n1 + lenN w)).
  { now apply skip_ws_shift. }
  rewrite E2.
  destruct l1 as [|a l1'].
  - cbn [span fst] in Hp. discriminate.
  - destruct (a =? 45); [| destruct (a =? 43)];
      (destruct (fst (span c_isdigit _)) as [|y ys] eqn:Es; [discriminate|]);
      repeat match type of Hp with context [if ?b then _ else _] => destruct b eqn:?; try discriminate end;
      repeat match goal with |- context [if ?b then _ else _] => destruct b eqn:?; try discriminate end;
      try lia; inversion Hp; subst; eauto.
Qed.

(* ================= HttpHeader::parse: the Content-Length branches ================= *)
Definition is_cl (e : entry) : bool := hid_eqb (e_id e) HCL.
Definition cl_values (es : list entry) : list bytes := map e_value (filter is_cl es).

Lemma check_items_mono relaxed : forall items st, cl_sawGood st = true ->
  cl_sawGood (check_items relaxed st items) = true /\ cl_value (check_items relaxed st items) = cl_value st.
Proof.
  induction items as [|raw more IH]; intros st Hg; cbn [check_items]; [now split|].
  destruct (rtrim raw) as [|x xs]; [now split|].
  rewrite check_value_unfold, Hg. destruct (cv_parse relaxed (x :: xs)) as [v|].
  - destruct (negb false && cl_sawBad (cv_dup relaxed st v)); [now split|].
    destruct (IH (cv_dup relaxed st v) eq_refl) as [H1 H2]. now split.
  - cbn [negb andb set_bad cl_sawBad]. now split.
Qed.

Lemma check_field_mono relaxed st f : cl_sawGood st = true ->
  fst (check_field relaxed st f) = false /\
  cl_sawGood (snd (check_field relaxed st f)) = true /\ cl_value (snd (check_field relaxed st f)) = cl_value st.
Proof.
  intros Hg. unfold check_field. destruct (cl_sawBad st); [now repeat split|].
  destruct (has_comma f).
  - unfold check_list. destruct relaxed; cbn [negb fst snd]; [|now repeat split].
    destruct (check_items_mono true (split_items Lead [] (c_str f)) (set_san st) Hg) as [H1 H2]. now repeat split.
  - rewrite check_value_unfold, Hg. destruct (cv_parse relaxed f); now repeat split.
Qed.

Lemma check_field_keep relaxed st f st1 : check_field relaxed st f = (true, st1) ->
  cl_sawGood st = false /\ exists v, cv_parse relaxed f = Some v /\ st1 = cv_first st v.
Proof.
  unfold check_field. destruct (cl_sawBad st); [discriminate|]. destruct (has_comma f).
  - unfold check_list. destruct (negb relaxed); discriminate.
  - rewrite check_value_unfold. destruct (cv_parse relaxed f) as [v|]; [|discriminate].
    destruct (cl_sawGood st); [discriminate|]. intros [= <-]. eauto.
Qed.

Lemma entries_loop_fields relaxed : forall es st kept st',
  entries_loop relaxed es st = Some (kept, st') -> st' = snd (check_fields relaxed st (cl_values es)).
Proof.
  induction es as [|e es IH]; intros st kept st'; cbn [entries_loop].
  - intros [= <- <-]. reflexivity.
  - unfold cl_values, is_cl. cbn [filter]. destruct (e_id e) eqn:Ei; cbn [hid_eqb map check_fields].
    + fold is_cl. change (map e_value (filter is_cl es)) with (cl_values es).
      destruct (check_field relaxed st (e_value e)) as [k st1].
      destruct (check_fields relaxed st1 (cl_values es)) as [ks st2] eqn:E2. cbn [snd].
      assert (G : forall kept, entries_loop relaxed es st1 = Some (kept, st') -> st' = st2).
      { intros k' H. rewrite (IH _ _ _ H), E2. reflexivity. }
      destruct k.
      * destruct (entries_loop relaxed es st1) as [[k' s']|] eqn:E; [|discriminate].
        intros [= <- <-]. now apply (G k').
      * destruct relaxed; [|discriminate]. apply G.
    + destruct (entries_loop relaxed es st) as [[k' s']|] eqn:E; [|discriminate].
      intros [= <- <-]. now apply (IH _ _ _ E).
    + destruct (entries_loop relaxed es st) as [[k' s']|] eqn:E; [|discriminate].
      intros [= <- <-]. now apply (IH _ _ _ E).
Qed.

Lemma entries_loop_te relaxed : forall es st kept st',
  entries_loop relaxed es st = Some (kept, st') -> has_id HTE kept = has_id HTE es.
Proof.
  induction es as [|e es IH]; intros st kept st'; cbn [entries_loop].
  - intros [= <- <-]. reflexivity.
  - unfold has_id. cbn [existsb]. fold (has_id HTE es). destruct (e_id e) eqn:Ei; cbn [hid_eqb orb].
    + destruct (check_field relaxed st (e_value e)) as [k st1]. destruct k.
      * destruct (entries_loop relaxed es st1) as [[k' s']|] eqn:E; [|discriminate].
        intros [= <- <-]. cbn [existsb]. rewrite Ei. cbn [hid_eqb orb]. now apply (IH _ _ _ E).
      * destruct relaxed; [|discriminate]. apply IH.
    + destruct (entries_loop relaxed es st) as [[k' s']|] eqn:E; [|discriminate].
      intros [= <- <-]. cbn [existsb]. now rewrite Ei.
    + destruct (entries_loop relaxed es st) as [[k' s']|] eqn:E; [|discriminate].
      intros [= <- <-]. cbn [existsb]. rewrite Ei. cbn [hid_eqb orb]. now apply (IH _ _ _ E).
Qed.

Lemma kept_after_good relaxed : forall es st kept st', cl_sawGood st = true ->
  entries_loop relaxed es st = Some (kept, st') ->
  filter is_cl kept = [] /\ cl_sawGood st' = true /\ cl_value st' = cl_value st.
Proof.
  induction es as [|e es IH]; intros st kept st' Hg; cbn [entries_loop].
  - intros [= <- <-]. now repeat split.
  - destruct (e_id e) eqn:Ei.
    + destruct (check_field_mono relaxed st (e_value e) Hg) as (Hk & Hg1 & Hv1).
      destruct (check_field relaxed st (e_value e)) as [k st1]. cbn [fst snd] in *. subst k.
      destruct relaxed; [|discriminate]. intros H. destruct (IH _ _ _ Hg1 H) as (A & B & C).
      repeat split; [exact A| exact B| congruence].
    + destruct (entries_loop relaxed es st) as [[k' s']|] eqn:E; [|discriminate].
      intros [= <- <-]. destruct (IH _ _ _ Hg E) as (A & B & C). cbn [filter]. unfold is_cl at 1.
      rewrite Ei. cbn [hid_eqb]. now repeat split.
    + destruct (entries_loop relaxed es st) as [[k' s']|] eqn:E; [|discriminate].
      intros [= <- <-]. destruct (IH _ _ _ Hg E) as (A & B & C). cbn [filter]. unfold is_cl at 1.
      rewrite Ei. cbn [hid_eqb]. now repeat split.
Qed.

Lemma kept_cl relaxed : forall es st kept st', cl_sawGood st = false ->
  entries_loop relaxed es st = Some (kept, st') ->
  filter is_cl kept = [] \/
  exists e, filter is_cl kept = [e] /\ cv_parse relaxed (e_value e) = Some (cl_value st') /\ cl_sawGood st' = true.
Proof.
  induction es as [|e es IH]; intros st kept st' Hg; cbn [entries_loop].
  - intros [= <- <-]. now left.
  - destruct (e_id e) eqn:Ei.
    + destruct (check_field relaxed st (e_value e)) as [k st1] eqn:Ec. destruct k.
      * destruct (check_field_keep _ _ _ _ Ec) as (_ & v & Hv & ->).
        destruct (entries_loop relaxed es (cv_first st v)) as [[k' s']|] eqn:E; [|discriminate].
        intros [= <- <-]. destruct (kept_after_good relaxed es (cv_first st v) _ _ eq_refl E) as (A & B & C).
        right. exists e. cbn [filter]. unfold is_cl at 1. rewrite Ei. cbn [hid_eqb]. rewrite A.
        repeat split; [|exact B]. rewrite C. exact Hv.
      * destruct relaxed; [|discriminate]. intros H.
        destruct (cl_sawGood st1) eqn:Eg1.
        -- left. exact (proj1 (kept_after_good true es _ _ _ Eg1 H)).
        -- exact (IH _ _ _ Eg1 H).
    + destruct (entries_loop relaxed es st) as [[k' s']|] eqn:E; [|discriminate].
      intros [= <- <-]. cbn [filter]. assert (Hn : is_cl e = false) by (unfold is_cl; now rewrite Ei). rewrite Hn. exact (IH _ _ _ Hg E).
    + destruct (entries_loop relaxed es st) as [[k' s']|] eqn:E; [|discriminate].
      intros [= <- <-]. cbn [filter]. assert (Hn : is_cl e = false) by (unfold is_cl; now rewrite Ei). rewrite Hn. exact (IH _ _ _ Hg E).
Qed.

Lemma filter_cl_del l : filter is_cl (del_id HCL l) = [].
Proof.
  unfold del_id, is_cl. induction l as [|e l IH]; cbn [filter]; [reflexivity|].
  destruct (hid_eqb (e_id e) HCL) eqn:E; cbn [negb filter]; [exact IH| now rewrite E].
Qed.
Lemma filter_cl_del_te l : filter is_cl (del_id HTE l) = filter is_cl l.
Proof.
  unfold del_id, is_cl. induction l as [|e l IH]; cbn [filter]; [reflexivity|].
  destruct (e_id e) eqn:Ei; cbn [hid_eqb negb filter]; rewrite ?Ei; cbn [hid_eqb]; now rewrite IH.
Qed.
Lemma first_cl_filter l : first_cl l = match filter is_cl l with e :: _ => Some (e_value e) | [] => None end.
Proof. reflexivity. Qed.

Lemma occ_some relaxed f v : In (Some v) (field_occ relaxed f) -> exists it, cv_parse relaxed it = Some v.
Proof.
  unfold field_occ. destruct (has_comma f).
  - destruct relaxed.
    + intros H. apply in_map_iff in H as (it & H & _). eauto.
    + intros [H|[]]. discriminate.
  - intros [H|[]]. eauto.
Qed.

Lemma used_in_range relaxed vs v :
  uses (snd (check_fields relaxed cl_init vs)) v -> (0 <= v < two63)%Z.
Proof.
  intros H. destruct (used_value_is_every_examined _ _ _ H) as [Hne Hall].
  destruct (concat (map (field_occ relaxed) vs)) as [|o os] eqn:E; [contradiction|].
  assert (Ho : o = Some v) by (apply Hall; now left).
  assert (Hin : In (Some v) (concat (map (field_occ relaxed) vs))) by (rewrite E, Ho; now left).
  apply in_concat in Hin as (l & Hl & Hv). apply in_map_iff in Hl as (f & <- & _).
  destruct (occ_some _ _ _ Hv) as (it & Hit). apply cv_parse_token in Hit.
  destruct Hit as (w & ds & t & _ & _ & _ & Hd & _ & <- & Hlt). split; [now apply dec_val_nonneg| exact Hlt].
Qed.

(* soundness at the level callers see: a framing length is reported only when the interpreter uses it,
   there is no Transfer-Encoding, the message does not prohibit Content-Length, nothing is flagged *)
Theorem header_length_sound relaxed proh es r :
  parse_entries relaxed proh es = Some r -> content_length r <> (-1)%Z ->
  proh = false /\ has_id HTE es = false /\ h_conflicting r = false /\
  uses (snd (check_fields relaxed cl_init (cl_values es))) (content_length r).
Proof.
  unfold parse_entries. destruct (entries_loop relaxed es cl_init) as [[kept st]|] eqn:E; [|discriminate].
  intros [= <-]. pose proof (entries_loop_fields _ _ _ _ _ E) as Hst.
  pose proof (entries_loop_te _ _ _ _ _ E) as Hte. rewrite <- Hst.
  unfold post_process, content_length. destruct proh.
  - cbn [h_entries]. rewrite first_cl_filter, filter_cl_del_te, filter_cl_del. congruence.
  - rewrite Hte. destruct (has_id HTE es).
    + cbn [h_entries]. rewrite first_cl_filter, filter_cl_del. congruence.
    + destruct (cl_sawBad st) eqn:Hb.
      * cbn [h_entries]. rewrite first_cl_filter, filter_cl_del. congruence.
      * destruct (cl_needsSan st) eqn:Hs.
        -- cbn [h_entries h_conflicting]. rewrite first_cl_filter, filter_app, filter_cl_del. cbn [app].
           destruct (cl_sawGood st) eqn:Hg; cbn [filter]; [|congruence].
           unfold is_cl. cbn [e_id hid_eqb e_value].
           assert (Hu : uses st (cl_value st)) by (repeat split; assumption).
           assert (Hr : (0 <= cl_value st < two63)%Z) by (apply (used_in_range relaxed (cl_values es)); rewrite <- Hst; exact Hu).
           destruct (parse_int64_to_a _ Hr) as (n & ->). intros _. repeat split; assumption.
        -- cbn [h_entries h_conflicting]. rewrite first_cl_filter.
           destruct (kept_cl relaxed es cl_init kept st eq_refl E) as [->|(e & -> & Hv & Hg)]; [congruence|].
           apply cv_parse_token in Hv. destruct (token_parse_offset _ _ _ Hv) as (n & ->).
           intros _. repeat split; assumption.
Qed.

(* the "otherwise" half: without Transfer-Encoding / prohibition, when the interpreter uses no value,
   callers see no length, and the header is flagged unless no occurrence was examined at all *)
Theorem header_unusable_flagged relaxed es r :
  parse_entries relaxed false es = Some r -> has_id HTE es = false ->
  (forall v, ~ uses (snd (check_fields relaxed cl_init (cl_values es))) v) ->
  content_length r = (-1)%Z /\
  (h_conflicting r = true \/ concat (map (field_occ relaxed) (cl_values es)) = []).
Proof.
  unfold parse_entries. destruct (entries_loop relaxed es cl_init) as [[kept st]|] eqn:E; [|discriminate].
  intros [= <-] Hnte Hno. pose proof (entries_loop_fields _ _ _ _ _ E) as Hst.
  pose proof (entries_loop_te _ _ _ _ _ E) as Hte. rewrite <- Hst in Hno.
  unfold post_process, content_length. rewrite Hte, Hnte.
  destruct (cl_sawBad st) eqn:Hb.
  - cbn [h_entries h_conflicting]. rewrite first_cl_filter, filter_cl_del. split; [reflexivity| now left].
  - assert (Hg : cl_sawGood st = false).
    { destruct (cl_sawGood st) eqn:Hg; [|reflexivity]. exfalso. apply (Hno (cl_value st)). now repeat split. }
    assert (Hnone : concat (map (field_occ relaxed) (cl_values es)) = []).
    { apply not_flagged_not_used_means_nothing; rewrite <- Hst; assumption. }
    destruct (cl_needsSan st).
    + cbn [h_entries h_conflicting]. rewrite Hg, app_nil_r, first_cl_filter, filter_cl_del. now split; [|right].
    + cbn [h_entries h_conflicting]. rewrite first_cl_filter.
      destruct (kept_cl relaxed es cl_init kept st eq_refl E) as [->|(e & _ & _ & Hg')]; [now split; [|right]| congruence].
Qed.

(* Transfer-Encoding present, or Content-Length prohibited: Content-Length is never used *)
Theorem header_te_or_prohibited relaxed proh es r :
  parse_entries relaxed proh es = Some r -> proh = true \/ has_id HTE es = true ->
  content_length r = (-1)%Z /\ first_cl (h_entries r) = None.
Proof.
  unfold parse_entries. destruct (entries_loop relaxed es cl_init) as [[kept st]|] eqn:E; [|discriminate].
  intros [= <-] H. pose proof (entries_loop_te _ _ _ _ _ E) as Hte.
  unfold post_process, content_length. destruct proh.
  - cbn [h_entries]. rewrite first_cl_filter, filter_cl_del_te, filter_cl_del. now split.
  - destruct H as [H|H]; [discriminate|]. rewrite Hte, H. cbn [h_entries].
    rewrite first_cl_filter, filter_cl_del. now split.
Qed.

(* every header block: hdr_parse is block_entries followed by parse_entries *)
Lemma hdr_parse_entries relaxed req proh block r :
  hdr_parse relaxed req proh block = Some r ->
  exists es, block_entries relaxed req block = Some es /\ parse_entries relaxed proh es = Some r.
Proof. unfold hdr_parse. destruct (block_entries relaxed req block) as [es|]; [eauto| discriminate]. Qed.

Theorem block_length_sound relaxed req proh block r :
  hdr_parse relaxed req proh block = Some r -> content_length r <> (-1)%Z ->
  exists es, block_entries relaxed req block = Some es /\
    proh = false /\ has_id HTE es = false /\ h_conflicting r = false /\
    uses (snd (check_fields relaxed cl_init (cl_values es))) (content_length r).
Proof.
  intros H Hn. destruct (hdr_parse_entries _ _ _ _ _ H) as (es & He & Hp).
  exists es. split; [exact He|]. exact (header_length_sound _ _ _ _ Hp Hn).
Qed.

(* the former counterexample (fixed in /repo by "fix: strListGetItem() stopped iterating at a list element
   made of VT/FF only"): "1,<VT>,5" is now examined to the end and flagged *)
Definition vt_block : bytes :=
  [67;111;110;116;101;110;116;45;76;101;110;103;116;104;58;32;49;44;11;44;53;13;10;13;10].
Lemma vt_list_flagged : cl_sawBad (snd (check_fields true cl_init [[49; 44; 11; 44; 53]])) = true.
Proof. vm_compute. reflexivity. Qed.
Lemma block_vt_list_flagged :
  exists r, hdr_parse true false false vt_block = Some r /\ content_length r = (-1)%Z /\ h_conflicting r = true.
Proof.
  destruct (hdr_parse true false false vt_block) as [r|] eqn:E; [|vm_compute in E; discriminate].
  exists r. split; [reflexivity|]. vm_compute in E. inversion E. vm_compute. now split.
Qed.

Lemma tables_spec relaxed c :
  cs_DIGIT c = c_isdigit c /\ cl_ws relaxed c = ows_before relaxed c /\ cl_delim relaxed c = ows_after relaxed c.
Proof. exact (conj (digit_tbl c) (conj (ws_tbl relaxed c) (delim_tbl relaxed c))). Qed.

(* ================= lists: the code's iteration vs. "split at commas, trim, ignore empty" ================= *)
Definition piece_item (p : bytes) : list bytes :=
  match snd (span is_lead p) with [] => [] | q => [q] end.
Definition lead_items (ps : list bytes) : list bytes := concat (map piece_item ps).

Lemma split_on_cons d l : exists p ps, split_on d l = p :: ps.
Proof.
  induction l as [|c r IH]; cbn [split_on]; [eauto|].
  destruct (c =? d); [eauto|]. destruct IH as (p & ps & ->). eauto.
Qed.

Definition noquote (l : bytes) : Prop := forallb (fun c => negb (c =? 34)) l = true.

Lemma split_items_noquote : forall l, noquote l ->
  (forall acc, split_items Unq acc l =
     match split_on 44 l with p :: ps => (rev acc ++ p) :: lead_items ps | [] => [] end) /\
  split_items Lead [] l = lead_items (split_on 44 l).
Proof.
  unfold noquote. induction l as [|c r IH]; intros Hq.
  - split; [intros acc|]; cbn [split_items split_on]; [now rewrite app_nil_r| reflexivity].
  - cbn [forallb] in Hq. apply andb_prop in Hq as [Hc Hr]. destruct (IH Hr) as [IHu IHl].
    destruct (split_on_cons 44 r) as (p & ps & Ep).
    assert (E34 : (c =? 34) = false) by lia.
    split.
    + intros acc. cbn [split_items split_on]. rewrite E34. destruct (c =? 44) eqn:E44.
      * rewrite IHl, app_nil_r. reflexivity.
      * rewrite IHu, Ep. cbn [rev]. now rewrite <- app_assoc.
    + cbn [split_items split_on]. destruct (is_lead c) eqn:El.
      * rewrite IHl. destruct (c =? 44) eqn:E44.
        -- unfold lead_items. cbn [map concat]. reflexivity.
        -- rewrite Ep. unfold lead_items. cbn [map concat]. f_equal.
           unfold piece_item. cbn [span]. rewrite El. destruct (span is_lead p). reflexivity.
      * rewrite E34. assert (E44 : (c =? 44) = false) by (unfold is_lead in El; lia).
        rewrite E44, IHu, Ep. cbn [rev app]. unfold lead_items. cbn [map concat]. f_equal.
        unfold piece_item. cbn [span]. rewrite El. reflexivity.
Qed.

Lemma span_ext_on {A} (p q : A -> bool) l : (forall x, In x l -> p x = q x) -> span p l = span q l.
Proof.
  induction l as [|x l IH]; intros H; cbn [span]; [reflexivity|].
  rewrite <- (H x (or_introl eq_refl)). destruct (p x); [|reflexivity].
  rewrite IH; [reflexivity|]. intros y Hy. apply H. now right.
Qed.

Lemma span_snd_last {A} (p : A -> bool) a c : p c = false -> snd (span p (a ++ [c])) <> [].
Proof.
  intros Hc. induction a as [|x a IH]; cbn [app span].
  - rewrite Hc. discriminate.
  - destruct (p x); [|discriminate]. destruct (span p (a ++ [c])). exact IH.
Qed.

Lemma rtrim_nonempty c q : c_isspace c = false -> rtrim (c :: q) <> [].
Proof.
  intros Hc. unfold rtrim. cbn [rev]. intros H.
  apply (span_snd_last c_isspace (rev q) c Hc).
  destruct (snd (span c_isspace (rev q ++ [c]))) as [|y ys]; [reflexivity|].
  cbn [rev] in H. destruct (rev ys); discriminate.
Qed.

Lemma blank_ltrim p : blank p = true <-> ltrim p = [].
Proof.
  unfold blank, ltrim. induction p as [|c p IH]; cbn [forallb span]; [tauto|].
  destruct (c_isspace c); cbn [andb]; [|split; discriminate].
  destruct (span c_isspace p). exact IH.
Qed.

(* characters of a list piece for which the code's leading-delimiter set and xisspace agree *)
Definition plain (c : N) : bool := negb (c =? 44).

Lemma lead_space_plain c : plain c = true -> is_lead c = c_isspace c.
Proof. unfold plain, is_lead, c_isspace. lia. Qed.

Lemma examined_piece p rest : forallb plain p = true ->
  examined (piece_item p ++ rest) = (if blank p then [] else [trim p]) ++ examined rest.
Proof.
  intros Hp. unfold piece_item.
  assert (E : snd (span is_lead p) = ltrim p).
  { unfold ltrim. f_equal. apply span_ext_on. intros x Hx. apply lead_space_plain.
    rewrite forallb_forall in Hp. now apply Hp. }
  rewrite E. destruct (blank p) eqn:Eb.
  - apply blank_ltrim in Eb. rewrite Eb. reflexivity.
  - destruct (ltrim p) as [|c q] eqn:El.
    + apply blank_ltrim in El. congruence.
    + cbn [app examined]. unfold trim. rewrite El.
      assert (Hc : c_isspace c = false).
      { pose proof (span_stop c_isspace p) as Hs. unfold ltrim in El. rewrite El in Hs. exact Hs. }
      destruct (rtrim (c :: q)) eqn:Er; [exfalso; exact (rtrim_nonempty c q Hc Er)|]. reflexivity.
Qed.

Lemma examined_lead_items ps : Forall (fun p => forallb plain p = true) ps ->
  examined (lead_items ps) = map trim (filter (fun p => negb (blank p)) ps).
Proof.
  induction 1 as [|p ps Hp _ IH]; [reflexivity|].
  unfold lead_items. cbn [map concat filter]. fold (lead_items ps).
  rewrite (examined_piece p _ Hp), IH. destruct (blank p); reflexivity.
Qed.

Lemma split_on_pieces (P : N -> bool) d l : forallb P l = true ->
  Forall (fun p => forallb (fun c => P c && negb (c =? d)) p = true) (split_on d l).
Proof.
  induction l as [|c r IH]; intros H; cbn [split_on].
  - constructor; [reflexivity| constructor].
  - cbn [forallb] in H. apply andb_prop in H as [Hc Hr]. specialize (IH Hr).
    destruct (c =? d) eqn:E.
    + constructor; [reflexivity| exact IH].
    + destruct (split_on d r) as [|p ps]; [constructor; [cbn [forallb]; now rewrite Hc, E| constructor]|].
      inversion IH as [|? ? Hp Hps]; subst. constructor; [|exact Hps].
      cbn [forallb]. now rewrite Hc, E, Hp.
Qed.

(* the hypothesis of the partial theorem: what HttpHeader::parse guarantees (no NUL) plus the exclusion of
   double quotes (quoted strings) in list-like fields *)
Definition clean (f : bytes) : Prop :=
  forallb (fun c => negb (c =? 0)) f = true /\
  (existsb (N.eqb 44) f = true -> forallb (fun c => negb (c =? 34)) f = true).

Lemma c_str_nonul f : forallb (fun c => negb (c =? 0)) f = true -> c_str f = f.
Proof.
  induction f as [|c f IH]; cbn [forallb c_str]; [reflexivity|]. intros H. apply andb_prop in H as [Hc Hf].
  destruct (c =? 0); [discriminate|]. now rewrite (IH Hf).
Qed.

Lemma field_occ_clean f : clean f -> field_occ true f = map (cv_parse true) (occurrences f).
Proof.
  intros [Hn Hq]. unfold field_occ, occurrences, has_comma. rewrite (c_str_nonul f Hn).
  destruct (existsb (N.eqb 44) f) eqn:Ec; [|reflexivity]. specialize (Hq eq_refl). f_equal.
  rewrite (proj2 (split_items_noquote f Hq)). apply examined_lead_items.
  pose proof (split_on_pieces _ 44 f Hq) as HF. revert HF. apply Forall_impl. intros p.
  apply forallb_imp. intros x. unfold plain. lia.
Qed.

Theorem relaxed_lists_partial vs v :
  (forall f, In f vs -> clean f) ->
  (uses (snd (check_fields true cl_init vs)) v <->
   concat (map occurrences vs) <> [] /\ forall o, In o (concat (map occurrences vs)) -> is_token true o v).
Proof.
  intros Hc. rewrite <- abs_uses, abs_check_fields. change (abs cl_init) with SNone. rewrite fold_none_spec.
  assert (Hocc : concat (map (field_occ true) vs) = map (cv_parse true) (concat (map occurrences vs))).
  { induction vs as [|f vs IH]; cbn [map concat]; [reflexivity|].
    rewrite map_app, (field_occ_clean f (Hc f (or_introl eq_refl))). f_equal.
    apply IH. intros g Hg. apply Hc. now right. }
  rewrite Hocc. split.
  - intros (Hne & Hall & _). split.
    + intros E. rewrite E in Hne. now apply Hne.
    + intros o Ho. apply cv_parse_token. apply Hall. now apply in_map.
  - intros (Hne & Hall). split.
    + destruct (concat (map occurrences vs)); [contradiction| discriminate].
    + split; [|discriminate]. intros o Ho. apply in_map_iff in Ho as (it & <- & Hit).
      apply cv_parse_token. now apply Hall.
Qed.
