"""C21: HTTP request parsing does not depend on how input is segmented."""
import random
from vlib import std, hbuild, coq, recipes, common

PID = "C21"
META = {
    "text": "Theorems (Properties_C21.v, closed under the global context): for EVERY byte string, EVERY way of cutting it "
            "into segments (empty segments included), both parser modes and every request_header_max_size >= 34, the "
            "caller's read loop (inBuf = remaining() + next read, parse again while needsMoreData()) around the model of "
            "Http::One::RequestParser::doParse ends in exactly the outcome of one parse() of the whole input: need-more "
            "(same parser state and retained bytes), accepted (same method, target, version, header block and unconsumed "
            "rest, hence consumed length) or rejected (same status, method, target, version). Proved from two lemmas about "
            "one parse() call - definitive outcomes are stable under extension of the buffer, and a need-more checkpoint "
            "commutes with extension - through the generic induction over the segment list in coq/Incremental.v. For "
            "limits below 34 the statement is refuted by a witness (the blame rule for an over-long LF-less line looks at "
            "up to 32 method bytes + 2 delimiter bytes). The model is tied to the code by differential runs against "
            "src/http/one/RequestParser.cc, Parser.cc, mime_header.cc, http/RequestMethod.cc, parser/Tokenizer.cc "
            "compiled from the working tree (UBSan), one-shot and through the caller's loop on the same inputs, and "
            "the independent oracle 'incremental = one-shot' is evaluated on every implementation answer.",
    "note": "Trusted: Coq kernel, extraction, gen/gen_reqparse.cc + gen/gen_charsets.cc, harness/h_reqparse.cc (its loop "
            "is a transcription of ConnStateData::parseHttpRequest: parse(inBuf); inBuf = remaining()); ReqparseModel.v is "
            "validated against the code only on the generated cases. On rejection the parser's remaining() is not part of "
            "the outcome (the caller discards its whole buffer: consumeInput(inBuf.length())). parsed_/preserveParsed_ is "
            "not modelled.",
    "technique": "Coq proof (stability-under-extension + checkpoint-commutation lemmas, generic induction over segment lists) "
                 "+ extracted-model differential correspondence + one-shot-vs-incremental oracle on the real parser",
}
FRESH = ["src/http/one/RequestParser.cc", "src/http/one/Parser.cc", "src/mime_header.cc", "src/http/RequestMethod.cc",
         "src/http/MethodType.cc", "src/parser/Tokenizer.cc", "src/base/CharacterSet.cc"]


def impl(sanitize="ubsan"):
    return hbuild.build("h_reqparse", "h_reqparse.cc", fresh=FRESH, link=recipes.HTTP1, sanitize=sanitize)


def prebuild():
    impl()


def hx(b):
    return bytes(b).hex() if len(b) else "-"


def unhx(h):
    return b"" if h == "-" else bytes.fromhex(h)


# ------------------------------------------------------------------ generators (shared by C21, C22, C62)
TCHAR = b"!#$%&'*+-.^_`|~0123456789ABCDEFGHIJKLMNOPQRSTUVWXYZabcdefghijklmnopqrstuvwxyz"
URI_STRICT = b":/?#[]@!$&'()*+,;=-._~%0123456789ABCDEFGHIJKLMNOPQRSTUVWXYZabcdefghijklmnopqrstuvwxyz"
URI_RELAXED_EXTRA = b"\"\\|^<>`{} \t\x0b\x0c\r" + bytes(range(128, 256))
METHODS = [b"GET", b"GET", b"GET", b"POST", b"HEAD", b"PUT", b"CONNECT", b"OPTIONS", b"DELETE", b"TRACE", b"PRI",
           b"PURGE", b"get", b"Get", b"post", b"OTHER", b"METHOD_OTHER", b"NONE", b"VERSION-CONTROL", b"FOO", b"X",
           b"M" * 31, b"M" * 32, b"M" * 33, b"M" * 40, b"G=T", b"GE T", b"", b"G\x00T", b"(GET)"]
VERSIONS = [b"HTTP/1.1"] * 6 + [b"HTTP/1.0"] * 3 + [b"HTTP/1.2", b"HTTP/1.9", b"HTTP/2.0", b"HTTP/0.9", b"HTTP/0.5",
                                                     b"HTTP/12.1", b"HTTP/1.10", b"HTTP/1.", b"HTTP/.1", b"HTTP/1", b"http/1.1",
                                                     b"HTTP/1.1x", b"HTTP1.1", b"TTP/1.1", b"/1.1", b"1.1", b"HTTP/1.a", b"HTTP/3.7", None, None]
DELIMS_STRICT = [b" "] * 8 + [b"  ", b"", b"\t"]
DELIMS_RELAXED = [b" "] * 6 + [b"  ", b"\t", b" \t ", b"\x0b", b"\x0c", b"\r", b" \r ", b"", b"   "]
LEAD = [b""] * 10 + [b"\r\n", b"\n", b"\r\n\r\n", b"\n\n\r\n", b"\r", b"\r\r\n", b"\r\n\r", b" ", b"\n\r", b"\r\n\n\r\n\n"]
EOLS = [b"\r\n"] * 8 + [b"\n", b"\n", b"\r\r\n", b"\r\r\r\n", b"\r", b"", b" \r\n", b"\n\r"]


def rand_uri(rng, n=None):
    if n is None:
        n = rng.choice([1, 1, 2, 3, 5, 8, 13, 30])
    k = rng.random()
    if k < 0.7:
        body = bytes(rng.choice(URI_STRICT) for _ in range(max(n - 1, 0)))
        return b"/" + body
    if k < 0.85:
        return bytes(rng.choice(URI_STRICT + URI_RELAXED_EXTRA) for _ in range(n))
    if k < 0.93:
        return b"http://h.example" + rand_uri(rng, max(n, 1))[: max(n, 1)]
    # targets that end like a version or a digit (bidirectional parse)
    return b"/" + bytes(rng.choice(URI_STRICT) for _ in range(max(n - 1, 0))) + \
        rng.choice([b"1", b".1", b"1.1", b"/1.1", b"HTTP/", b"HTTP/1", b"HTTP/1.1", b"HTTP/0.9", b"HTTP/10.1", b"P/1.1", b"9"])


GOOD_METHODS = [b"GET", b"GET", b"GET", b"POST", b"HEAD", b"PUT", b"OPTIONS", b"DELETE", b"FOO", b"M" * 32, b"get", b"PURGE"]


def good_line(rng, relaxed):
    """a request line that is valid in the given mode (mostly)"""
    m = rng.choice(GOOD_METHODS)
    n = rng.choice([1, 1, 2, 3, 5, 8, 13, 30])
    u = b"/" + bytes(rng.choice(URI_STRICT) for _ in range(n - 1))
    if rng.random() < 0.15:
        u = b"http://h.example" + u
    if rng.random() < 0.08:
        u += rng.choice([b"1", b".1", b"9", b"HTTP/1", b"/1.1", b"P/1.1"])
    v = rng.choice([b"HTTP/1.1", b"HTTP/1.1", b"HTTP/1.1", b"HTTP/1.0", b"HTTP/1.5", b"HTTP/2.0", None])
    if v is None and rng.random() < 0.7:
        m = b"GET"
    d1 = d2 = b" "
    eol = b"\r\n"
    if relaxed and rng.random() < 0.4:
        d1 = rng.choice(DELIMS_RELAXED[:-2] + [b" "]) or b" "
        d2 = rng.choice(DELIMS_RELAXED[:-2] + [b" "]) or b" "
        eol = rng.choice([b"\r\n", b"\n", b"\r\r\n"])
    return m + d1 + u + (d2 + v if v is not None else b"") + eol


def rand_line(rng, relaxed):
    """request line including its terminator"""
    if rng.random() < 0.55:
        return good_line(rng, relaxed)
    m = rng.choice(METHODS) if rng.random() < 0.8 else bytes(rng.choice(TCHAR) for _ in range(rng.choice([1, 3, 7, 31, 32, 33])))
    dl = DELIMS_RELAXED if (relaxed and rng.random() < 0.7) else DELIMS_STRICT
    v = rng.choice(VERSIONS)
    u = rand_uri(rng)
    line = m + rng.choice(dl) + u
    if v is not None:
        line += rng.choice(dl) + v
    return line + rng.choice(EOLS)


HDR_NAMES = [b"Host", b"Accept", b"X-A", b"Content-Length", b"Connection", b"User-Agent"]


def rand_headers(rng, complete=None):
    """a header block; complete=True ends with an empty line"""
    out = b""
    if rng.random() < 0.1:
        out += rng.choice([b" leading ws line\r\n", b"\tx\r\n", b"\r garbage\r\n", b"\x0b\r\n", b" \r\n"])
    for _ in range(rng.choice([0, 0, 1, 1, 2, 3, 5])):
        ln = rng.choice(HDR_NAMES) + rng.choice([b": ", b":", b" : "]) + bytes(rng.choice(b"abcxyz019 ,;=") for _ in range(rng.choice([0, 1, 3, 8, 20])))
        if rng.random() < 0.15:
            ln += rng.choice([b"\r\n ", b"\n\t", b"\r\n  \t ", b"\r\r\n "]) + b"folded"
        out += ln + rng.choice([b"\r\n"] * 8 + [b"\n", b"\r\r\n", b"\r"])
    if complete is None:
        complete = rng.random() < 0.75
    if complete:
        out += rng.choice([b"\r\n"] * 6 + [b"\n", b"\n", b"\r\r\n", b"\r\n\r\n"])
    return out


def rand_head(rng, relaxed):
    lead = rng.choice(LEAD) if (relaxed or rng.random() < 0.3) else b""
    head = lead + rand_line(rng, relaxed) + rand_headers(rng)
    if rng.random() < 0.3:
        head += rng.choice([b"BODY", b"GET /next HTTP/1.1\r\n\r\n", b"\r\n", b"\n", b"x"])
    return head


def mutate_bytes(rng, b):
    b = bytearray(b)
    k = rng.random()
    if not b:
        return bytes([rng.randrange(256)])
    i = rng.randrange(len(b))
    if k < 0.45:
        b[i] = rng.choice([rng.randrange(256), 13, 10, 32, 9, 0, 11, 12, 48 + rng.randrange(10), 46, 47])
    elif k < 0.65:
        b.insert(i, rng.choice([rng.randrange(256), 13, 10, 32, 9]))
    elif k < 0.85:
        del b[i]
    else:
        del b[i:]
    return bytes(b)


def rand_split(rng, b):
    """list of segments whose concatenation is b"""
    n = len(b)
    k = rng.random()
    if n == 0:
        return [b""] if k < 0.5 else [b"", b""]
    if k < 0.15 and n <= 120:
        segs = [b[i:i + 1] for i in range(n)]           # byte by byte
    elif k < 0.5:
        p = rng.randrange(0, n + 1)
        segs = [b[:p], b[p:]]
    else:
        cuts = sorted(rng.randrange(0, n + 1) for _ in range(rng.choice([2, 2, 3, 4, 6])))
        segs = [b[i:j] for i, j in zip([0] + cuts, cuts + [n])]
    if rng.random() < 0.85:
        segs = [s for s in segs if s] or [b""]            # the real caller never parses after an empty read
    return segs


def split_at_interesting(rng, b):
    """cut right after / before CR and LF bytes and at the ends"""
    pts = [i for i, c in enumerate(b) if c in (13, 10)]
    if not pts:
        return rand_split(rng, b)
    cuts = sorted(set(min(len(b), max(0, rng.choice(pts) + rng.choice([0, 1, 1, 2]))) for _ in range(rng.choice([1, 1, 2, 3]))))
    segs = [b[i:j] for i, j in zip([0] + cuts, cuts + [len(b)])]
    return [s for s in segs if s] or [b""]


def sized_head(rng, relaxed, limit):
    """heads whose line / header block sizes bracket the limit"""
    k = rng.random()
    m = rng.choice([b"GET", b"POST", b"GET", b"M" * 32, b"FOO"])
    v = rng.choice([b" HTTP/1.1", b" HTTP/1.1", b" HTTP/1.0", b"", b" HTTP/2.0"])
    eol = rng.choice([b"\r\n", b"\r\n", b"\n"])
    d = rng.choice([-2, -1, 0, 1, 2, rng.randrange(-6, 40)])
    if k < 0.4:
        # request line (without LF) of length limit + d
        fixed = len(m) + 1 + 1 + len(v) + (len(eol) - 1)
        n = max(limit + d - fixed, 0)
        line = m + b" /" + bytes(rng.choice(b"abc/._-") for _ in range(n)) + v + eol
        tail = rand_headers(rng) if rng.random() < 0.6 else b""
        return line + tail
    if k < 0.8:
        # firstLineSize + header bytes = limit + d
        u = b"/" + bytes(rng.choice(b"abc") for _ in range(rng.choice([0, 1, 5])))
        line = m + b" " + u + (v or b" HTTP/1.1") + eol
        fls = len(m) + len(u) + 12
        want = max(limit + d - fls, 2)
        hdr = b"X: " + b"v" * max(want - 3 - 4, 0) + b"\r\n\r\n"
        if rng.random() < 0.3:
            hdr = hdr[:-2]          # incomplete block of about that size
        return line + hdr
    if k < 0.9:
        # no LF at all, length around the limit; sometimes a bad method or bad delimiter first (blame rule)
        pre = rng.choice([m + b" /", m + b"  /", m + b"/", b"\x01" + m + b" /", b"M" * 33 + b" /", m + b"\t/", m])
        return pre + b"u" * max(limit + d - len(pre), 0)
    # LF only far beyond the limit
    return m + b" /" + b"u" * (limit + rng.randrange(0, 50)) + v + eol + rand_headers(rng)


LIMITS_SMALL = [34, 35, 40, 48, 64, 64, 80, 100, 128, 200]


def gen_pair(rng):
    """(relaxed, limit, input bytes)"""
    relaxed = 1 if rng.random() < 0.6 else 0
    k = rng.random()
    if k < 0.45:
        limit = rng.choice([65536, 65536, 512, 200, 100, 64])
        b = rand_head(rng, relaxed)
    elif k < 0.65:
        limit = rng.choice([65536, 512, 100])
        b = rand_head(rng, relaxed)
        for _ in range(rng.choice([1, 1, 2, 3])):
            b = mutate_bytes(rng, b)
    elif k < 0.97:
        limit = rng.choice(LIMITS_SMALL)
        b = rng.choice(LEAD) + sized_head(rng, relaxed, limit)
        if rng.random() < 0.2:
            b = mutate_bytes(rng, b)
    else:
        # empty-line / CR / LF soup in front of a request (F2 family)
        limit = 65536
        b = bytes(rng.choice(b"\r\n\r\n \t") for _ in range(rng.randrange(0, 7))) + rand_head(rng, relaxed)
    return relaxed, limit, b


def gen_cases(rng, n):
    cases = []
    # a few larger cases (the extracted model is quadratic in the line length: TokModel uses List.rev)
    for d in (-1, 0, 1):
        for relaxed in (0, 1):
            b = b"GET /" + b"a" * (2048 + d - 5 - 9 - 1) + b" HTTP/1.1\r\n\r\n"
            p = rng.randrange(1, len(b))
            cases.append("rp.seg %d 2048 %s %s" % (relaxed, hx(b[:p]), hx(b[p:])))
    while len(cases) < n:
        relaxed, limit, b = gen_pair(rng)
        k = rng.random()
        if len(b) <= 24 and k < 0.3:
            for p in range(len(b) + 1):                     # every 2-way split of a short input
                cases.append("rp.seg %d %d %s %s" % (relaxed, limit, hx(b[:p]), hx(b[p:])))
            continue
        segs = split_at_interesting(rng, b) if k < 0.55 else rand_split(rng, b)
        cases.append("rp.seg %d %d %s" % (relaxed, limit, " ".join(hx(s) for s in segs)))
    return cases[:n]


# ------------------------------------------------------------------ parsing of observation lines
OBS_KEYS = ["kind", "stage", "code", "mid", "mimg", "uri", "http", "ver", "mime", "fls", "rem", "unfed"]


def parse_obs(s):
    f = s.split(",")
    if len(f) != len(OBS_KEYS):
        raise ValueError("bad observation " + s[:80])
    return dict(zip(OBS_KEYS, f))


def parse_seg_out(out):
    w, i = out.split(" ")
    if not (w.startswith("W=") and i.startswith("I=")):
        raise ValueError("bad line")
    return parse_obs(w[2:]), parse_obs(i[2:])


def oracle(case, out):
    """C21 itself on the implementation's answers: the caller's loop over the segments must end in the
    outcome of one parse() of the concatenation."""
    if out.startswith(("CRASH", "EXC", "ERR")) or "BAD-" in out:
        return ("oracle:crash", "implementation crashed / threw / broke its own accounting: " + out[:200])
    a = case.split()
    if a[0] != "rp.seg":
        return None
    try:
        w, i = parse_seg_out(out)
    except Exception as ex:
        return ("oracle:unparsable", "unparsable implementation output %r (%s)" % (out[:100], ex))
    if w["kind"] == i["kind"] == "R" and int(a[2]) < 34 and {w["code"], i["code"]} == {"400", "414"}:
        # known: with request_header_max_size < maxMethodLength + 2 the blame rule (400 vs 414) sees a shorter window
        return ("oracle:blame-window-small-limit", "limit %s < 34: blame rule answers %s one-shot but %s incrementally"
                % (a[2], w["code"], i["code"]))
    if w["kind"] != i["kind"]:
        return ("oracle:kind", "one-shot outcome %s but incremental outcome %s" % (w["kind"], i["kind"]))
    fields = ["code", "mid", "mimg", "uri", "http", "ver", "mime"]
    for k in fields:
        if w[k] != i[k]:
            return ("oracle:" + k, "%s differs: one-shot %s, incremental %s" % (k, w[k][:60], i[k][:60]))
    if w["kind"] == "M":
        if w["stage"] != i["stage"] or w["rem"] != i["rem"]:
            return ("oracle:checkpoint", "need-more checkpoints differ: one-shot %s/%s, incremental %s/%s"
                    % (w["stage"], w["rem"][:40], i["stage"], i["rem"][:40]))
    elif w["kind"] == "A":
        if unhx(w["rem"]) != unhx(i["rem"]) + unhx(i["unfed"]):
            return ("oracle:consumed", "consumed length differs: one-shot leaves %d bytes, incremental %d"
                    % (len(unhx(w["rem"])), len(unhx(i["rem"]) + unhx(i["unfed"]))))
    return None


def mutate(rng, case):
    a = case.split()
    segs = [unhx(x) for x in a[3:]]
    k = rng.random()
    if k < 0.5:
        b = mutate_bytes(rng, b"".join(segs))
        segs = rand_split(rng, b)
    elif k < 0.8:
        segs = split_at_interesting(rng, b"".join(segs))
    else:
        a[2] = str(max(1, int(a[2]) + rng.choice([-2, -1, 1, 2])))
    return " ".join(a[:3] + [hx(s) for s in segs])


def kind_fn(c, o):
    try:
        w, i = parse_seg_out(o)
        return ("relaxed" if c.split()[1] == "1" else "strict") + ":" + w["kind"] + (w["code"] if w["kind"] == "R" else "")
    except Exception:
        return "other"


def nontrivial(c, o):
    # more than one non-empty segment and the parser got past the empty-line stage
    return len([x for x in c.split()[3:] if x != "-"]) >= 2 and not o.startswith("W=M,N")


def run(res, tier):
    res.rule = ("(input, segmentation) pairs: grammar-generated request heads (garbage prefixes, CR/LF variants, all delimiter "
                "kinds, version forms, header blocks with folds) + byte mutations + heads sized at limit-2..+2 (limits 34..512 "
                "and 65536) x {every 2-way split of short inputs, cuts next to CR/LF, random k-way, byte-by-byte}, strict and "
                "relaxed; a case is non-trivial when it has >= 2 non-empty segments and parsing got past leading empty lines")
    std.run_standard(res, PID, tier, area="reqparse", build_impl=impl, gen_cases=gen_cases, oracle=oracle,
                     corr_name="ReqparseModel vs src/http/one/RequestParser.cc, Parser.cc, mime_header.cc, http/RequestMethod.cc",
                     gens=["charsets", "reqparse"], n_quick=16000, n_thorough=400000, seed_salt=21, mutate=mutate,
                     kind_fn=kind_fn, nontrivial_fn=nontrivial)
