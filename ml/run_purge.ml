(* handlers for the purge area (C20). Byte strings in hex ("-" = empty); an absent header is "~". *)
let opt_hex (s : string) : n list option = if s = "~" then None else Some (bytes_of_hex s)
let bits (l : bool list) : string = String.concat "" (List.map b2s l)

let () =
  (* purge.run <method> <status> <scheme> <authority> <path> <location|~> <content-location|~> <cand>...
     -> "ok <one refetch bit per candidate>" *)
  reg "purge.run" (fun (m :: st :: sch :: auth :: path :: loc :: cloc :: cands) ->
      let rq = request_of true (bytes_of_hex m) (bytes_of_hex sch) (bytes_of_hex auth) (bytes_of_hex path) in
      let rp = { rp_status = n_of_string st; rp_location = opt_hex loc; rp_content_location = opt_hex cloc } in
      "ok " ^ bits (refetched rq rp (List.map bytes_of_hex cands)));
  reg "purge.keys" (fun [m; st; sch; auth; path; loc; cloc] ->
      let rq = request_of true (bytes_of_hex m) (bytes_of_hex sch) (bytes_of_hex auth) (bytes_of_hex path) in
      let rp = { rp_status = n_of_string st; rp_location = opt_hex loc; rp_content_location = opt_hex cloc } in
      String.concat " " (List.map (fun (i, u) -> string_of_n i ^ ":" ^ hex_of_bytes u) (evicted_keys rq rp)));
  reg "purge.method" (fun [relaxed; m] ->
      let i = method_of_image (relaxed = "1") (bytes_of_hex m) in
      string_of_n i ^ " " ^ b2s (should_invalidate i) ^ b2s (purges_others i) ^ b2s (resp_maybe_cacheable i));
  reg "purge.samehost" (fun [a; b] -> b2s (same_url_hosts (bytes_of_hex a) (bytes_of_hex b)));
  reg "purge.isrel" (fun [a] -> b2s (url_is_relative (bytes_of_hex a)));
  reg "purge.encode" (fun [a] -> hex_of_bytes (encode_path (bytes_of_hex a)));
  (* purge.resolve <front> <path> <ref> <warm:0|1> -> absolute() of a copy of the Uri after path(ref) / addRelativePath(ref);
     warm=1: absolute() had been called on the original before (as maybePurgeOthers does) *)
  reg "purge.resolve" (fun [front; path; r; warm] ->
      let u0 = { u_front = bytes_of_hex front; u_httpx = true; u_urn = false; u_path = bytes_of_hex path;
                 u_abs_cache = []; u_abspath_cache = [] } in
      let u = if warm = "1" then snd (uri_absolute u0) else u0 in
      let rb = bytes_of_hex r in
      let u' = (match rb with c :: _ when int_of_n c = 47 -> uri_set_path rb u | _ -> uri_add_relative_path rb u) in
      hex_of_bytes (fst (uri_absolute u')))
