(* RetryProofs.v — proofs about the FwdState attempt machine (C07). *)
Require Import List NArith Bool Lia.
Require Import SquidV.Bytes SquidV.RetryModel.
Require Import SquidV.gen.RetryMethods_gen.
Import ListNotations.
Local Open Scope N_scope.

(* ---------- the method table ---------- *)
(* POST and extension methods (PATCH included: it is not a registered method in this tree) are neither safe nor
   idempotent per the regenerated table; GET is both *)
Lemma post_and_other_nonidempotent :
  method_safe rm_METHOD_POST = false /\ method_idem rm_METHOD_POST = false /\
  method_safe rm_METHOD_OTHER = false /\ method_idem rm_METHOD_OTHER = false /\
  rm_ext_is_other = true /\ rm_ext_attrs = (false, false) /\
  method_of_image rm_methods [80;65;84;67;72] = rm_METHOD_OTHER /\
  method_of_image rm_methods [80;79;83;84] = rm_METHOD_POST.
Proof. vm_compute. repeat split; reflexivity. Qed.

Lemma nonidempotent_not_retriable r :
  method_safe (r_method r) = false -> method_idem (r_method r) = false -> check_retriable r = false.
Proof. intros A B. unfold check_retriable. rewrite A, B. destruct (r_body r); reflexivity. Qed.

Lemma body_not_retriable r : r_body r = true -> check_retriable r = false.
Proof. intros A. unfold check_retriable. rewrite A. reflexivity. Qed.

(* ---------- views of a state ---------- *)
Definition pending (p : phase) : bool := match p with PhIdle | PhConnecting => true | _ => false end.
Definition active (p : phase) : bool := match p with PhSent _ | PhGotHeaders _ => true | _ => false end.

Lemma active_not_pending p : active p = true -> pending p = false.
Proof. destruct p; simpl; congruence. Qed.
Lemma pending_not_active p : pending p = true -> active p = false.
Proof. destruct p; simpl; congruence. Qed.

Definition same3 (s s' : st) : Prop :=
  s_cok s' = s_cok s /\ s_nibbled s' = s_nibbled s /\ s_hdr_wait s' = s_hdr_wait s.

Lemma same3_refl s : same3 s s.
Proof. repeat split. Qed.
Lemma same3_trans a b c : same3 a b -> same3 b c -> same3 a c.
Proof. unfold same3. intros [A1 [A2 A3]] [B1 [B2 B3]]. repeat split; congruence. Qed.

Lemma fail_view s e : s_phase (fail s e) = s_phase s /\ same3 s (fail s e).
Proof.
  unfold fail, same3. destruct e; simpl; try (repeat split; reflexivity).
  destruct (s_race s); simpl; try (repeat split; reflexivity).
  destruct (s_receipt s); simpl; repeat split; reflexivity.
Qed.

Lemma check_retry_true c r s :
  check_retry c r s = true -> s_nibbled s = false /\ (s_cok s = false \/ check_retriable r = true).
Proof.
  unfold check_retry. intros H.
  destruct (s_shutting s); [discriminate|].
  destruct (negb (s_entry_empty s)); [discriminate|].
  destruct (exhausted c s); [discriminate|].
  destruct (s_pinned s); [discriminate|].
  destruct (s_timeup s); [discriminate|].
  destruct (s_dont_retry s); [discriminate|].
  destruct (s_nibbled s); [discriminate|].
  split; [reflexivity|].
  destruct (s_cok s); simpl in H; [right; exact H | left; reflexivity].
Qed.

Lemma reforward_true c s : reforward c s = true -> s_nibbled s = false /\ s_hdr_wait s = true.
Proof.
  unfold reforward. intros H.
  destruct (s_pinned s); [discriminate|].
  destruct (s_hdr_wait s); simpl in H; [|discriminate].
  destruct (exhausted c s); [discriminate|].
  destruct (s_nibbled s); [discriminate|].
  split; reflexivity.
Qed.

Definition quiet_end (s s' : st) : Prop :=
  same3 s s' /\ (pending (s_phase s') = true \/ s_phase s' = PhDone).

Lemma hc_give_up_view c r s : quiet_end s (hc_give_up c r s).
Proof.
  unfold quiet_end, hc_give_up, finish.
  destruct (fail_view (set_dont_retry s) (match s_hc_lasterr s with Some e => e | None => ErrGateway end)) as [_ [A [B C]]].
  split; [|right; reflexivity].
  unfold same3 in *. simpl in *. repeat split; assumption.
Qed.

Lemma hc_check_view c r s : quiet_end s (hc_check c r s).
Proof.
  unfold hc_check.
  destruct (hc_ran_out c s); [apply hc_give_up_view|].
  destruct (andb (no_paths s) (negb (s_subscribed s))); [apply hc_give_up_view|].
  split; [repeat split | left; reflexivity].
Qed.

Lemma connect_start_view c r s : quiet_end s (connect_start c r s).
Proof.
  unfold connect_start.
  match goal with |- quiet_end s (hc_check c r ?x) => destruct (hc_check_view c r x) as [[A [B C]] D] end.
  split; [|exact D]. unfold same3 in *. simpl in *. repeat split; assumption.
Qed.

Lemma use_destinations_view c r s : quiet_end s (use_destinations c r s).
Proof.
  unfold use_destinations.
  destruct (negb (no_paths s)); [apply connect_start_view|].
  destruct (s_subscribed s).
  - split; [repeat split | left; reflexivity].
  - unfold finish. split; [|right; reflexivity].
    destruct (s_err s); [repeat split|].
    destruct (fail_view s ErrCannotForward) as [_ [A [B C]]]. unfold same3 in *; simpl; repeat split; assumption.
Qed.

Lemma retry_or_bail_view c r s :
  same3 s (retry_or_bail c r s) /\
  (s_phase (retry_or_bail c r s) = PhDone \/
   (pending (s_phase (retry_or_bail c r s)) = true /\ s_nibbled s = false /\ (s_cok s = false \/ check_retriable r = true))).
Proof.
  unfold retry_or_bail. destruct (check_retry c r s) eqn:E.
  - destruct (use_destinations_view c r s) as [A [B|B]].
    + split; [exact A|]. right. destruct (check_retry_true _ _ _ E) as [N C]. auto.
    + split; [exact A|]. left; exact B.
  - unfold finish. split; [repeat split | left; reflexivity].
Qed.

(* ---------- what one step can do ---------- *)
Record summary (c : cfg) (r : req) (e : event) (s s' : st) (o : list out) : Prop := {
  sm_sends : sends o = 0 \/
             (sends o = 1 /\ reforwards o = 0 /\ pending (s_phase s) = true /\ active (s_phase s') = true /\
              s_cok s' = true /\ s_nibbled s' = s_nibbled s /\ s_hdr_wait s' = s_hdr_wait s);
  sm_nosend : sends o = 0 -> s_cok s' = s_cok s;
  sm_refw : reforwards o = 0 \/
            (reforwards o = 1 /\ sends o = 0 /\ active (s_phase s) = true /\ s_hdr_wait s = true /\ s_nibbled s = false);
  sm_pending : sends o = 0 -> reforwards o = 0 -> pending (s_phase s') = true ->
               pending (s_phase s) = true \/
               (active (s_phase s) = true /\ s_nibbled s = false /\ (s_cok s = false \/ check_retriable r = true));
  sm_active : sends o = 0 -> active (s_phase s') = true -> active (s_phase s) = true;
  sm_nibbled : s_nibbled s = true -> s_nibbled s' = true;
  sm_nibble_set : s_nibbled s = false -> s_nibbled s' = true -> active (s_phase s') = true /\ o = [];
  sm_hdr : s_hdr_wait s' = true ->
           s_hdr_wait s = true \/ (exists status, e = EvHeaders status /\ reforwardable c status = true)
}.

Lemma phase_cases s s' :
  (s_phase s' = s_phase s \/ s_phase s' = PhDone) ->
  (pending (s_phase s') = true -> pending (s_phase s) = true) /\ (active (s_phase s') = true -> active (s_phase s) = true).
Proof. intros [H|H]; rewrite H; simpl; split; intros; congruence. Qed.

(* nothing sent, flags unchanged, phase unchanged or ended *)
Lemma summary_quiet c r e s s' :
  same3 s s' -> (s_phase s' = s_phase s \/ s_phase s' = PhDone) -> summary c r e s s' [].
Proof.
  intros [A [B C]] P. destruct (phase_cases s s' P) as [P1 P2].
  constructor; simpl; intros; auto; try congruence; try (left; congruence).
Qed.

(* nothing sent from a pending phase *)
Lemma summary_pending c r e s s' :
  quiet_end s s' -> pending (s_phase s) = true -> summary c r e s s' [].
Proof.
  intros [[A [B C]] P] Q.
  constructor; simpl; intros; auto; try congruence; try (left; congruence).
  destruct P as [P|P].
  - apply active_not_pending in H0. congruence.
  - rewrite P in H0. discriminate.
Qed.

(* a failure exit of an active phase: ended, or back to a pending phase because checkRetry() said yes *)
Lemma summary_retry c r e s s' :
  same3 s s' -> active (s_phase s) = true ->
  (s_phase s' = PhDone \/
   (pending (s_phase s') = true /\ s_nibbled s = false /\ (s_cok s = false \/ check_retriable r = true))) ->
  summary c r e s s' [].
Proof.
  intros [A [B C]] Q P.
  constructor; simpl; intros; auto; try congruence; try (left; congruence).
  - destruct P as [P|[P1 [P2 P3]]]; [rewrite P in *; discriminate | right; auto].
Qed.

Lemma summary_send c r e s s' o :
  pending (s_phase s) = true -> active (s_phase s') = true -> s_cok s' = true ->
  s_nibbled s' = s_nibbled s -> s_hdr_wait s' = s_hdr_wait s ->
  sends o = 1 -> reforwards o = 0 -> summary c r e s s' o.
Proof.
  intros P A K N H S R.
  constructor; intros; auto; try congruence; try lia.
  - right. auto 10.
  - left. congruence.
Qed.

Lemma dispatch_view s d reused s' o :
  dispatch s d reused = (s', o) ->
  active (s_phase s') = true /\ s_cok s' = true /\ s_nibbled s' = s_nibbled s /\ s_hdr_wait s' = s_hdr_wait s /\
  o = [OSend d reused].
Proof. unfold dispatch. intros H. inversion H; subst; clear H. simpl. auto. Qed.

Lemma note_connection_summary c r e s0 s d reused closing s' o :
  pending (s_phase s0) = true -> s_phase s = s_phase s0 -> same3 s0 s ->
  note_connection c r s d reused closing = (s', o) ->
  (summary c r e s0 s' o /\ (o = [] \/ o = [OSend d reused])).
Proof.
  intros P PH S3 H. unfold note_connection in H. destruct closing.
  - inversion H; subst; clear H. split; [|left; reflexivity].
    apply summary_pending; [|exact P].
    match goal with |- quiet_end _ (retry_or_bail c r ?x) =>
      destruct (retry_or_bail_view c r x) as [A B]; assert (SX : same3 s0 x) end.
    { destruct reused.
      - match goal with |- same3 _ (fail ?y _) => destruct (fail_view y ErrCannotForward) as [_ F] end.
        eapply same3_trans; [|exact F]. destruct S3 as [S1 [S2 S4]]. repeat split; simpl; assumption.
      - destruct (fail_view s ErrCannotForward) as [_ F]. eapply same3_trans; [exact S3 | exact F]. }
    split; [eapply same3_trans; eassumption|].
    destruct B as [B|[B _]]; auto.
  - apply dispatch_view in H. destruct H as [A [K [N [Hh O]]]]. subst o. split; [|right; reflexivity].
    destruct S3 as [S1 [S2 S4]]. simpl in N, Hh.
    apply summary_send; auto; try congruence.
Qed.

Lemma add_close c r e s s' o d :
  summary c r e s s' o -> pending (s_phase s) = true -> (o = [] \/ exists d' re, o = [OSend d' re]) ->
  summary c r e s s' (OClosePconn d :: o).
Proof.
  intros SM P O.
  assert (E1 : sends (OClosePconn d :: o) = sends o) by reflexivity.
  assert (E2 : reforwards (OClosePconn d :: o) = reforwards o) by reflexivity.
  destruct SM. constructor; try rewrite E1; try rewrite E2; auto.
  intros N1 N2. exfalso. destruct (sm_nibble_set0 N1 N2) as [A B].
  destruct O as [O|[d' [re O]]]; subst o; [|discriminate].
  apply sm_active0 in A; [|reflexivity]. apply pending_not_active in P. congruence.
Qed.

Lemma hc_attempt_summary c r e s pi ok cl s' o :
  s_phase s = PhConnecting -> hc_attempt c r s pi ok cl = (s', o) -> summary c r e s s' o.
Proof.
  intros PH H. unfold hc_attempt in H.
  assert (P : pending (s_phase s) = true) by (rewrite PH; reflexivity).
  destruct (first_avail (s_paths s) 0) as [d|].
  2:{ inversion H; subst. apply summary_quiet; [apply same3_refl | left; reflexivity]. }
  cbv zeta in H.
  set (s0 := set_paths s (set_avail (s_paths s) d false)) in *.
  change (s_hc_allow_pconn s0) with (s_hc_allow_pconn s) in H.
  change (s_hc_retriable s0) with (s_hc_retriable s) in H.
  assert (QUIET : forall x, same3 s x ->
            summary c r e s (hc_check c r x) []).
  { intros x SX. destruct (hc_check_view c r x) as [A B].
    apply summary_pending; [|exact P]. split; [eapply same3_trans; eassumption | exact B]. }
  destruct (s_hc_allow_pconn s && pi) eqn:POP; simpl in H.
  - destruct (s_hc_retriable s).
    + eapply (note_connection_summary c r e s) in H; [destruct H as [H _]; exact H | exact P | reflexivity | repeat split].
    + destruct ok.
      * match type of H with context [note_connection ?a ?b ?x ?dd ?re ?c2] =>
          destruct (note_connection a b x dd re c2) as [s2 o2] eqn:NC end.
        inversion H; subst; clear H.
        eapply (note_connection_summary c r e s) in NC; [| exact P | reflexivity | repeat split].
        destruct NC as [SM O2]. apply add_close; auto.
        destruct O2 as [O2|O2]; [left; exact O2 | right; eauto].
      * inversion H; subst; clear H. apply add_close; auto. apply QUIET. repeat split.
  - destruct ok.
    + match type of H with context [note_connection ?a ?b ?x ?dd ?re ?c2] =>
          destruct (note_connection a b x dd re c2) as [s2 o2] eqn:NC end.
      inversion H; subst; clear H. simpl.
      eapply (note_connection_summary c r e s) in NC; [destruct NC as [SM _]; exact SM | exact P | reflexivity | repeat split].
    + inversion H; subst; clear H. apply QUIET. repeat split.
Qed.

Lemma step_summary c r s e s' o : step c r s e = (s', o) -> summary c r e s s' o.
Proof.
  intros H. unfold step in H.
  destruct (s_phase s) eqn:PH.
  (* ---- PhIdle ---- *)
  - assert (P : pending (s_phase s) = true) by (rewrite PH; reflexivity).
    destruct e; try (inversion H; subst; apply summary_quiet; [apply same3_refl | left; simpl; congruence]).
    + (* EvNewDest *)
      destruct (negb (s_subscribed s)); inversion H; subst; clear H;
        [apply summary_quiet; [apply same3_refl | left; simpl; congruence]|].
      apply summary_pending; [|exact P].
      match goal with |- quiet_end s (use_destinations c r ?x) => destruct (use_destinations_view c r x) as [A B] end.
      split; [|exact B]. eapply same3_trans; [|exact A]. repeat split.
    + (* EvDestsEnd *)
      destruct (negb (s_subscribed s)); [inversion H; subst; apply summary_quiet; [apply same3_refl | left; simpl; congruence]|].
      simpl in H.
      destruct (negb (s_found s)); inversion H; subst; clear H; apply summary_pending; try exact P; unfold finish.
      * match goal with |- quiet_end s (set_phase (fail ?x ?er) _) => destruct (fail_view x er) as [_ [A [B C]]] end.
        split; [|right; reflexivity]. unfold same3 in *; simpl in *; repeat split; assumption.
      * split; [|right; reflexivity].
        destruct (s_err s); simpl; [repeat split|].
        match goal with |- same3 s (set_phase (fail ?x ?er) _) => destruct (fail_view x er) as [_ [A [B C]]] end.
        unfold same3 in *; simpl in *; repeat split; assumption.
    + (* EvStartPinned *)
      destruct (orb (s_found s) (negb (s_subscribed s))); [inversion H; subst; apply summary_quiet; [apply same3_refl | left; simpl; congruence]|].
      destruct (negb ok).
      * inversion H; subst; clear H. apply summary_pending; [|exact P]. unfold finish.
        match goal with |- quiet_end s (set_phase (fail ?x ?er) _) => destruct (fail_view x er) as [_ [A [B C]]] end.
        split; [|right; reflexivity]. unfold same3 in *; simpl in *; repeat split; assumption.
      * apply dispatch_view in H. destruct H as [A [K [N [Hh O]]]]. subst o. simpl in N, Hh.
        apply summary_send; auto.
    + (* EvAbort *)
      inversion H; subst. apply summary_quiet; [repeat split | right; reflexivity].
    + inversion H; subst. apply summary_quiet; [repeat split | left; simpl; congruence].
    + inversion H; subst. apply summary_quiet; [repeat split | left; simpl; congruence].
  (* ---- PhConnecting ---- *)
  - assert (P : pending (s_phase s) = true) by (rewrite PH; reflexivity).
    destruct e; try (inversion H; subst; apply summary_quiet; [apply same3_refl | left; simpl; congruence]).
    + destruct (negb (s_subscribed s)); inversion H; subst; clear H;
        apply summary_quiet; try apply same3_refl; try (left; simpl; congruence). repeat split.
    + destruct (negb (s_subscribed s)); [inversion H; subst; apply summary_quiet; [apply same3_refl | left; simpl; congruence]|].
      simpl in H.
      destruct (negb (s_found s)); inversion H; subst; clear H; apply summary_pending; try exact P.
      * unfold finish.
        match goal with |- quiet_end s (set_phase (fail ?x ?er) _) => destruct (fail_view x er) as [_ [A [B C]]] end.
        split; [|right; reflexivity]. unfold same3 in *; simpl in *; repeat split; assumption.
      * match goal with |- quiet_end s (hc_check c r ?x) => destruct (hc_check_view c r x) as [A B] end.
        split; [|exact B]. eapply same3_trans; [|exact A]. repeat split.
    + (* EvConn *) eapply hc_attempt_summary; eassumption.
    + inversion H; subst. apply summary_quiet; [repeat split | right; reflexivity].
    + inversion H; subst. apply summary_quiet; [repeat split | left; simpl; congruence].
    + inversion H; subst. apply summary_quiet; [repeat split | left; simpl; congruence].
  (* ---- PhSent ---- *)
  - assert (P : active (s_phase s) = true) by (rewrite PH; reflexivity).
    destruct e; try (inversion H; subst; apply summary_quiet; [apply same3_refl | left; simpl; congruence]).
    + destruct (negb (s_subscribed s)); inversion H; subst; clear H;
        apply summary_quiet; try apply same3_refl; try (left; simpl; congruence). repeat split.
    + destruct (negb (s_subscribed s)); [inversion H; subst; apply summary_quiet; [apply same3_refl | left; simpl; congruence]|].
      simpl in H.
      destruct (negb (s_found s)); inversion H; subst; clear H.
      * apply summary_quiet; [|right; reflexivity]. unfold finish.
        match goal with |- same3 s (set_phase (fail ?x ?er) _) => destruct (fail_view x er) as [_ [A [B C]]] end.
        unfold same3 in *; simpl in *; repeat split; assumption.
      * apply summary_quiet; [repeat split | left; simpl; congruence].
    + (* EvBodyConsumed *)
      destruct (r_body r); inversion H; subst; clear H; [|apply summary_quiet; [apply same3_refl | left; simpl; congruence]].
      constructor; simpl; intros; auto; try congruence; try (left; congruence).
    + (* EvFail *)
      inversion H; subst; clear H.
      match goal with |- summary _ _ _ _ (retry_or_bail c r ?x) _ =>
        destruct (retry_or_bail_view c r x) as [A B]; assert (SX : same3 s x) end.
      { destruct k; simpl;
          try (match goal with |- same3 s (fail ?y ?er) => destruct (fail_view y er) as [_ F] end;
               eapply same3_trans; [|exact F]; repeat split);
          repeat split. }
      apply summary_retry; [eapply same3_trans; eassumption | exact P |].
      destruct SX as [X1 [X2 X3]].
      destruct B as [B|[B1 [B2 B3]]]; [left; exact B | right]. rewrite <- X1, <- X2. auto.
    + (* EvHeaders *)
      inversion H; subst; clear H.
      constructor; simpl; intros; auto; try congruence; try (left; congruence).
      destruct (s_hdr_wait s); [left; reflexivity|]. simpl in H. right. exists status. auto.
    + inversion H; subst. apply summary_quiet; [repeat split | right; reflexivity].
    + inversion H; subst. apply summary_quiet; [repeat split | left; simpl; congruence].
    + inversion H; subst. apply summary_quiet; [repeat split | left; simpl; congruence].
  (* ---- PhGotHeaders ---- *)
  - assert (P : active (s_phase s) = true) by (rewrite PH; reflexivity).
    destruct e; try (inversion H; subst; apply summary_quiet; [apply same3_refl | left; simpl; congruence]).
    + destruct (negb (s_subscribed s)); inversion H; subst; clear H;
        apply summary_quiet; try apply same3_refl; try (left; simpl; congruence). repeat split.
    + destruct (negb (s_subscribed s)); [inversion H; subst; apply summary_quiet; [apply same3_refl | left; simpl; congruence]|].
      simpl in H.
      destruct (negb (s_found s)); inversion H; subst; clear H.
      * apply summary_quiet; [|right; reflexivity]. unfold finish.
        match goal with |- same3 s (set_phase (fail ?x ?er) _) => destruct (fail_view x er) as [_ [A [B C]]] end.
        unfold same3 in *; simpl in *; repeat split; assumption.
      * apply summary_quiet; [repeat split | left; simpl; congruence].
    + destruct (r_body r); inversion H; subst; clear H; [|apply summary_quiet; [apply same3_refl | left; simpl; congruence]].
      constructor; simpl; intros; auto; try congruence; try (left; congruence).
    + inversion H; subst; clear H.
      match goal with |- summary _ _ _ _ (retry_or_bail c r ?x) _ =>
        destruct (retry_or_bail_view c r x) as [A B]; assert (SX : same3 s x) end.
      { destruct k; simpl;
          try (match goal with |- same3 s (fail ?y ?er) => destruct (fail_view y er) as [_ F] end;
               eapply same3_trans; [|exact F]; repeat split);
          repeat split. }
      apply summary_retry; [eapply same3_trans; eassumption | exact P |].
      destruct SX as [X1 [X2 X3]].
      destruct B as [B|[B1 [B2 B3]]]; [left; exact B | right]. rewrite <- X1, <- X2. auto.
    + (* EvHdrWaitCleared *)
      inversion H; subst; clear H.
      constructor; simpl; intros; auto; try congruence; try (left; congruence).
    + (* EvComplete *)
      set (s1 := if premature then fail s ErrRead else s) in *.
      assert (S1 : same3 s s1 /\ s_phase s1 = s_phase s).
      { unfold s1. destruct premature; [destruct (fail_view s ErrRead) as [A B]; auto | split; [apply same3_refl | reflexivity]]. }
      destruct S1 as [[X1 [X2 X3]] XP].
      destruct (reforward c s1) eqn:RF; inversion H; subst; clear H.
      * destruct (reforward_true _ _ RF) as [N W].
        match goal with |- summary _ _ _ _ (use_destinations c r ?x) _ =>
          destruct (use_destinations_view c r x) as [[A1 [A2 A3]] B] end.
        simpl in A1, A2, A3.
        constructor; simpl; intros; auto; try congruence; try lia.
        -- right. repeat split; auto; congruence.
        -- discriminate.
        -- destruct B as [B|B]; [apply active_not_pending in H0; congruence | rewrite B in H0; discriminate].
        -- congruence.
        -- congruence.
        -- left. congruence.
      * apply summary_quiet; [repeat split; simpl; assumption | right; reflexivity].
    + inversion H; subst. apply summary_quiet; [repeat split | right; reflexivity].
    + inversion H; subst. apply summary_quiet; [repeat split | left; simpl; congruence].
    + inversion H; subst. apply summary_quiet; [repeat split | left; simpl; congruence].
  (* ---- PhDone ---- *)
  - inversion H; subst. apply summary_quiet; [apply same3_refl | left; simpl; congruence].
Qed.
