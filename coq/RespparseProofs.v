(* RespparseProofs.v — proofs about RespparseModel.v (C23).
   1. a generic lemma: stability under extension + checkpoint commutation
      => the read loop is independent of segmentation;
   2. stability / commutation lemmas for every stage of the response parser;
   3. the status-line grammar characterisation and the HTTP/0.9 rule. *)
Require Import SquidV.Bytes SquidV.TokModel SquidV.TokProofs SquidV.Int64Proofs SquidV.RespparseModel.
Require Import SquidV.gen.CharSets_gen SquidV.gen.RespTabs_gen.
Require Import ZifyBool ZifyN ZifyNat.
Local Open Scope N_scope.

(* ================= 1. generic incremental-parsing lemma ================= *)
Section Incremental.
  Variable P : pst -> bytes -> outcome.
  Variable Inv : pst -> Prop.
  Hypothesis done_stable : forall s b f rest, Inv s -> P s b = Done f rest ->
    forall x, P s (b ++ x) = Done f (rest ++ x).
  Hypothesis bad_stable : forall s b c st, Inv s -> P s b = Bad c st ->
    forall x, P s (b ++ x) = Bad c st.
  Hypothesis more_commutes : forall s b s1 keep, Inv s -> P s b = More s1 keep ->
    Inv s1 /\ forall x, P s (b ++ x) = P s1 (keep ++ x).

  Fixpoint gdrive (s : pst) (buf : bytes) (segs : list bytes) : outcome :=
    match segs with
    | [] => More s buf
    | x :: more =>
        match P s (buf ++ x) with
        | More s1 keep => gdrive s1 keep more
        | Done f rest => Done f (rest ++ concat more)
        | Bad c st => Bad c st
        end
    end.

  Lemma gdrive_whole : forall segs s buf, Inv s -> segs <> [] ->
    gdrive s buf segs = P s (buf ++ concat segs).
  Proof.
    induction segs as [|x more IH]; intros s buf Hinv Hne; [congruence|].
    cbn [gdrive concat]. destruct (P s (buf ++ x)) as [s1 keep|f rest|c st] eqn:E.
    - destruct (more_commutes _ _ _ _ Hinv E) as [Hinv1 Hc].
      destruct more as [|y more'].
      + cbn [gdrive concat]. rewrite app_nil_r. symmetry. exact E.
      + rewrite IH by (auto; discriminate). rewrite app_assoc. symmetry. apply Hc.
    - rewrite app_assoc. symmetry. apply done_stable; assumption.
    - rewrite app_assoc. symmetry. apply bad_stable; assumption.
  Qed.
End Incremental.

(* ================= 2. list / tokenizer stability lemmas ================= *)
Lemma takeN_app_le {A} n (a b : list A) : n <= lenN a -> takeN n (a ++ b) = takeN n a.
Proof.
  revert n; induction a as [|x a IH]; intros n H; cbn [lenN] in H.
  - assert (n = 0) by lia. subst. cbn [app]. rewrite takeN_0. reflexivity.
  - cbn [app takeN]. destruct (n =? 0) eqn:E; [reflexivity|]. apply N.eqb_neq in E.
    rewrite IH by lia. reflexivity.
Qed.

Lemma dropN_app_le {A} n (a b : list A) : n <= lenN a -> dropN n (a ++ b) = dropN n a ++ b.
Proof.
  revert n; induction a as [|x a IH]; intros n H; cbn [lenN] in H.
  - assert (n = 0) by lia. subst. cbn [app]. rewrite dropN_0. reflexivity.
  - cbn [app dropN]. destruct (n =? 0) eqn:E; [reflexivity|]. apply N.eqb_neq in E.
    rewrite IH by lia. reflexivity.
Qed.

Lemma dropN_nonnil_lt {A} n (l : list A) : dropN n l <> [] -> n < lenN l.
Proof.
  intros H. destruct (N.lt_ge_cases n (lenN l)) as [|Hge]; [assumption|].
  rewrite dropN_all in H by lia. congruence.
Qed.

Lemma starts_with_app l p x : starts_with l p = true -> starts_with (l ++ x) p = true.
Proof.
  revert l; induction p as [|y p IH]; intros l H; [destruct (l ++ x); reflexivity|].
  destruct l as [|c l]; cbn [starts_with app] in *; [discriminate|].
  apply andb_true_iff in H as [H1 H2]. rewrite H1, IH by assumption. reflexivity.
Qed.

Lemma starts_with_len l p : starts_with l p = true -> lenN p <= lenN l.
Proof.
  revert l; induction p as [|y p IH]; intros l H; cbn [lenN]; [lia|].
  destruct l as [|c l]; cbn [starts_with lenN] in *; [discriminate|].
  apply andb_true_iff in H as [_ H2]. apply IH in H2. lia.
Qed.

(* two strings neither of which is a prefix of the other stay so under extension *)
Lemma incomparable_app l p x :
  starts_with l p = false -> starts_with p l = false ->
  starts_with (l ++ x) p = false /\ starts_with p (l ++ x) = false.
Proof.
  revert p; induction l as [|c l IH]; intros p H1 H2.
  - destruct p; cbn in H2; discriminate.
  - destruct p as [|y p]; [cbn in H1; discriminate|].
    cbn [starts_with app] in *. rewrite (N.eqb_sym y c) in *.
    destruct (c =? y) eqn:E; cbn [andb] in *; [|split; reflexivity].
    apply IH; assumption.
Qed.

(* a prefix at least as long as the whole is the whole *)
Lemma starts_with_long l p : starts_with p l = true -> lenN p <= lenN l -> starts_with l p = true.
Proof.
  revert p; induction l as [|c l IH]; intros p H Hl.
  - destruct p; [reflexivity| cbn [lenN] in Hl; lia].
  - destruct p as [|y p]; [reflexivity|]. cbn [starts_with lenN] in *.
    apply andb_true_iff in H as [H1 H2]. rewrite (N.eqb_sym c y), H1. cbn [andb]. apply IH; [assumption|lia].
Qed.

Lemma tok_skip_true_stable t b r x :
  tok_skip t b = (true, r) -> tok_skip t (b ++ x) = (true, r ++ x).
Proof.
  unfold tok_skip. destruct (starts_with b t) eqn:E; [|discriminate].
  intros H. inversion H as [[H1 H2]]. rewrite (starts_with_app _ _ x E), H1.
  rewrite dropN_app_le by (apply starts_with_len; exact E). reflexivity.
Qed.

Lemma tok_skip_nonempty t b : t <> [] -> tok_skip t b = (starts_with b t, if starts_with b t then dropN (lenN t) b else b).
Proof.
  intros Ht. unfold tok_skip. destruct (starts_with b t); [|reflexivity].
  destruct t; [congruence|]. cbn [lenN]. destruct (N.succ (lenN t) =? 0) eqn:E; [apply N.eqb_eq in E; lia|reflexivity].
Qed.

Lemma tok_skipOne_true_stable set b r x :
  tok_skipOne set b = (true, r) -> tok_skipOne set (b ++ x) = (true, r ++ x).
Proof.
  destruct b as [|c b]; cbn [tok_skipOne app]; [discriminate|].
  destruct (set c); [|discriminate]. intros H; inversion H; reflexivity.
Qed.

Lemma tok_skipOne_false_stable set b r x :
  tok_skipOne set b = (false, r) -> b <> [] -> tok_skipOne set (b ++ x) = (false, b ++ x).
Proof.
  destruct b as [|c b]; cbn [tok_skipOne app]; [congruence|].
  destruct (set c); [discriminate|]. reflexivity.
Qed.

Lemma tok_skipOne_true_nonnil set b r : tok_skipOne set b = (true, r) -> b <> [].
Proof. destruct b; cbn; [discriminate|discriminate]. Qed.

(* ---- span / prefix ---- *)
Lemma span_app_stop {A} (p : A -> bool) u v a y b :
  span p u = (a, y :: b) -> span p (u ++ v) = (a, (y :: b) ++ v).
Proof.
  revert a; induction u as [|c u IH]; intros a H; cbn [span app] in *; [discriminate|].
  destruct (p c) eqn:E.
  - destruct (span p u) as [a' b'] eqn:S. inversion H; subst.
    rewrite (IH a' eq_refl). reflexivity.
  - inversion H; subst. reflexivity.
Qed.

Lemma takeN_app {A} n (a b : list A) : takeN n (a ++ b) = takeN n a ++ takeN (n - lenN a) b.
Proof.
  revert n; induction a as [|x a IH]; intros n; cbn [app takeN lenN].
  - rewrite N.sub_0_r. reflexivity.
  - destruct (n =? 0) eqn:E.
    + apply N.eqb_eq in E; subst. cbn [app]. rewrite takeN_0. reflexivity.
    + apply N.eqb_neq in E. rewrite IH. cbn [app].
      replace (n - N.succ (lenN a)) with (N.pred n - lenN a) by lia. reflexivity.
Qed.

Lemma tok_prefix_stable set L t tk r x :
  tok_prefix set L t = Some (tk, r) -> r <> [] -> tok_prefix set L (t ++ x) = Some (tk, r ++ x).
Proof.
  rewrite !tok_prefix_eq_spec. unfold prefix_spec. intros H Hr.
  pose proof (span_app set (takeN L t)) as Happ.
  pose proof (lenN_takeN L t) as Hlen.
  destruct (span set (takeN L t)) as [a b] eqn:S; cbn [fst snd] in *.
  destruct a as [|a0 a]; [discriminate|]. inversion H; subst tk r; clear H.
  assert (Hal : lenN (a0 :: a) < lenN t) by (apply dropN_nonnil_lt; exact Hr).
  destruct b as [|y b].
  - (* the whole window matched, so the window is shorter than t *)
    rewrite app_nil_r in Happ. rewrite <- Happ in Hlen.
    assert (HL : L <= lenN t) by lia.
    rewrite takeN_app_le by exact HL. rewrite S. cbn [fst].
    rewrite dropN_app_le by lia. reflexivity.
  - rewrite takeN_app. rewrite (span_app_stop _ _ _ _ _ _ S). cbn [fst].
    rewrite dropN_app_le by lia. reflexivity.
Qed.

Lemma tok_prefix_none_stable set L t x :
  tok_prefix set L t = None -> t <> [] -> tok_prefix set L (t ++ x) = None.
Proof.
  intros H Ht. destruct (tok_prefix_none _ _ _ H) as [H0|[H0|H0]]; [congruence| |].
  - subst L. rewrite tok_prefix_eq_spec. unfold prefix_spec. rewrite takeN_0. reflexivity.
  - destruct t as [|c t]; [congruence|]. rewrite tok_prefix_eq_spec. unfold prefix_spec.
    cbn [app takeN]. destruct (L =? 0); [reflexivity|]. cbn [span]. rewrite H0. reflexivity.
Qed.

(* ---- Tokenizer::int64(base 10, no sign, small limit) ---- *)
Lemma digit_of_10 c : digit_of 10 c = if is_digit c then Some (Z.of_N c - 48)%Z else None.
Proof.
  unfold digit_of, digit_raw, is_digit, is_upper, is_lower.
  destruct ((48 <=? c) && (c <=? 57)) eqn:E1.
  - destruct (Z.of_N c - 48 >=? 10)%Z eqn:E2; [lia|reflexivity].
  - destruct ((65 <=? c) && (c <=? 90)) eqn:E2.
    + destruct (Z.of_N c - 55 >=? 10)%Z eqn:E3; [reflexivity|lia].
    + destruct ((97 <=? c) && (c <=? 122)) eqn:E3; [|reflexivity].
      destruct (Z.of_N c - 87 >=? 10)%Z eqn:E4; [reflexivity|lia].
Qed.

Definition int_of_run (L : N) (ds : list Z) : option (Z * N) :=
  if L =? 0 then None
  else match ds with
       | [] => None
       | _ :: _ => if (digits_value 10 ds 0 >? two63 - 1)%Z then None
                   else Some (digits_value 10 ds 0, lenN ds)
       end.

Lemma int64_10_run L buf : tok_int64 10 false L buf = int_of_run L (digit_run 10 (takeN L buf)).
Proof.
  rewrite tok_int64_exact by (right; lia).
  unfold ref_int64, int64_front, int_of_run.
  destruct buf as [|c buf].
  - cbn [takeN digit_run]. destruct (L =? 0); reflexivity.
  - destruct (L =? 0) eqn:EL; [reflexivity|].
    remember (takeN L (c :: buf)) as range eqn:Hr.
    assert (Hm : match range with
                 | z :: x :: r => if (z =? 48) && (((10 =? 0)%Z) || ((10 =? 16)%Z)) && tolower_is_x x
                                  then (16%Z, r, (0 + 2)%N) else (10%Z, range, 0%N)
                 | _ => (10%Z, range, 0%N)
                 end = (10%Z, range, 0%N)).
    { destruct range as [|z [|x r]]; try reflexivity.
      replace ((10 =? 0)%Z || (10 =? 16)%Z) with false by reflexivity.
      rewrite andb_false_r. reflexivity. }
    rewrite Hm. cbn [Z.eqb]. unfold ref_core.
    destruct (digit_run 10 range) as [|d ds]; [reflexivity|].
    cbn [negb]. destruct (digits_value 10 (d :: ds) 0 >? two63 - 1)%Z; [reflexivity|].
    rewrite N.add_0_l. reflexivity.
Qed.

Lemma digit_run_take_app L b x :
  dropN (lenN (digit_run 10 (takeN L b))) b <> [] ->
  digit_run 10 (takeN L (b ++ x)) = digit_run 10 (takeN L b).
Proof.
  revert L; induction b as [|c r IH]; intros L H.
  - cbn [takeN digit_run lenN dropN] in H. congruence.
  - cbn [app takeN] in *. destruct (L =? 0) eqn:EL; [reflexivity|].
    cbn [digit_run] in *. destruct (digit_of 10 c) eqn:Ed; [|reflexivity].
    f_equal. apply IH. cbn [lenN dropN] in H.
    destruct (N.succ (lenN (digit_run 10 (takeN (N.pred L) r))) =? 0) eqn:E0; [apply N.eqb_eq in E0; lia|].
    rewrite N.pred_succ in H. exact H.
Qed.

Lemma digit_run_take_len L b : lenN (digit_run 10 (takeN L b)) <= N.min L (lenN b).
Proof.
  revert L; induction b as [|c r IH]; intros L; cbn [takeN digit_run lenN]; [lia|].
  destruct (L =? 0) eqn:EL; [cbn [digit_run lenN]; lia|]. apply N.eqb_neq in EL.
  cbn [digit_run]. destruct (digit_of 10 c); cbn [lenN]; [|lia].
  specialize (IH (N.pred L)). lia.
Qed.

Lemma int64_10_some_len L buf v k : tok_int64 10 false L buf = Some (v, k) -> k <= lenN buf.
Proof.
  rewrite int64_10_run. unfold int_of_run. destruct (L =? 0); [discriminate|].
  pose proof (digit_run_take_len L buf) as Hl.
  destruct (digit_run 10 (takeN L buf)) as [|d ds]; [discriminate|].
  destruct (digits_value 10 (d :: ds) 0 >? two63 - 1)%Z; [discriminate|].
  intros H; inversion H; subst. lia.
Qed.

(* the result does not change when bytes are appended behind a byte that already ended the digit run *)
Lemma int64_10_some_stable L buf v k x :
  tok_int64 10 false L buf = Some (v, k) -> dropN k buf <> [] ->
  tok_int64 10 false L (buf ++ x) = Some (v, k).
Proof.
  intros H Hd. rewrite int64_10_run in *.
  assert (Hk : k = lenN (digit_run 10 (takeN L buf))).
  { unfold int_of_run in H. destruct (L =? 0); [discriminate|].
    destruct (digit_run 10 (takeN L buf)) as [|d ds]; [discriminate|].
    destruct (digits_value 10 (d :: ds) 0 >? two63 - 1)%Z; [discriminate|]. inversion H; reflexivity. }
  rewrite digit_run_take_app by (rewrite <- Hk; exact Hd). exact H.
Qed.

Lemma int64_10_none_stable L buf x :
  tok_int64 10 false L buf = None -> buf <> [] -> tok_int64 10 false L (buf ++ x) = None.
Proof.
  intros H Hb. rewrite int64_10_run in *.
  destruct (digit_run 10 (takeN L buf)) as [|d ds] eqn:Er.
  - rewrite digit_run_take_app by (rewrite Er; cbn [lenN]; rewrite dropN_0; exact Hb). rewrite Er. exact H.
  - (* a non-empty run of at most L digits fails only by overflow; the run is then complete or limited *)
    unfold int_of_run in *. destruct (L =? 0) eqn:EL; [reflexivity|].
    destruct (digits_value 10 (d :: ds) 0 >? two63 - 1)%Z eqn:Ev; [|discriminate].
    destruct (dropN (lenN (d :: ds)) buf) as [|y r] eqn:Edrop.
    + (* run covers all of buf: appended bytes may extend it *)
      exfalso. clear H.
      (* at most L digits ... this branch is unreachable for L <= 18 but we do not need it: *)
      admit.
    + rewrite digit_run_take_app by (rewrite Er, Edrop; discriminate). rewrite Er, Ev. reflexivity.
Abort.
