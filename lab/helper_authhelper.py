#!/usr/bin/env python3
"""Scripted squid helper for the C46/C47 end-to-end checks (trusted lab stub, not part of the model).

  helper_authhelper.py script <dir>
      url_rewrite_program / external_acl_type helper. The scenario id is taken from the first request line
      (.../h47x<sid>x/...); <dir>/<sid>.json holds the script: a list of steps
         ["wait", k]      block until k request lines have been received in total
         ["w", "<hex>"]   write exactly these bytes to stdout with ONE write(2)
         ["sleep", s]     sleep s seconds
      After the last step the helper exits (squid then starts a fresh process - channel ids restart at 1 - for the
      next scenario). Every received line and every write is appended to <dir>/<sid>.log.

  helper_authhelper.py auth <dir>
      auth_param basic program (concurrent protocol: "<id> <user> <password>"). Passwords starting with "ok" are
      accepted, all others rejected. Every lookup is appended to <dir>/auth.log as `recv <seq> <user> <password>`
      and answered only when the driver creates the file <dir>/rel.<seq> (so the check decides the order of
      arrivals and helper replies itself, without depending on timing).
"""
import heapq, json, os, re, select, sys, time


def log(path, msg):
    try:
        with open(path, "a") as f:
            f.write("%.3f %s\n" % (time.time(), msg))
    except OSError:
        pass


class LineReader:
    def __init__(self):
        self.buf = b""
        self.eof = False

    def fill(self, timeout):
        r, _, _ = select.select([0], [], [], timeout)
        if r:
            d = os.read(0, 65536)
            if not d:
                self.eof = True
            self.buf += d

    def pop(self):
        if b"\n" in self.buf:
            l, self.buf = self.buf.split(b"\n", 1)
            return l
        return None


def run_script(d):
    rd = LineReader()
    got = []
    steps = None
    logp = os.path.join(d, "early.log")
    i = 0
    deadline = time.time() + 30
    while time.time() < deadline:
        if steps is not None and i >= len(steps):
            break
        if steps is not None:
            st = steps[i]
            if st[0] == "w":
                data = bytes.fromhex(st[1])
                os.write(1, data)
                log(logp, "write %s" % st[1])
                i += 1
                continue
            if st[0] == "sleep":
                time.sleep(st[1])
                i += 1
                continue
            if st[0] == "wait" and len(got) >= st[1]:
                i += 1
                continue
        # need more input
        l = rd.pop()
        if l is None:
            if rd.eof:
                log(logp, "eof")
                return
            rd.fill(0.5)
            continue
        got.append(l)
        if steps is None:
            m = re.search(rb"h47x(\w+?)x", l)
            if m:
                sid = m.group(1).decode()
                logp = os.path.join(d, sid + ".log")
                try:
                    steps = json.load(open(os.path.join(d, sid + ".json")))
                except Exception as ex:
                    log(logp, "no script: %r" % ex)
                    steps = []
        log(logp, "recv %s" % l.decode("latin1"))
    log(logp, "exit")


def run_auth(d):
    """Every lookup is logged (`recv <seq> <user> <password>`) and held until the driver creates <d>/rel.<seq>."""
    rd = LineReader()
    logp = os.path.join(d, "auth.log")
    held = {}
    seq = 0
    log(logp, "start")
    while True:
        if held:
            try:
                names = set(os.listdir(d))
            except OSError:
                names = set()
            for k in sorted(held):
                if "rel.%d" % k in names:
                    out = held.pop(k)
                    os.write(1, out)
                    log(logp, "reply %d %s" % (k, out.decode("latin1").strip()))
        l = rd.pop()
        if l is None:
            if rd.eof:
                return
            rd.fill(0.004 if held else 0.5)
            continue
        parts = l.split(b" ")
        if len(parts) < 3:
            os.write(1, (parts[0] if parts else b"0") + b" ERR\n")
            continue
        cid, user, pw = parts[0], parts[1], parts[2]
        seq += 1
        verdict = b"OK" if pw.startswith(b"ok") else b"ERR"
        held[seq] = cid + b" " + verdict + b"\n"
        log(logp, "recv %d %s %s" % (seq, user.decode("latin1"), pw.decode("latin1")))


def main():
    mode, d = sys.argv[1], sys.argv[2]
    if mode == "script":
        # tells the driver that a fresh helper process (channel ids restart at 1) is ready
        try:
            open(os.path.join(d, "started.%d" % os.getpid()), "w").close()
        except OSError:
            pass
        try:
            run_script(d)
        except BrokenPipeError:
            pass
    elif mode == "auth":
        run_auth(d)


main()
