// Table generator for C29: Cache-Control directive names and constants as the code defines them now.
// Names come from the public operator<<(std::ostream&, HttpHdrCcType) of src/HttpHdrCc.cc (which prints
// attrsList[id].name followed by "[id]"); ids and limits from src/HttpHdrCc.h.
#include "squid.h"
#include <iostream>
#include <sstream>
#include <string>
#include "HttpHdrCc.h"
#include "SquidConfig.h"

class SquidConfig Config;

static std::string nameOf(int id) {
    std::ostringstream o;
    o << static_cast<HttpHdrCcType>(id);
    std::string s = o.str();
    const auto k = s.rfind('[');
    return k == std::string::npos ? s : s.substr(0, k);
}

int main() {
    std::cout << "@@FILE CcNames_gen.v\n";
    std::cout << "(* generated from /repo by gen/gen_ccnames.cc -- do not edit *)\n"
              "Require Import SquidV.Bytes.\nLocal Open Scope N_scope.\n"
              "(* (id, directive name) for every HttpHdrCcType below CC_ENUM_END, in enum order *)\n"
              "Definition cc_table : list (N * list N) := [\n";
    const int end = static_cast<int>(HttpHdrCcType::CC_ENUM_END);
    for (int id = 0; id < end; ++id) {
        const std::string n = nameOf(id);
        std::cout << (id ? ";\n" : "") << "  (" << id << ", [";
        for (size_t i = 0; i < n.size(); ++i) std::cout << (i ? ";" : "") << static_cast<int>(static_cast<unsigned char>(n[i]));
        std::cout << "])";
    }
    std::cout << "].\n";
#define E(x) std::cout << "Definition " #x " : N := " << static_cast<int>(HttpHdrCcType::x) << ".\n"
    E(CC_PUBLIC); E(CC_PRIVATE); E(CC_NO_CACHE); E(CC_NO_STORE); E(CC_NO_TRANSFORM); E(CC_MUST_REVALIDATE);
    E(CC_PROXY_REVALIDATE); E(CC_MAX_AGE); E(CC_S_MAXAGE); E(CC_MAX_STALE); E(CC_MIN_FRESH); E(CC_ONLY_IF_CACHED);
    E(CC_STALE_IF_ERROR); E(CC_IMMUTABLE); E(CC_OTHER); E(CC_ENUM_END);
#define K(x) std::cout << "Definition " #x " : Z := (" << static_cast<long long>(HttpHdrCc::x) << ")%Z.\n"
    K(MAX_AGE_UNKNOWN); K(S_MAXAGE_UNKNOWN); K(MAX_STALE_UNKNOWN); K(MAX_STALE_ANY); K(STALE_IF_ERROR_UNKNOWN);
    K(MIN_FRESH_UNKNOWN);
    return 0;
}
