// Table generator for C23 (response status-line parser): constants and per-byte
// tables of src/http/one/ResponseParser.cc + Parser.cc as the code defines them *now*.
// Values that are private statics are read directly; function-local statics
// (phraseChars, gatewayPhrase, fakeHttpMimeBlock) are obtained by running the
// real parser on probe inputs.
#include "squid.h"
#include <sstream>
#include <iostream>
#include <string>
#include "base/CharacterSet.h"
#include "sbuf/SBuf.h"
#include "anyp/ProtocolVersion.h"
#include "http/StatusCode.h"
#include "parser/Tokenizer.h"
#define private public
#define protected public
#include "http/one/Parser.h"
#include "http/one/ResponseParser.h"
#undef private
#undef protected
#include "SquidConfig.h"

static void dumpBytes(const char *name, const SBuf &b) {
    std::cout << "Definition " << name << " : bytes := [";
    for (SBuf::size_type i = 0; i < b.length(); ++i)
        std::cout << (i ? ";" : "") << static_cast<unsigned>(static_cast<unsigned char>(b[i]));
    std::cout << "]%N.\n";
}

int main() {
    std::cout << "@@FILE RespTabs_gen.v\n";
    std::cout << "(* generated from /repo by gen/gen_respparse.cc -- do not edit *)\n"
              "Require Import SquidV.Bytes.\n";
    Config.onoff.relaxed_header_parser = 0;
    Config.maxReplyHeaderSize = 65536;
    dumpBytes("resp_http1magic", Http1::Parser::Http1magic);
    dumpBytes("resp_icymagic", Http1::ResponseParser::IcyMagic);
    dumpBytes("resp_crlf", Http1::CrLf());
    {
        // HTTP/0.9 gatewaying constants: what the parser reports for a non-HTTP reply
        Http1::ResponseParser p;
        SBuf in("x");
        p.parse(in);
        dumpBytes("resp_gateway_phrase", p.reasonPhrase());
        dumpBytes("resp_fake_mime", p.mimeHeader());
        std::cout << "Definition resp_gateway_status : N := " << static_cast<int>(p.messageStatus()) << "%N.\n";
        std::cout << "Definition resp_gateway_major : N := " << p.messageProtocol().major << "%N.\n";
        std::cout << "Definition resp_gateway_minor : N := " << p.messageProtocol().minor << "%N.\n";
    }
    // reason-phrase characters: byte c is a phrase character iff the strict parser
    // extracts exactly [c] as the reason phrase of "HTTP/1.1 200 <c>CRLF CRLF"
    std::cout << "Definition resp_phrase_tbl : list bool := [";
    for (int c = 0; c < 256; ++c) {
        Http1::ResponseParser p;
        SBuf in("HTTP/1.1 200 ");
        in.append(static_cast<char>(c));
        in.append("\r\n\r\n", 4);
        bool member = false;
        try {
            const bool ok = p.parse(in);
            const SBuf r = p.reasonPhrase();
            member = ok && r.length() == 1 && r[0] == static_cast<char>(c);
        } catch (...) { member = false; }
        std::cout << (c ? ";" : "") << (member ? "true" : "false");
    }
    std::cout << "].\nDefinition resp_phraseChars : cset := mem_tbl resp_phrase_tbl.\n";
    std::cout << "Definition sc_none : N := " << static_cast<int>(Http::scNone) << "%N.\n";
    std::cout << "Definition sc_okay : N := " << static_cast<int>(Http::scOkay) << "%N.\n";
    std::cout << "Definition sc_invalid_header : N := " << static_cast<int>(Http::scInvalidHeader) << "%N.\n";
    std::cout << "Definition sc_header_too_large : N := " << static_cast<int>(Http::scHeaderTooLarge) << "%N.\n";
    return 0;
}
