(* Properties_C33.v — C33: error pages never reflect client input unescaped.
   Statements only; proofs live in PagelogProofs.v.
   Model (PagelogModel.v): ErrorState::compile / compileLegacyCode / compileLogformatCode / Dump of
   src/errorpage.cc.  compile fuel st deny allowRecursion in_signature template = Some pieces: the expansion as a
   list of pieces (PLit = a template byte copied verbatim, PMac letter out = the bytes appended for one macro,
   PLog = output of an @Squid logformat sequence, PTail = unparsed rest after a bad one); the bytes sent are
   flatten pieces.  deny = compiling a deny_info URL.  Which switch case clears do_quote / sets no_urlescape /
   breaks early for deny_info URLs, the initial flag values and the presence and order of the two epilogue
   statements are regenerated from src/errorpage.cc (gen/ErrMacros_gen.v); html_quote and
   rfc1738_escape_part are the per-byte tables regenerated from the functions (gen/ByteMaps_gen.v).
   markup_free b: b contains none of the four characters less-than, greater-than, double quote, apostrophe,
   and b is a concatenation of items that are either one byte that is not a markup metacharacter (those four
   and the ampersand) or a well-formed entity reference (PagelogProofs.html_item, the C32 notion).
   is_client letter: the hand-assigned source class of the macro is Client (PagelogModel.class_table). *)
Require Import SquidV.Bytes SquidV.QuoteModel SquidV.PagelogModel SquidV.PagelogProofs.
Require Import SquidV.gen.ErrMacros_gen.
Local Open Scope N_scope.

(* the regenerated table against the source classes: the flags start as do_quote = 1, no_urlescape = 0, the
   epilogue still html_quote()s when do_quote is set and URL-escapes deny_info values afterwards, and no case
   of a client-controlled letter ( a B f F H m M o P R s U u z Z ) assigns do_quote.
   A macro edited to clear do_quote makes this fail. *)
Theorem C33_client_macro_cases_keep_do_quote :
  em_init_do_quote = true /\ em_init_no_urlescape = false /\
  em_epilogue_html_quote = true /\ em_epilogue_urlescape = true /\
  client_letters = [97; 66; 102; 70; 72; 109; 77; 111; 80; 82; 115; 85; 117; 122; 90] /\
  forall l, is_client l = true -> dq_kind l = 0.
Proof. exact client_cases_keep_do_quote. Qed.

(* one macro: for EVERY ErrorState content, both modes, any recursion function: what a client-controlled
   macro appends is a single piece that is markup-free *)
Theorem C33_client_macro_is_neutralised : forall rec st deny allowRec insig l two ps,
  is_client l = true -> legacy_code rec st deny allowRec insig l two = Some ps ->
  exists out, ps = [PMac l out] /\ markup_free out.
Proof. exact client_macro_quoted. Qed.

(* the whole expansion, for ALL templates (including the recursively compiled detail and signature templates),
   ALL ErrorState contents, both modes: every piece that comes from a client-controlled macro is markup-free;
   the mailto data of W contains none of the four quote/angle characters; g is markup-free unless the FTP
   directory listing (HTML assembled outside the anchored code) is present *)
Theorem C33_expansion_neutralises_client_data : forall fuel st deny allowRec insig template pieces,
  compile fuel st deny allowRec insig template = Some pieces -> Forall (piece_ok st) pieces.
Proof. exact compile_ok. Qed.

(* spelled out for the two entry points: the body of an error page and the Location of a deny_info redirect *)
Theorem C33_error_page_body : forall st template,
  exists pieces, build_body st template = Some (flatten pieces) /\ Forall (piece_ok st) pieces.
Proof. exact error_page_body. Qed.

Theorem C33_deny_info_location : forall st template,
  exists pieces, build_deny_info_url st template = Some (flatten pieces) /\ Forall (piece_ok st) pieces.
Proof. exact deny_info_location. Qed.

(* the recursion through the detail and signature macros is bounded (depth at most 3): the model never runs out of fuel *)
Theorem C33_recursion_is_bounded : forall fuel st deny allowRec insig template,
  (depth allowRec insig < fuel)%nat -> compile fuel st deny allowRec insig template <> None.
Proof. exact compile_total. Qed.

(* the two quoting steps themselves, for arbitrary input *)
Theorem C33_html_quote_output_is_markup_free : forall p, markup_free (html_q p).
Proof. exact html_q_markup_free. Qed.
Theorem C33_url_escape_output_has_no_metacharacter : forall p, forallb plain (escape_part p) = true.
Proof. exact escape_part_plain. Qed.
Theorem C33_mailto_dump_has_no_quote_or_angle : forall st, no_qmeta (dump st).
Proof. exact dump_no_qmeta. Qed.

(* non-vacuity: a concrete state (request for http://h/<x>'& with method M&, user a-doublequote-b, detail template %M!,
   signature template: by %h %S) expanded through every kind of piece: template text, client macros, the recursive D and S *)
Example C33_example_page :
  build_body sample_state [60; 37; 85; 62; 37; 77; 37; 97; 37; 68; 37; 83; 37; 113] =
  Some ([60] ++ [104;116;116;112;58;47;47;104;47; 38;108;116;59; 120; 38;103;116;59; 38;97;112;111;115;59; 38;97;109;112;59] ++ [62]
        ++ [77; 38;97;109;112;59] ++ [97; 38;113;117;111;116;59; 98] ++ [77; 38;97;109;112;59; 33]
        ++ [98;121;32; 104; 32; 91;37;83;93] ++ [37; 113]).
Proof. vm_compute. reflexivity. Qed.
Example C33_example_deny_info :
  build_deny_info_url sample_state [63; 117; 61; 37; 77; 38; 37; 82; 38; 37; 66] =
  Some ([63; 117; 61] ++ [77; 37;50;54; 97;109;112; 37;51;66] ++ [38]
        ++ [47; 38;108;116;59; 120; 38;103;116;59; 38;97;112;111;115;59; 38;97;109;112;59] ++ [38]).
Proof. vm_compute. reflexivity. Qed.
Example C33_example_classes : is_client 85 = true /\ is_client 77 = true /\ is_client 104 = false /\ is_client 79 = false /\
  dq_kind 79 = 1 /\ dq_kind 108 = 2 /\ dq_kind 113 = 2 /\ depth true false = 3%nat.
Proof. repeat split. Qed.
Example C33_example_markup_free : markup_free [97; 38; 108; 116; 59] /\ ~ markup_free [60] /\ ~ no_qmeta [39].
Proof.
  split; [|split].
  - split; [reflexivity|]. exists [[97]; [38; 108; 116; 59]]. split; [reflexivity|].
    constructor; [apply html_item_b_sound; reflexivity|constructor; [apply html_item_b_sound; reflexivity|constructor]].
  - intros [H _]. discriminate H.
  - intros H. discriminate H.
Qed.

Print Assumptions C33_client_macro_cases_keep_do_quote.
Print Assumptions C33_client_macro_is_neutralised.
Print Assumptions C33_expansion_neutralises_client_data.
Print Assumptions C33_error_page_body.
Print Assumptions C33_deny_info_location.
Print Assumptions C33_recursion_is_bounded.
Print Assumptions C33_html_quote_output_is_markup_free.
Print Assumptions C33_url_escape_output_has_no_metacharacter.
Print Assumptions C33_mailto_dump_has_no_quote_or_angle.
