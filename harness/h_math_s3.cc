#define H_MATH_PART 3
#include "h_math_part.h"
