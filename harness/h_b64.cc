// Harness for C36: base64 coder and Basic credential decoding from /repo's working tree.
//
// (1) lib/base64.cc is compiled out in this build (HAVE_NETTLE_BASE64_H=1, squid links libnettle).
//     The bundled copy is therefore compiled *here*, from the working tree, by textual inclusion
//     with the guard forced to 0, inside namespace `bundled` (include/base64.h then declares the
//     bundled API and its length macros).  The libnettle functions squid really links are driven
//     next to it; every coder case is run on both and printed as "<bundled> | <nettle>".
// (2) src/auth/basic/Config.cc is included textually as well (see h_b64_basic.h for the
//     collaborators it needs), so Auth::Basic::Config::decodeCleartext (private) and ::decode are
//     the functions of the working tree.
//
// stdin: one case per line; stdout: one canonical result line per case.
#include "squid.h"
#include <cstring>
#include <cstdlib>
#include <vector>
#include <string>

#undef HAVE_NETTLE_BASE64_H
#define HAVE_NETTLE_BASE64_H 0
namespace bundled {
#include "base64.h"
#include "../lib/base64.cc"
// wrappers compiled before <nettle/base64.h> turns base64_* into macros
struct Api {
    typedef base64_encode_ctx ECtx;
    typedef base64_decode_ctx DCtx;
    static const char *name() { return "bundled"; }
    static void einit(ECtx *c) { base64_encode_init(c); }
    static size_t eupdate(ECtx *c, char *dst, size_t n, const uint8_t *src) { return base64_encode_update(c, dst, n, src); }
    static size_t efinal(ECtx *c, char *dst) { return base64_encode_final(c, dst); }
    static void eraw(char *dst, size_t n, const uint8_t *src) { base64_encode_raw(dst, n, src); }
    static void dinit(DCtx *c) { base64_decode_init(c); }
    static int dupdate(DCtx *c, size_t *dl, uint8_t *dst, size_t n, const char *src) { return base64_decode_update(c, dl, dst, n, src); }
    static int dfinal(DCtx *c) { return base64_decode_final(c); }
    static size_t encLen(size_t n) { return BASE64_ENCODE_LENGTH(n); }
    static size_t encFinalLen() { return BASE64_ENCODE_FINAL_LENGTH; }
    static size_t encRawLen(size_t n) { return BASE64_ENCODE_RAW_LENGTH(n); }
    static size_t decLen(size_t n) { return BASE64_DECODE_LENGTH(n); }
};
}
#undef SQUID_INCLUDE_BASE64_H
#undef BASE64_ENCODE_LENGTH
#undef BASE64_ENCODE_FINAL_LENGTH
#undef BASE64_ENCODE_RAW_LENGTH
#undef BASE64_DECODE_LENGTH
#undef base64_encode_len
#undef TABLE_INVALID
#undef TABLE_SPACE
#undef TABLE_END
#undef ENCODE
#undef HAVE_NETTLE_BASE64_H
#define HAVE_NETTLE_BASE64_H 1
#include "base64.h"   /* -> <nettle/base64.h> */

namespace linked {
struct Api {
    typedef struct ::base64_encode_ctx ECtx;
    typedef struct ::base64_decode_ctx DCtx;
    static const char *name() { return "nettle"; }
    static void einit(ECtx *c) { base64_encode_init(c); }
    static size_t eupdate(ECtx *c, char *dst, size_t n, const uint8_t *src) { return base64_encode_update(c, dst, n, src); }
    static size_t efinal(ECtx *c, char *dst) { return base64_encode_final(c, dst); }
    static void eraw(char *dst, size_t n, const uint8_t *src) { base64_encode_raw(dst, n, src); }
    static void dinit(DCtx *c) { base64_decode_init(c); }
    static int dupdate(DCtx *c, size_t *dl, uint8_t *dst, size_t n, const char *src) { return base64_decode_update(c, dl, dst, n, src); }
    static int dfinal(DCtx *c) { return base64_decode_final(c); }
    static size_t encLen(size_t n) { return BASE64_ENCODE_LENGTH(n); }
    static size_t encFinalLen() { return BASE64_ENCODE_FINAL_LENGTH; }
    static size_t encRawLen(size_t n) { return BASE64_ENCODE_RAW_LENGTH(n); }
    static size_t decLen(size_t n) { return BASE64_DECODE_LENGTH(n); }
};
}

#include "h_b64_basic.h"
#include "hcommon.h"

static const size_t GUARD_BYTES = 64;

// chunking shared with ml/run_b64.ml and checks/c36.py: "-" = one chunk; else comma separated
// lengths, each taking min(len, remaining) bytes; the remainder is always the last chunk
static std::vector<std::string> chunksOf(const std::string &spec, const std::string &src) {
    std::vector<std::string> out;
    if (spec == "-") { out.push_back(src); return out; }
    size_t pos = 0, i = 0;
    while (i <= spec.size()) {
        size_t j = spec.find(',', i);
        if (j == std::string::npos) j = spec.size();
        size_t len = static_cast<size_t>(std::stoull(spec.substr(i, j - i)));
        len = std::min(len, src.size() - pos);
        out.push_back(src.substr(pos, len));
        pos += len;
        i = j + 1;
    }
    out.push_back(src.substr(pos));
    return out;
}

// A destination buffer of `promised` bytes followed by a guard zone. Each operation is run twice
// with different fill bytes: a position holds the same value after both runs iff it was written.
struct Probe {
    std::vector<uint8_t> a, b;
    size_t promised;
    explicit Probe(size_t p): a(p + GUARD_BYTES, 0xAA), b(p + GUARD_BYTES, 0x55), promised(p) {}
    // number of leading written positions; flags non-prefix write sets and writes past `promised`
    size_t written(std::string &flags) const {
        size_t w = 0;
        while (w < a.size() && a[w] == b[w]) ++w;
        for (size_t i = w; i < a.size(); ++i)
            if (a[i] == b[i]) { flags += " BAD-WRITE-HOLE"; break; }
        size_t last = 0;
        for (size_t i = 0; i < a.size(); ++i) if (a[i] == b[i]) last = i + 1;
        if (last > promised) flags += " BAD-OVERRUN(promised=" + std::to_string(promised) + ",written-to=" + std::to_string(last) + ")";
        return w;
    }
};

template <class A> static std::string runEnc(const std::vector<std::string> &chunks) {
    typename A::ECtx c1, c2;
    A::einit(&c1); A::einit(&c2);
    std::string out, flags;
    for (const auto &ch : chunks) {
        Probe p(A::encLen(ch.size()));
        const size_t d1 = A::eupdate(&c1, reinterpret_cast<char *>(p.a.data()), ch.size(), reinterpret_cast<const uint8_t *>(ch.data()));
        const size_t d2 = A::eupdate(&c2, reinterpret_cast<char *>(p.b.data()), ch.size(), reinterpret_cast<const uint8_t *>(ch.data()));
        if (d1 != d2) flags += " BAD-NONDET";
        if (d1 > A::encLen(ch.size())) flags += " BAD-LEN";
        if (p.written(flags) != d1) flags += " BAD-DONE";
        out.append(reinterpret_cast<char *>(p.a.data()), std::min(d1, p.a.size()));
    }
    Probe p(A::encFinalLen());
    const size_t d1 = A::efinal(&c1, reinterpret_cast<char *>(p.a.data()));
    const size_t d2 = A::efinal(&c2, reinterpret_cast<char *>(p.b.data()));
    if (d1 != d2) flags += " BAD-NONDET";
    if (d1 > A::encFinalLen()) flags += " BAD-LEN";
    if (p.written(flags) != d1) flags += " BAD-DONE";
    out.append(reinterpret_cast<char *>(p.a.data()), std::min(d1, p.a.size()));
    return tohex(out) + flags;
}

template <class A> static std::string runRaw(const std::string &src) {
    Probe p(A::encRawLen(src.size()));
    std::string flags;
    A::eraw(reinterpret_cast<char *>(p.a.data()), src.size(), reinterpret_cast<const uint8_t *>(src.data()));
    A::eraw(reinterpret_cast<char *>(p.b.data()), src.size(), reinterpret_cast<const uint8_t *>(src.data()));
    const size_t w = p.written(flags);
    if (w != A::encRawLen(src.size())) flags += " BAD-DONE";
    return tohex(reinterpret_cast<char *>(p.a.data()), w) + flags;
}

template <class A> static std::string runDec(const std::vector<std::string> &chunks) {
    typename A::DCtx c1, c2, c3;
    A::dinit(&c1); A::dinit(&c2); A::dinit(&c3);
    std::string out, flags;
    for (const auto &ch : chunks) {
        const size_t promised = A::decLen(ch.size());
        Probe p(promised);
        size_t l1 = 0, l2 = 0, l3 = 0;
        const int r1 = A::dupdate(&c1, &l1, p.a.data(), ch.size(), ch.data());
        const int r2 = A::dupdate(&c2, &l2, p.b.data(), ch.size(), ch.data());
        // the same call once more into a heap block of exactly the promised size, so that an
        // out-of-bounds store is also a sanitizer report
        uint8_t *exact = static_cast<uint8_t *>(malloc(promised ? promised : 1));
        const int r3 = A::dupdate(&c3, &l3, exact, ch.size(), ch.data());
        free(exact);
        if (r1 != r2 || r1 != r3 || (r1 && (l1 != l2 || l1 != l3))) flags += " BAD-NONDET";
        const size_t w = p.written(flags);
        if (r1) {
            if (l1 > promised) flags += " BAD-LEN";
            if (w != l1) flags += " BAD-DONE";
            out.append(reinterpret_cast<char *>(p.a.data()), std::min(l1, p.a.size()));
        } else {
            out.append(reinterpret_cast<char *>(p.a.data()), w);
            return "rej " + tohex(out) + flags;
        }
    }
    const int f = A::dfinal(&c1);
    return std::string(f ? "ok " : "trunc ") + tohex(out) + flags;
}

// encode with the implementation, then decode its output with the same implementation
template <class A> static std::string runRoundTrip(const std::string &esp, const std::string &dsp, const std::string &src) {
    const std::string e = runEnc<A>(chunksOf(esp, src));
    if (e.find(' ') != std::string::npos) return "ENC-" + e;
    return runDec<A>(chunksOf(dsp, unhex(e)));
}

static uint32_t crc32Update(uint32_t crc, const unsigned char *p, size_t n) {
    static uint32_t table[256];
    static bool ready = false;
    if (!ready) {
        for (uint32_t i = 0; i < 256; ++i) { uint32_t c = i; for (int k = 0; k < 8; ++k) c = (c & 1) ? (0xEDB88320u ^ (c >> 1)) : (c >> 1); table[i] = c; }
        ready = true;
    }
    crc = ~crc;
    for (size_t i = 0; i < n; ++i) crc = table[(crc ^ p[i]) & 0xFF] ^ (crc >> 8);
    return ~crc;
}

// every 3-byte string with first byte `a0` (65536 of them): encode through update+final and through
// encode_raw, decode the result; report counts and the CRC-32 of all encodings concatenated in order
template <class A> static std::string runSweep3(unsigned a0) {
    uint32_t crc = 0; size_t rtfail = 0, rawdiff = 0, lenbad = 0;
    for (unsigned b = 0; b < 256; ++b) for (unsigned c = 0; c < 256; ++c) {
        const uint8_t src[3] = { static_cast<uint8_t>(a0), static_cast<uint8_t>(b), static_cast<uint8_t>(c) };
        typename A::ECtx ec; A::einit(&ec);
        char enc[16]; memset(enc, 0, sizeof(enc));
        size_t n = A::eupdate(&ec, enc, 3, src);
        if (n > A::encLen(3)) ++lenbad;
        n += A::efinal(&ec, enc + n);
        char raw[16]; memset(raw, 0, sizeof(raw));
        A::eraw(raw, 3, src);
        if (n != A::encRawLen(3) || memcmp(raw, enc, n) != 0) ++rawdiff;
        crc = crc32Update(crc, reinterpret_cast<unsigned char *>(enc), n);
        typename A::DCtx dc; A::dinit(&dc);
        uint8_t dec[16]; size_t dl = 0;
        if (!A::dupdate(&dc, &dl, dec, n, enc) || !A::dfinal(&dc) || dl != 3 || memcmp(dec, src, 3) != 0) ++rtfail;
    }
    std::ostringstream o;
    o << "n=65536 rtfail=" << rtfail << " rawdiff=" << rawdiff << " lenbad=" << lenbad << " crc=" << crc;
    return o.str();
}

int main() {
    std::string line;
    basicSetup();
    while (std::getline(std::cin, line)) {
        auto a = splitws(line);
        if (a.empty()) { std::cout << "\n"; continue; }
        const std::string &op = a[0];
        std::ostringstream o;
        try {
            if (op == "b64.enc" && a.size() == 3) {
                auto ch = chunksOf(a[1], unhex(a[2]));
                o << runEnc<bundled::Api>(ch) << " | " << runEnc<linked::Api>(ch);
            } else if (op == "b64.raw" && a.size() == 2) {
                auto s = unhex(a[1]);
                o << runRaw<bundled::Api>(s) << " | " << runRaw<linked::Api>(s);
            } else if (op == "b64.dec" && a.size() == 3) {
                auto ch = chunksOf(a[1], unhex(a[2]));
                o << runDec<bundled::Api>(ch) << " | " << runDec<linked::Api>(ch);
            } else if (op == "b64.rt" && a.size() == 4) {
                auto s = unhex(a[3]);
                o << runRoundTrip<bundled::Api>(a[1], a[2], s) << " | " << runRoundTrip<linked::Api>(a[1], a[2], s);
            } else if (op == "b64.isweep3" && a.size() == 2) {
                const unsigned a0 = static_cast<unsigned>(std::stoul(a[1])) & 0xFF;
                o << runSweep3<bundled::Api>(a0) << " | " << runSweep3<linked::Api>(a0);
            } else if (op == "basic" && a.size() == 3) {
                o << runBasic(a[1] == "1", unhex(a[2]));
            } else o << "ERR unknown-entry " << op;
        } catch (const std::exception &e) { o.str(""); o << "EXC " << e.what(); }
        catch (...) { o.str(""); o << "EXC"; }
        std::cout << o.str() << "\n" << std::flush;
    }
    return 0;
}
