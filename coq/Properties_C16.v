(* Properties_C16.v — disk cache crash consistency (rock). Statements only; proofs in DiskcrashProofs.v. *)
Require Import SquidV.Bytes SquidV.DiskcrashModel SquidV.DiskcrashProofs.
Local Open Scope Z_scope.

(* The full statement ("every hit after a crash at any write boundary is the complete stream of one version whose
   last slot write completed") is FALSE for the faithful model: same-key overwrite into the recycled slots, killed
   before its last slot write (F12). *)
Theorem C16_rock_crash_hit_is_complete_version_refuted :
  exists N P ops n, ~ crash_consistent N P (sessions_of N P ops) n None.
Proof. exact crash_consistent_refuted. Qed.
Print Assumptions C16_rock_crash_hit_is_complete_version_refuted.

(* ... and for the partial-write variant even without any overwrite: a slot write cut inside its payload. *)
Theorem C16_rock_torn_write_hit_is_complete_version_refuted :
  exists N P ops n t, ~ crash_consistent N P (sessions_of N P ops) n (Some t).
Proof. exact torn_crash_consistent_refuted. Qed.
Print Assumptions C16_rock_torn_write_hit_is_complete_version_refuted.
