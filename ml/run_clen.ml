(* handlers for the clen area (C26): httpHeaderParseOffset, ContentLengthInterpreter, HttpHeader::parse *)
let state_str (st : clst) : string =
  "bad=" ^ b2s (cl_sawBad st) ^ " san=" ^ b2s (cl_needsSan st) ^ " good=" ^ b2s (cl_sawGood st) ^
  " val=" ^ (if cl_sawGood st then string_of_z (cl_value st) else "-") ^
  " hwp=" ^ (match int_of_n (cl_problem st) with 0 -> "-" | 1 -> "D" | _ -> "C")

let () =
  reg "po" (fun [s] ->
      match parse_offset (bytes_of_hex s) with
      | None -> "fail"
      | Some (v, n) -> "ok " ^ string_of_z v ^ " " ^ string_of_n n);
  reg "ci" (fun (mode :: vals) ->
      let relaxed = relaxed_of (z_of_string mode) in
      let (ks, st) = check_fields relaxed cl_init (List.map bytes_of_hex vals) in
      "r=" ^ (if ks = [] then "-" else String.concat "" (List.map b2s ks)) ^ " " ^ state_str st);
  reg "hp" (fun [mode; owner; proh; blk] ->
      let relaxed = relaxed_of (z_of_string mode) in
      match hdr_parse relaxed (owner = "q") (proh <> "0") (bytes_of_hex blk) with
      | None -> "fail"
      | Some r ->
        let es = h_entries r in
        let count i = List.length (List.filter (fun e -> e_id e = i) es) in
        "ok cl=" ^ string_of_z (content_length r) ^
        " conf=" ^ b2s (h_conflicting r) ^ " teu=" ^ b2s (h_teUnsupported r) ^
        " nte=" ^ string_of_int (count HTE) ^ " ncl=" ^ string_of_int (count HCL) ^
        " clv=" ^ (match first_cl es with None -> "-" | Some v -> hex_of_bytes v) ^
        " " ^ state_str (h_cl r))
