// Harness: ProxyProtocol::Parse (src/proxyp/Parser.cc, Header.cc) and
// Parser::BinaryTokenizer (src/parser/BinaryTokenizer.cc) from /repo's working tree.
// stdin: one case per line (same syntax as ml/run_proxyp.ml); stdout: one result line.
//
//   ip <hextext>                       Ip::Address::GetHostByName(text) -> "ok <32 hex of sin6_addr>" | "fail"
//                                      (the answers of the un-modelled IP text conversion; the case
//                                       generator embeds them into the <ipmap> argument below)
//   pp.parse <hexinput> <ipmap>        one ProxyProtocol::Parse call
//   pp.prefixes <hexinput> <ipmap>     ProxyProtocol::Parse on every prefix (length 0..n), run-length encoded
//   pp.values <type> <sep> <hexinput> <ipmap>   Header::getValues(type, sep) of the parsed header
//   bt.seq <expectMore> <ops> <hexdata>         a sequence of BinaryTokenizer operations
// <ipmap> is ignored here (the real conversion is called by the real parser).
#include "squid.h"
#include "ip/Address.h"
#include "parser/BinaryTokenizer.h"
#include "parser/Tokenizer.h"
#include "proxyp/Elements.h"
#include "proxyp/Header.h"
#include "proxyp/Parser.h"
#include "sbuf/SBuf.h"
#include "sbuf/Stream.h"
#include "base/TextException.h"
#include "hcommon.h"

#include <netinet/in.h>

static SBuf sb(const std::string &hex) { std::string r = unhex(hex); return SBuf(r.data(), r.size()); }
static std::string hx(const SBuf &b) { return tohex(b.rawContent(), b.length()); }

static std::string addrHex(const Ip::Address &a) {
    struct in6_addr raw;
    a.getInAddr(raw);
    return tohex(reinterpret_cast<const char *>(&raw), sizeof(raw));
}

static std::string showHeader(const ProxyProtocol::Parsed &p) {
    std::ostringstream o;
    const auto &h = *p.header;
    o << "OK " << p.size
      << " v=" << hx(h.version())
      << " cmd=" << hx(h.getValues(ProxyProtocol::Two::htPseudoCommand))
      << " ign=" << (h.hasAddresses() ? 0 : 1)
      << " fwd=" << (h.hasForwardedAddresses() ? 1 : 0)
      << " fam=" << hx(h.addressFamily())
      << " src=" << addrHex(h.sourceAddress) << "/" << h.sourceAddress.port()
      << " dst=" << addrHex(h.destinationAddress) << "/" << h.destinationAddress.port()
      << " tlvs=";
    if (h.tlvs.empty()) o << "-";
    bool first = true;
    for (const auto &t : h.tlvs) {
        if (!first) o << ";";
        first = false;
        o << static_cast<unsigned>(t.type) << ":" << hx(t.value);
    }
    return o.str();
}

// outcome of one parse call as a canonical word sequence
static std::string parseOnce(const SBuf &in, ProxyProtocol::HeaderPointer *hdr = nullptr) {
    try {
        const auto parsed = ProxyProtocol::Parse(in);
        if (hdr) *hdr = parsed.header;
        return showHeader(parsed);
    } catch (const Parser::InsufficientInput &) {
        return "MORE";
    } catch (const TextException &e) {
        return "REJ";
    }
}

int main() {
    std::string line;
    while (std::getline(std::cin, line)) {
        auto a = splitws(line);
        if (a.empty()) { std::cout << "\n"; continue; }
        const std::string &op = a[0];
        std::ostringstream o;
        try {
            if (op == "ip") {
                std::string t = unhex(a[1]);
                Ip::Address addr;
                if (addr.GetHostByName(t.c_str())) o << "ok " << addrHex(addr);
                else o << "fail";
            }
            else if (op == "pp.parse") {
                o << parseOnce(sb(a[1]));
            }
            else if (op == "pp.prefixes") {
                const std::string raw = unhex(a[1]);
                std::string prev; size_t from = 0; bool first = true;
                for (size_t k = 0; k <= raw.size(); ++k) {
                    // a fresh buffer of exactly k bytes for every call
                    const std::string cur = parseOnce(SBuf(raw.data(), k));
                    if (k == 0) { prev = cur; continue; }
                    if (cur != prev) {
                        if (!first) o << " | ";
                        first = false;
                        o << from << "-" << (k - 1) << " " << prev;
                        prev = cur; from = k;
                    }
                }
                if (!first) o << " | ";
                o << from << "-" << raw.size() << " " << prev;
            }
            else if (op == "pp.values") {
                ProxyProtocol::HeaderPointer h;
                const std::string r = parseOnce(sb(a[3]), &h);
                if (!h) o << "none " << r.substr(0, 4);
                else o << "val " << hx(h->getValues(static_cast<uint32_t>(std::stoul(a[1])), static_cast<char>(std::stoi(a[2]))));
            }
            else if (op == "bt.seq") {
                Parser::BinaryTokenizer t(sb(a[3]), a[1] == "1");
                const std::string ops = a[2];
                try {
                    size_t i = 0;
                    auto num = [&]() { uint64_t v = 0; while (i < ops.size() && isdigit(ops[i])) v = v * 10 + (ops[i++] - '0'); return v; };
                    while (i < ops.size()) {
                        const char c = ops[i++];
                        if (c == 'b') { const auto v = t.uint8("u8"); o << "b" << static_cast<unsigned>(v) << " "; }
                        else if (c == 'w') { const auto v = t.uint16("u16"); o << "w" << v << " "; }
                        else if (c == 't') { const auto v = t.uint24("u24"); o << "t" << v << " "; }
                        else if (c == 'd') { const auto v = t.uint32("u32"); o << "d" << v << " "; }
                        else if (c == 'a') { const auto n = num(); const auto v = t.area(n, "area"); o << "a" << hx(v) << " "; }
                        else if (c == 's') { const auto n = num(); t.skip(n, "skip"); o << "s "; }
                        else if (c == 'p') { const auto v = t.pstring8("p8"); o << "p" << hx(v) << " "; }
                        else if (c == 'q') { const auto v = t.pstring16("p16"); o << "q" << hx(v) << " "; }
                        else if (c == 'r') { const auto v = t.pstring24("p24"); o << "r" << hx(v) << " "; }
                        else if (c == '4') { const auto v = t.inet4("in4"); o << "4" << addrHex(v) << " "; }
                        else if (c == '6') { const auto v = t.inet6("in6"); o << "6" << addrHex(v) << " "; }
                        else if (c == 'e') o << "e" << (t.atEnd() ? 1 : 0) << " ";
                        else if (c == ',') continue;
                        else o << "?";
                    }
                    o << "END parsed=" << t.parsed() << " left=" << hx(t.leftovers());
                } catch (const Parser::InsufficientInput &) { o << "MORE";
                } catch (const TextException &) { o << "REJ"; }
            }
            else o << "ERR unknown-entry " << op;
        } catch (const std::exception &e) { o.str(""); o << "EXC " << e.what(); }
        catch (...) { o.str(""); o << "EXC"; }
        std::cout << o.str() << "\n" << std::flush;
    }
    return 0;
}
