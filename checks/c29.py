"""C29: Cache-Control directives parse and re-serialise faithfully."""
import random, re
from vlib import std, hbuild, coq, recipes, common

PID = "C29"
META = {
    "text": "Theorems (Properties_C29.v, 14, all closed under the global context) about the Gallina transcription of "
            "HttpHdrCc::parse / packInto / setValue, httpHeaderParseQuotedString, httpHeaderQuoteString, strListGetItem "
            "(HopModel) and httpHeaderParseInt (TokModel), with the directive-name table, ids and special values "
            "regenerated from the code. For ALL field values: the parse loop is a fold over the strListGetItem elements "
            "and never runs out of fuel; numeric/quoted arguments are read from the element only although the C code "
            "passes a pointer into the whole value (C29_argument_reads_are_local); the parsed object EQUALS an "
            "independent first-match specification over the elements (C29_parse_exact: flags; numeric directives = first "
            "argument that is a non-negative int that fits; max-stale = first occurrence, valueless form if its argument "
            "is not such an int; private/no-cache = first (valid) quoted argument; unknown directives joined into "
            "`other`); an invalid, negative or out-of-range numeric argument leaves max-age/s-maxage/min-fresh/"
            "stale-if-error absent (C29_invalid_numeric_absent); for ALL arguments httpHeaderParseQuotedString is RFC 9110 "
            "quoted-string decoding with quoted-pairs unescaped and HTAB accepted (C29_quoted_string_is_rfc, against a "
            "character-at-a-time reference decoder; LWS folding and text after the closing quote are the two documented "
            "leniencies), and what httpHeaderQuoteString writes reads back (C29_quote_then_unquote); the parsed object "
            "is well formed; packInto writes the present known directives joined by ', ' (quoted texts re-quoted) and "
            "strListGetItem re-splits such text into exactly those elements; parse(pack(parse v)) = parse v whenever "
            "parse succeeds and there is no unknown directive (C29_pack_parse_roundtrip_partial; texts containing "
            "DQUOTE/backslash included). Tie: extracted model vs the real HttpHdrCc/HttpHeader/StrList/HttpHeaderTools "
            "compiled from the working tree (UBSan), 0 disagreements; independent Python oracle (element split, "
            "first-match semantics, RFC quoted-string, round trip incl. unknown directives) on every implementation answer.",
    "note": "partial: the round-trip THEOREM excludes objects with unknown directives (`other` non-empty); for those "
            "the round trip rests on the correspondence run and the oracle (which checks parse(pack(parse v)) on the "
            "real code for every generated value). The two former findings (quoted-pairs of DQUOTE/backslash mangled, "
            "HTAB rejected) were repaired in /repo (c6c56f5); their reproducers are regression cases and the oracle "
            "reports them as violations again if the repair is reverted. Trusted: Coq kernel, extraction, "
            "gen/gen_ccnames.cc (names via operator<<, ids and special values from HttpHdrCc.h), harness/h_cc.cc; "
            "CcModel.v is validated against the code only on the generated cases. Interpretation: `max-stale=<invalid>` "
            "is treated as valueless max-stale (the VALUE is absent, the directive is not), as the code documents; "
            "strtol's leniency (leading white space, sign, trailing garbage) is part of the modelled contract. parse() "
            "returning false (no known directive) means the object is discarded by HttpHeader::getCc, so the round "
            "trip is stated for successful parses. String's 64 KB limit and the defined/undefined distinction of empty "
            "Strings are not modelled.",
    "technique": "Coq proof (fold invariants over the element list, locality lemmas for strtol / quoted-string reads past "
                 "the element, refinement of the run-based quoted-string loop to a character-at-a-time RFC decoder, "
                 "scanner lemmas for joined text, vm_compute over the regenerated name table) + "
                 "extracted-model differential correspondence + independent Python oracle on the implementation's answers",
}

FRESH = ["src/HttpHdrCc.cc", "src/HttpHeaderTools.cc", "src/HttpHeader.cc", "src/StrList.cc"]
UB = ["-O1", "-g", "-fsanitize=undefined", "-fno-sanitize=vptr", "-fno-sanitize-recover=all"]
# the harness defines `Config` itself (as tests/testHttpReply.cc does)
LINK = [x for x in recipes.HTTPREPLY if x != "SquidConfig.o"]


def impl():
    return hbuild.build("h_cc", "h_cc.cc", fresh=FRESH, link=LINK, sanitize=None,
                        flags=UB, syslibs=["-fsanitize=undefined"] + hbuild.SYSLIBS)


def prebuild():
    impl()


def hx(b):
    return bytes(b).hex() if len(b) else "-"


def unhx(h):
    return b"" if h == "-" else bytes.fromhex(h)


# ------------------------------------------------------------------ the property, stated independently
# RFC 9111 directive names, bit = position (HttpHdrCcType order is checked through the mask the code reports)
NAMES = [b"public", b"private", b"no-cache", b"no-store", b"no-transform", b"must-revalidate", b"proxy-revalidate",
         b"max-age", b"s-maxage", b"max-stale", b"min-fresh", b"only-if-cached", b"stale-if-error", b"immutable"]
BIT = {n: i for i, n in enumerate(NAMES)}
NUMERIC = [b"max-age", b"s-maxage", b"min-fresh", b"stale-if-error"]
FLAGS = [b"public", b"no-store", b"no-transform", b"must-revalidate", b"proxy-revalidate", b"only-if-cached", b"immutable"]
FIELD = {b"max-age": "ma", b"s-maxage": "sm", b"max-stale": "ms", b"stale-if-error": "sie", b"min-fresh": "mf"}
WS = b" \t\r\n\x0b\x0c"
INT_MAX = 2 ** 31 - 1


def elements(v):
    """comma-separated list elements: commas inside a quoted string (with backslash escapes) do not separate;
    elements are trimmed of white space and empty ones are skipped"""
    v = v.split(b"\0")[0]
    out, cur, q, i = [], bytearray(), False, 0
    while i < len(v):
        c = v[i]
        if q:
            cur.append(c)
            if c == 0x22:
                q = False
            elif c == 0x5c and i + 1 < len(v):
                cur.append(v[i + 1]); i += 1
        else:
            if c == 0x2c:
                out.append(bytes(cur)); cur = bytearray()
            else:
                cur.append(c)
                if c == 0x22:
                    q = True
        i += 1
    out.append(bytes(cur))
    # leading white space is dropped only up to the element's first byte; an element that starts inside
    # the text always starts at a non-blank byte
    return [e.strip(WS) for e in out if e.strip(WS)]


def numeric(arg):
    """a non-negative decimal int; the documented leniency of strtol is part of the contract: leading white space,
    an optional sign and trailing garbage are tolerated, but a zero must start with a digit"""
    if arg is None:
        return None
    m = re.match(rb"[ \t\r\n\x0b\x0c]*([+-]?)([0-9]+)", arg)
    if not m:
        return None
    val = int(m.group(2))
    if m.group(1) == b"-":
        val = -val
    if val < 0 or val > INT_MAX:
        return None
    if val == 0 and not arg[:1].isdigit():
        return None
    return val


def quoted(arg):
    """RFC 2616/7230 quoted-string at the start of arg -> ('ok', text) | ('bad', None) | ('unclear', None).
    quoted-pair unescapes to the escaped octet; LWS folding ([CR] LF (SP|HT)) reads as one SP; HTAB is qdtext.
    Text after the closing quote is ignored (leniency of the code, part of the contract)."""
    if not arg[:1] == b'"':
        return ("bad", None)
    out, i = bytearray(), 1
    while True:
        if i >= len(arg):
            return ("bad", None)
        c = arg[i]
        if c == 0x22:
            return ("ok", bytes(out))
        if c == 0x5c:
            if i + 1 >= len(arg):
                return ("bad", None)
            d = arg[i + 1]
            if d < 0x20 and d != 9 or d == 0x7f:
                return ("unclear", None)
            out.append(d); i += 2
        elif c == 13 or c == 10:
            if c == 13:
                i += 1
                if i >= len(arg) or arg[i] != 10:
                    return ("bad", None)
            i += 1
            if i >= len(arg) or arg[i] not in (32, 9):
                return ("bad", None)
            out.append(32); i += 1
        elif c == 9 or (c >= 0x20 and c != 0x7f):
            out.append(c); i += 1
        else:
            return ("bad", None)


def expected(v):
    """the directives present in v; fields whose deciding element is outside the clear grammar are None (no verdict)"""
    els = elements(v)
    exp = {"mask": 0, "ma": -1, "sm": -1, "ms": -1, "sie": -1, "mf": -1, "pv": b"", "nc": b"", "ot": None,
           "why": {}}
    other = []
    done = set()
    for e in els:
        k = e.find(b"=")
        name, arg = (e, None) if k < 0 else (e[:k], e[k + 1:])
        n = name.lower() if all(c < 128 for c in name) else name
        # ASCII-only case folding
        n = bytes((c + 32 if 65 <= c <= 90 else c) for c in name)
        if n not in BIT:
            other.append(e); continue
        if n in done:
            continue
        if n in FLAGS:
            exp["mask"] |= 1 << BIT[n]; done.add(n)
        elif n in NUMERIC:
            val = numeric(arg)
            if val is not None:
                exp["mask"] |= 1 << BIT[n]; exp[FIELD[n]] = val; done.add(n)
        elif n == b"max-stale":
            val = numeric(arg)
            exp["mask"] |= 1 << BIT[n]; exp["ms"] = INT_MAX if val is None else val; done.add(n)
        elif n == b"private":
            exp["mask"] |= 1 << BIT[n]; done.add(n)
            if arg is not None:
                st, txt = quoted(arg)
                if st == "ok":
                    exp["pv"] = txt
                elif st == "unclear":
                    exp["pv"] = None
                exp["why"].setdefault("pv", []).append(arg)
        elif n == b"no-cache":
            if arg is None:
                exp["mask"] |= 1 << BIT[n]; done.add(n)
            else:
                st, txt = quoted(arg)
                exp["why"].setdefault("nc", []).append(arg)
                if st == "ok":
                    exp["mask"] |= 1 << BIT[n]; exp["nc"] = txt; done.add(n)
                elif st == "unclear":
                    exp["nc"] = None; exp["mask_nc_unclear"] = True; done.add(n)
    exp["ot"] = b", ".join(other)
    return exp


def parse_state(txt):
    d = {}
    for w in txt.split():
        if "=" in w:
            k, x = w.split("=", 1)
            d[k] = x
    return d


def has_special_pair(arg):
    """does the quoted argument contain an escaped DQUOTE or backslash before its closing quote?"""
    i = 1
    while i < len(arg):
        c = arg[i]
        if c == 0x22:
            return False
        if c == 0x5c:
            if i + 1 < len(arg) and arg[i + 1] in (0x22, 0x5c):
                return True
            i += 2
        else:
            i += 1
    return False


def has_htab(arg):
    """does the quoted argument contain an HTAB (bare or escaped, not the one of a fold) before its closing quote?"""
    i = 1
    while i < len(arg):
        c = arg[i]
        if c == 0x22:
            return False
        if c == 9 and arg[i - 1] != 10:
            return True
        if c == 0x5c:
            if i + 1 < len(arg) and arg[i + 1] == 9:
                return True
            i += 2
        else:
            i += 1
    return False


def classify(args):
    """names the (repaired) defect class of httpHeaderParseQuotedString a deviation belongs to, for a readable signature"""
    if any(has_special_pair(a) for a in args):
        return "oracle:qs-quoted-pair-mangled"
    if any(has_htab(a) for a in args):
        return "oracle:qs-htab-rejected"
    return None


def oracle_cc(v, out):
    parts = [p.strip() for p in out.split("|")]
    if len(parts) != 3:
        return ("oracle:format", "unparsable implementation output %r" % out[:120])
    s1, pk, s2 = parse_state(parts[0]), parts[1], parse_state(parts[2])
    exp = expected(v)
    mask = int(s1["m"])
    if mask >> 14:
        return ("oracle:mask-range", "mask has bits at or above CC_OTHER set: %d" % mask)
    emask = exp["mask"]
    ncbit = 1 << BIT[b"no-cache"]
    cmp_mask = ~ncbit if exp.get("mask_nc_unclear") else -1
    # ---- invalid numeric => absent (own signature)
    for n in NUMERIC:
        b = 1 << BIT[n]
        if (mask & b) and not (emask & b):
            return ("oracle:invalid-numeric-not-absent:" + n.decode(),
                    "%s is reported present (value %s) although no element carries a non-negative int that fits" %
                    (n.decode(), s1[FIELD[n]]))
    # ---- quoted arguments; the two known deviations of httpHeaderParseQuotedString get their own signatures
    for fld, bit in (("pv", 1 << BIT[b"private"]), ("nc", ncbit)):
        if exp[fld] is None:
            continue
        got = unhx(s1[fld])
        args = exp["why"].get(fld, [])
        bit_ok = (mask & bit) == (emask & bit)
        if got != exp[fld] or not bit_ok:
            sig = classify(args)
            if sig:
                return (sig + ":" + fld,
                        "quoted argument(s) %r should read as %r (RFC quoted-string: quoted-pair unescaped, HTAB is qdtext) "
                        "but the code reports %r%s" % (args, exp[fld], got, "" if bit_ok else " and a different presence bit"))
            if got != exp[fld]:
                return ("oracle:quoted-value:" + fld, "expected %r, code reports %r" % (exp[fld], got))
    if (mask & cmp_mask) != (emask & cmp_mask):
        return ("oracle:mask", "directives present: expected mask %d, code reports %d" % (emask, mask))
    for n, f in FIELD.items():
        if int(s1[f]) != exp[f]:
            return ("oracle:numeric-value:" + n.decode(), "expected %s=%d, code reports %s" % (n.decode(), exp[f], s1[f]))
    if unhx(s1["ot"]) != exp["ot"]:
        return ("oracle:other", "unknown directives: expected %r, code reports %r" % (exp["ot"], unhx(s1["ot"])))
    if s1["r"] != ("1" if mask else "0"):
        return ("oracle:return", "parse() returned %s with mask %d" % (s1["r"], mask))
    if "BAD-ACCESSOR" in parts[0] or "BAD-ACCESSOR" in parts[2]:
        return ("oracle:accessor", "has*() accessors disagree with the stored members")
    # ---- round trip
    if s1["r"] == "1":
        for k in ("r", "m", "ma", "sm", "ms", "sie", "mf", "pv", "nc", "ot"):
            if s1[k] != s2[k]:
                return ("oracle:roundtrip:" + k, "parse(pack(parse v)) differs from parse v in %s: %s vs %s (packed %r)" %
                        (k, s2[k], s1[k], unhx(pk.split("=", 1)[1])))
    else:
        if pk != "pk=-":
            return ("oracle:pack-empty", "an object without known directives packed to %s" % pk)
    return None


def oracle_qs(ln, s, out):
    s = s.split(b"\0")[0]
    if ln != len(s):
        # a shorter window than the text: only sanity (no CTL other than HTAB can come out of a quoted-string)
        if out.startswith("ok"):
            got = unhx(out.split()[1])
            if any(c == 0x7f or (c < 0x20 and c != 9) for c in got):
                return ("oracle:qs-charset", "result contains a control byte that cannot come out of a quoted-string: %r" % got)
        return None
    st, txt = quoted(s)
    if st == "unclear":
        return None
    if st == "bad":
        return None if out == "fail" else ((classify([s]) or "oracle:qs-accepts-invalid") + ":qs",
                                           "invalid quoted-string %r accepted: %s" % (s, out))
    if out == "ok " + hx(txt):
        return None
    return ((classify([s]) or "oracle:qs-value") + ":qs", "quoted-string %r should read as %r; code: %s" % (s, txt, out))


def oracle(case, out):
    if out.startswith(("CRASH", "EXC", "ERR", "FUEL")) or "runtime error" in out:
        return ("oracle:crash", "implementation crashed / threw: " + out[:200])
    a = case.split()
    try:
        if a[0] == "cc":
            return oracle_cc(unhx(a[1]), out)
        if a[0] == "it":
            els = elements(unhx(a[1]))
            exp = "%d%s" % (len(els), "".join(" " + hx(e) for e in els))
            return None if out == exp else ("oracle:items", "list elements: expected %s" % exp[:200])
        if a[0] == "qs":
            return oracle_qs(int(a[1]), unhx(a[2]), out)
        if a[0] == "cc2":
            # second parse() into the same object: directives already present are kept (duplicates ignored)
            s1 = parse_state(out)
            e1 = expected(unhx(a[1]))
            m = int(s1["m"])
            for n in FLAGS:
                b = 1 << BIT[n]
                if (e1["mask"] & b) and not (m & b):
                    return ("oracle:cc2-lost", "directive %s of the first value was lost" % n.decode())
            return None
    except Exception as ex:
        return ("oracle:format", "unparsable implementation output %r (%s)" % (out[:100], ex))
    return None


# ------------------------------------------------------------------ generators
def case_variant(rng, n):
    k = rng.random()
    if k < 0.55:
        return n
    if k < 0.7:
        return n.upper()
    if k < 0.8:
        return n.capitalize()
    return bytes((c - 32 if 97 <= c <= 122 and rng.random() < 0.5 else c) for c in n)


BIGS = [INT_MAX, INT_MAX + 1, INT_MAX - 1, 2 ** 32, 2 ** 32 + 100, 2 ** 32 - 1, 2 ** 63 - 1, 2 ** 63, 2 ** 64, 2 ** 64 + 5,
        10 ** 19, 10 ** 30, 4294967396, 9999999999]
JUNKNUM = [b"", b"x", b"5x", b"+5", b" 5", b"\t7", b"-0", b"+0", b" 0", b"00", b"0", b"007", b"-1", b"-5", b"- 5", b"--5",
           b"\"5\"", b"5 6", b"0x10", b"5.5", b"1e3", b"=5", b"\x0b5", b"-2147483648", b"-2147483649", b"-99999999999999999999",
           b"+2147483647", b"+2147483648", b"5\"", b"5,6"]
FIELDNAMES = [b"Set-Cookie", b"Age", b"X-A", b"set-cookie2", b"a", b""]
XNAMES = [b"foo", b"community", b"x-ext", b"max-age2", b"maxage", b"no", b"private-", b"Other", b"s-max-age", b"stale-while-revalidate",
          b"pre-check", b"post-check", b"\xe9t\xe9", b"MAX_AGE"]
SEPS = [b",", b", ", b", ", b", ", b" , ", b",,", b", ,", b",\t", b", \x0b", b",\x0c ", b" ,\r\n ", b",  "]


def rand_qcontent(rng):
    k = rng.random()
    if k < 0.45:
        return b", ".join(rng.choice(FIELDNAMES) for _ in range(rng.choice([1, 1, 2, 3])))
    if k < 0.6:
        return rng.choice([b"a\\\"b", b"a\\\\b", b"\\\"", b"\\\\", b"a\\bc", b"\\a\\b", b"x\\\"", b"a\\\\", b"a\\\\\\\"b"])
    if k < 0.7:
        return rng.choice([b"a\tb", b"A,\tB", b"\t", b"a\r\n b", b"a\n\tb", b"a\nb", b"a\rb", b"a\r\nb", b"a\x01b", b"a\x7fb",
                           b"a\x1fb", b"\xffz", b"a\\\tb", b"a\\\rb", b"a\\\nb"])
    if k < 0.8:
        return bytes(rng.choice(b"ab,\\\" \t=;-") for _ in range(rng.randrange(0, 8)))
    if k < 0.9:
        return b""
    return bytes(rng.choice([rng.randrange(1, 256), rng.randrange(32, 127)]) for _ in range(rng.randrange(1, 6))).replace(b"\"", b"")


def rand_qarg(rng):
    c = rand_qcontent(rng)
    k = rng.random()
    if k < 0.72:
        return b"\"" + c + b"\""
    if k < 0.80:
        return b"\"" + c                      # unterminated
    if k < 0.86:
        return c or b"x"                      # token, not quoted
    if k < 0.92:
        return b"\"" + c + b"\"junk"
    if k < 0.96:
        return b" \"" + c + b"\""
    return b""


def rand_num(rng):
    k = rng.random()
    if k < 0.5:
        return str(rng.choice([0, 1, 5, 60, 3600, 86400, 31536000, rng.randrange(0, 10 ** 6)])).encode()
    if k < 0.7:
        return str(rng.choice(BIGS) + rng.choice([0, 0, 1, -1])).encode()
    if k < 0.93:
        return rng.choice(JUNKNUM)
    return str(rng.randrange(10 ** 8, 10 ** 12)).encode()


def rand_directive(rng, bias):
    k = rng.random()
    if k < bias["flag"]:
        n = case_variant(rng, rng.choice(FLAGS))
        return n + (b"=" + rng.choice([b"1", b"\"x\"", b""]) if rng.random() < 0.1 else b"")
    if k < bias["num"]:
        n = case_variant(rng, rng.choice(NUMERIC + [b"max-stale", b"max-age"]))
        if rng.random() < 0.12:
            return n
        return n + b"=" + rand_num(rng)
    if k < bias["quoted"]:
        n = case_variant(rng, rng.choice([b"private", b"no-cache"]))
        if rng.random() < 0.3:
            return n
        return n + b"=" + rand_qarg(rng)
    n = rng.choice(XNAMES)
    j = rng.random()
    if j < 0.4:
        return n
    if j < 0.6:
        return n + b"=" + rand_num(rng)
    if j < 0.8:
        return n + b"=" + rand_qarg(rng)
    return n + b"=" + rng.choice([b"tok", b"a b", b"\"a,b\"", b"\"", b"a=b"])


BIASES = [
    {"flag": 0.3, "num": 0.6, "quoted": 0.8},
    {"flag": 0.1, "num": 0.8, "quoted": 0.85},      # numeric heavy
    {"flag": 0.1, "num": 0.2, "quoted": 0.85},      # quoted heavy
    {"flag": 0.0, "num": 0.0, "quoted": 0.0},       # unknown only (parse fails)
    {"flag": 0.0, "num": 0.45, "quoted": 0.45},     # numeric + unknown (often all invalid)
]


def rand_value(rng):
    bias = rng.choice(BIASES)
    n = rng.choice([0, 1, 1, 2, 2, 3, 4, 6, 9])
    ds = [rand_directive(rng, bias) for _ in range(n)]
    if ds and rng.random() < 0.25:
        ds.insert(rng.randrange(len(ds) + 1), rng.choice(ds))                 # duplicate
    if ds and rng.random() < 0.15:
        d = rng.choice(ds); k = d.find(b"=")
        ds.append((d[:k] if k >= 0 else d) + b"=" + rand_num(rng))             # same name, other argument
    v = rng.choice([b"", b"", b"", b" ", b",", b", ", b"\t"])
    for i, d in enumerate(ds):
        if i:
            v += rng.choice(SEPS)
        v += d
    v += rng.choice([b"", b"", b"", b" ", b",", b" ,", b"\r\n", b"\x0b"])
    return v


def mutate_bytes(rng, v):
    b = bytearray(v)
    for _ in range(rng.choice([1, 1, 2, 3])):
        k = rng.random()
        pos = rng.randrange(len(b) + 1)
        ch = rng.choice([0x22, 0x5c, 0x2c, 0x3d, 0x20, 9, 13, 10, 11, 12, 0x30, 0x39, 0x2d, 0x2b, 0, 0x7f, 0xff,
                         rng.randrange(256)])
        if k < 0.4:
            b.insert(pos, ch)
        elif k < 0.7 and b:
            b[min(pos, len(b) - 1)] = ch
        elif b:
            del b[min(pos, len(b) - 1)]
    return bytes(b)


QS_ALPHA = [0x22, 0x5c, 0x61, 0x62, 0x2c, 0x20, 9, 13, 10, 1, 0x1f, 0x7f, 0x80, 0xff, 0x3d]


def rand_qs_case(rng):
    k = rng.random()
    if k < 0.5:
        s = rand_qarg(rng)
    else:
        s = bytes(rng.choice(QS_ALPHA) for _ in range(rng.randrange(0, 9)))
        if rng.random() < 0.7:
            s = b"\"" + s
        if rng.random() < 0.5:
            s += b"\""
    s = s.replace(b"\0", b"")
    ln = rng.choice([len(s), len(s), len(s), max(len(s) - 1, 0), max(len(s) - 2, 0), 0, 1, 2, rng.randrange(0, len(s) + 1)])
    return "qs %d %s" % (ln, hx(s))


def gen_cases(rng, n):
    cases = []
    for _ in range(n):
        k = rng.random()
        if k < 0.62:
            cases.append("cc " + hx(rand_value(rng)))
        elif k < 0.80:
            cases.append("cc " + hx(mutate_bytes(rng, rand_value(rng))))
        elif k < 0.90:
            cases.append(rand_qs_case(rng))
        elif k < 0.96:
            v = rand_value(rng)
            cases.append("it " + hx(mutate_bytes(rng, v) if rng.random() < 0.5 else v))
        else:
            cases.append("cc2 %s %s" % (hx(rand_value(rng)), hx(rand_value(rng))))
    return cases


def mutate(rng, case):
    a = case.split()
    if a[0] == "qs":
        s = mutate_bytes(rng, unhx(a[2])).replace(b"\0", b"")
        return "qs %d %s" % (min(int(a[1]), len(s)) if rng.random() < 0.5 else len(s), hx(s))
    a[-1] = hx(mutate_bytes(rng, unhx(a[-1])))
    return " ".join(a)


def kind(c, o):
    op = c.split()[0]
    if op == "cc":
        st = parse_state(o.split("|")[0])
        m = int(st.get("m", "0"))
        if not m:
            return "cc:rejected"
        return "cc:ok" + ("+num" if m & 0x1780 else "") + ("+quoted" if st.get("pv", "-") != "-" or st.get("nc", "-") != "-" else "") + \
               ("+other" if st.get("ot", "-") != "-" else "")
    if op == "qs":
        return "qs:" + o.split()[0]
    return op


def nontrivial(c, o):
    op = c.split()[0]
    if op == "cc":
        return " m=0 " not in o.split("|")[0]
    if op == "qs":
        return o.startswith("ok")
    return not o.startswith("0")


def run(res, tier):
    res.rule = ("Cache-Control values built from known directives (case variants, duplicates, numeric arguments around "
                "INT_MAX / 2^32 / 2^63 / negative / junk, quoted field lists with commas, quoted-pairs, HTAB, folds, CTLs, "
                "unterminated or unquoted), unknown extensions, separators with every white-space byte, plus byte-level "
                "mutations (quotes, backslashes, '=', NUL); direct httpHeaderParseQuotedString calls with every window "
                "length; a case is non-trivial when at least one known directive was recognised")
    std.run_standard(res, PID, tier, area="cc", build_impl=impl, gen_cases=gen_cases, oracle=oracle,
                     corr_name="CcModel vs src/HttpHdrCc.cc, src/HttpHeader.cc (httpHeaderParseQuotedString), "
                               "src/StrList.cc, src/HttpHeaderTools.cc",
                     gens=["ccnames"], n_quick=40000, n_thorough=600000, seed_salt=29, mutate=mutate,
                     kind_fn=kind, nontrivial_fn=nontrivial)
