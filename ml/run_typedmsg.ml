(* handlers for the typedmsg area (src/ipc/TypedMsgHdr.cc): one case = one operation history *)
let parse_top (s : string) =
  match String.split_on_char ':' s with
  | ["T"; t] -> TSetType (z_of_string t)
  | ["I"; z] -> TPutInt (z_of_string z)
  | ["P"; h] -> TPutFixed (bytes_of_hex h)
  | ["F"; h] -> TPutFixed (bytes_of_hex h)
  | ["S"; h] -> TPutString (bytes_of_hex h)
  | ["X"] -> TRecv
  | ["Y"] -> TCopy
  | ["R"; ty; sz; fill; pos; h] -> TReset (z_of_string ty, n_of_string sz, raw_of (n_of_string fill) (n_of_string pos) (bytes_of_hex h))
  | ["t"; t] -> TCheckType (z_of_string t)
  | ["y"] -> TRawType
  | ["i"] -> TGetInt
  | ["p"; n] -> TGetFixed (n_of_string n)
  | ["f"; n] -> TGetFixed (n_of_string n)
  | ["s"] -> TGetString
  | ["h"] -> THasMore
  | ["D"] -> TDump
  | _ -> failwith "bad-op"

let () =
  reg "tm.run" (fun opss ->
    let ops = List.map parse_top opss in
    let (outs, _) = tm_run tm_fresh ops in
    String.concat " " (List.map (fun ((out, sz), off) ->
      (match out with
       | OOk -> "ok"
       | OThrow -> "EXC"
       | OUndef -> "UNDEF"
       | OInt z -> "=" ^ string_of_z z
       | OBytes b -> "=" ^ hex_of_bytes b
       | OBool b -> "=" ^ b2s b
       | ODump (ty, p) -> "=" ^ string_of_z ty ^ "/" ^ hex_of_bytes p)
      ^ "@" ^ string_of_n sz ^ "," ^ string_of_n off) outs))
