(* SbufModel.v — src/sbuf/SBuf.cc + src/sbuf/MemBlob.cc as executable Gallina (C48).

   A heap is a list of MemBlobs (used bytes, capacity, RefCount lock count); an SBuf is
   (blob id, off_, len_).  Methods take the heap and the `this` object by value and give
   back the new heap and the new `this`; RefCount<MemBlob> copies/destructions are explicit
   lock/unlock calls, and a blob whose count drops to zero is destroyed (its bytes are gone).
   `const char *` arguments are either external memory (SLit) or pointers into a blob (SPtr),
   read at the moment the code reads them.  size_type arithmetic that can see caller-supplied
   huge values wraps modulo 2^32 exactly where the code's does (add32 / sub32). *)
Require Import SquidV.Bytes.
Require Import SquidV.gen.Sbuf_gen.
Local Open Scope N_scope.

Definition maxSize : N := gen_maxSize.   (* SBuf::maxSize *)
Definition npos : N := gen_npos.         (* SBuf::npos *)
Definition two32 : N := 4294967296.
Definition add32 (a b : N) : N := (a + b) mod two32.
Definition sub32 (a b : N) : N := if b <=? a then a - b else a + two32 - b.

Record blob := mkBlob { bdata : bytes;   (* mem[0, size) : the used area; size = lenN bdata *)
                        bcap : N;        (* capacity *)
                        blocks : N }.    (* LockCount() *)
Record sbuf := mkSBuf { sstore : nat; soff : N; slen : N }.
Definition heap := list blob.
Definition dead : blob := mkBlob [] 0 0.
Definition getb (h : heap) (id : nat) : blob := nth id h dead.
Fixpoint setb (h : heap) (id : nat) (b : blob) : heap :=
  match h, id with
  | [], _ => []
  | _ :: r, O => b :: r
  | x :: r, S k => x :: setb r k b
  end.
Definition bsize (b : blob) : N := lenN (bdata b).
Definition set_data (h : heap) (id : nat) (d : bytes) : heap :=
  setb h id (mkBlob d (bcap (getb h id)) (blocks (getb h id))).

(* replace element pos of a byte string (mem[pos] = c) *)
Fixpoint pokeN (l : bytes) (pos : N) (c : N) : bytes :=
  match l with
  | [] => []
  | x :: r => if pos =? 0 then c :: r else x :: pokeN r (N.pred pos) c
  end.

(* result of a method: normal return, C++ exception (the heap as left behind by the code
   that ran before the throw; `this` fields are unchanged), or a read/write outside every
   modelled object (Undef: never produced from a well-formed state — see SbufProofs) *)
Inductive res (A : Type) : Type :=
| Ok (a : A)
| Throw (h : heap)
| Undef.
Arguments Ok {A} a.
Arguments Throw {A} h.
Arguments Undef {A}.

Inductive src := SLit (w : bytes) | SPtr (id : nat) (off : N).

Section Model.
(* memAllocBuf(net, &gross): the gross size handed back for a net request. External to the
   anchored files (src/mem); contract assumed by the theorems: n <= alloc_cap n. *)
Variable alloc_cap : N -> N.

(* ---------- RefCount<MemBlob> ---------- *)
Definition lock (h : heap) (id : nat) : heap :=
  let b := getb h id in setb h id (mkBlob (bdata b) (bcap b) (blocks b + 1)).
Definition unlock (h : heap) (id : nat) : heap :=
  let b := getb h id in
  if blocks b <=? 1 then setb h id dead                      (* ~MemBlob *)
  else setb h id (mkBlob (bdata b) (bcap b) (blocks b - 1)).

(* ---------- MemBlob ---------- *)
(* new MemBlob(reserveSize): memAlloc; the object starts with LockCount 0 *)
Definition mb_new (h : heap) (n : N) : heap * nat := (h ++ [mkBlob [] (alloc_cap n) 0], length h).
Definition mb_spaceSize (b : blob) : N := bcap b - bsize b.
Definition mb_willFit (b : blob) (n : N) : bool := n <=? mb_spaceSize b.
Definition mb_canAppend (b : blob) (off n : N) : bool := ((off =? bsize b) && mb_willFit b n) || (n =? 0).

Definition read_src (h : heap) (s : src) (n : N) : bytes :=
  match s with
  | SLit w => takeN n w
  | SPtr id off => takeN n (dropN off (bdata (getb h id)))
  end.

(* MemBlob::append(source, n) *)
Definition mb_append (h : heap) (id : nat) (s : src) (n : N) : res heap :=
  if n =? 0 then Ok h else
  let b := getb h id in
  if negb (mb_willFit b n) then Throw h else
  let w := read_src h s n in
  if lenN w <? n then Undef                                  (* source range not inside a live object *)
  else Ok (set_data h id (bdata b ++ w)).

(* ---------- SBuf internals ---------- *)
Definition sb_spaceSize (h : heap) (s : sbuf) : N := mb_spaceSize (getb h (sstore s)).

(* SBuf::reAlloc(newsize) *)
Definition reAlloc (h : heap) (s : sbuf) (newsize : N) : res (heap * sbuf) :=
  if maxSize <? newsize then Throw h else
  let '(h1, id) := mb_new h newsize in
  let h1 := lock h1 id in                                     (* MemBlob::Pointer newbuf *)
  match (if 0 <? slen s then mb_append h1 id (SPtr (sstore s) (soff s)) (slen s) else Ok h1) with
  | Ok h2 => Ok (unlock h2 (sstore s), mkSBuf id 0 (slen s))  (* store_ = newbuf; off_ = 0 *)
  | Throw h2 => Throw (unlock h2 id)
  | Undef => Undef
  end.

(* SBuf::cow(newsize) *)
Definition cow (h : heap) (s : sbuf) (newsize0 : N) : res (heap * sbuf) :=
  let newsize := if (newsize0 =? npos) || (newsize0 <? slen s) then slen s else newsize0 in
  let id := sstore s in
  let b := getb h id in
  if blocks b =? 1 then
    (* store_->syncSize(off_ + length()) *)
    if bsize b <? soff s + slen s then Throw h else
    let h1 := set_data h id (takeN (soff s + slen s) (bdata b)) in
    let availableSpace := bcap b - (soff s + slen s) in
    let neededSpace := newsize - slen s in
    if neededSpace <=? availableSpace then Ok (h1, s)
    else if neededSpace <=? availableSpace + soff s then
      (* store_->consume(off_); off_ = 0 *)
      Ok (set_data h1 id (dropN (soff s) (bdata (getb h1 id))), mkSBuf id 0 (slen s))
    else reAlloc h1 s newsize
  else reAlloc h s newsize.

(* SBuf::rawSpace(minSpace) *)
Definition rawSpace (h : heap) (s : sbuf) (minSpace : N) : res (heap * sbuf) :=
  if sub32 maxSize minSpace <? slen s then Throw h else
  if mb_canAppend (getb h (sstore s)) (soff s + slen s) minSpace then Ok (h, s)
  else cow h s (add32 minSpace (slen s)).

(* SBuf::lowAppend(memArea, areaSize) *)
Definition lowAppend (h : heap) (s : sbuf) (p : src) (n : N) : res (heap * sbuf) :=
  match rawSpace h s n with
  | Ok (h1, s1) =>
      match mb_append h1 (sstore s1) p n with
      | Ok h2 => Ok (h2, mkSBuf (sstore s1) (soff s1) (slen s1 + n))
      | Throw h2 => Throw h2
      | Undef => Undef
      end
  | Throw h1 => Throw h1
  | Undef => Undef
  end.

(* SBuf::Locker(this, otherBuffer) ... ~Locker around a method body *)
Definition locker_hits (h : heap) (s : sbuf) (p : src) : bool :=
  match p with
  | SLit _ => false
  | SPtr id off => Nat.eqb id (sstore s) && (off <? bcap (getb h (sstore s)))
  end.
Definition with_locker {A} (h : heap) (s : sbuf) (p : src) (body : heap -> res (heap * A)) : res (heap * A) :=
  if locker_hits h s p then
    let id := sstore s in
    match body (lock h id) with
    | Ok (h1, a) => Ok (unlock h1 id, a)
    | Throw h1 => Throw (unlock h1 id)
    | Undef => Undef
    end
  else body h.

(* ---------- SBuf public operations ---------- *)
(* SBuf::clear() *)
Definition sb_clear (h : heap) (s : sbuf) : heap * sbuf :=
  let h1 := if blocks (getb h (sstore s)) =? 1 then set_data h (sstore s) [] else h in
  (h1, mkSBuf (sstore s) 0 0).

(* SBuf::assign(const SBuf &S), S a different object *)
Definition sb_assign (h : heap) (s S : sbuf) : heap * sbuf :=
  (unlock (lock h (sstore S)) (sstore s), S).

(* SBuf::append(const char *S, size_type Ssize), S != nullptr, Ssize != npos *)
Definition sb_append_raw (h : heap) (s : sbuf) (p : src) (n : N) : res (heap * sbuf) :=
  with_locker h s p (fun h0 => lowAppend h0 s p n).

(* SBuf::assign(const char *S, size_type n) *)
Definition sb_assign_raw (h : heap) (s : sbuf) (p : src) (n : N) : res (heap * sbuf) :=
  with_locker h s p (fun h0 => let '(h1, s1) := sb_clear h0 s in sb_append_raw h1 s1 p n).

(* SBuf::append(const SBuf &S); self = (&S == this) *)
Definition sb_append (h : heap) (s S : sbuf) (self : bool) : res (heap * sbuf) :=
  if (slen s =? 0) && Nat.eqb (sstore s) 0 then
    (if self then Ok (h, s) else Ok (sb_assign h s S))
  else
    let p := SPtr (sstore S) (soff S) in
    with_locker h s p (fun h0 => lowAppend h0 s p (slen S)).

(* SBuf::chop(pos, n) *)
Definition sb_chop (h : heap) (s : sbuf) (pos0 n0 : N) : heap * sbuf :=
  let pos := if (pos0 =? npos) || (slen s <? pos0) then slen s else pos0 in
  let n := if (n0 =? npos) || (slen s <? add32 pos n0) then slen s - pos else n0 in
  if (pos =? slen s) || (n =? 0) then sb_clear h s
  else (h, mkSBuf (sstore s) (soff s + pos) n).

(* SBuf::substr(pos, n): the returned temporary (holds one lock on the blob) *)
Definition sb_substr (h : heap) (s : sbuf) (pos n : N) : heap * sbuf :=
  sb_chop (lock h (sstore s)) s pos n.

(* SBuf::trim(toRemove, atBeginning, atEnd); alias = (&toRemove == this) *)
Definition memb (c : N) (l : bytes) : bool := existsb (N.eqb c) l.
Fixpoint trim_end_loop (alias : bool) (R : bytes) (rc : bytes) : bytes :=
  match rc with
  | [] => []
  | x :: r => if memb x (if alias then rev rc else R) then trim_end_loop alias R r else rc
  end.
Fixpoint trim_begin_loop (alias : bool) (R : bytes) (c : bytes) : bytes :=
  match c with
  | [] => []
  | x :: r => if memb x (if alias then c else R) then trim_begin_loop alias R r else c
  end.
Definition content (h : heap) (s : sbuf) : bytes :=
  takeN (slen s) (dropN (soff s) (bdata (getb h (sstore s)))).
Definition sb_trim (h : heap) (s : sbuf) (R : bytes) (alias atBeginning atEnd : bool) : heap * sbuf :=
  let c0 := content h s in
  let c1 := if atEnd then rev (trim_end_loop alias R (rev c0)) else c0 in
  let c2 := if atBeginning then trim_begin_loop alias R c1 else c1 in
  let s2 := mkSBuf (sstore s) (soff s + (lenN c1 - lenN c2)) (lenN c2) in
  if slen s2 =? 0 then sb_clear h s2 else (h, s2).

(* SBuf::setAt(pos, toset) *)
Definition sb_setAt (h : heap) (s : sbuf) (pos c : N) : res (heap * sbuf) :=
  if negb (pos <? slen s) then Throw h else
  match cow h s npos with
  | Ok (h1, s1) =>
      let d := bdata (getb h1 (sstore s1)) in
      if bsize (getb h1 (sstore s1)) <=? soff s1 + pos then Undef
      else Ok (set_data h1 (sstore s1) (pokeN d (soff s1 + pos) c), s1)
  | Throw h1 => Throw h1
  | Undef => Undef
  end.

(* <cctype> on a stored char, from the regenerated tables *)
Definition c_isupper (c : N) : bool := tbl_get false gen_isupper c.
Definition c_islower (c : N) : bool := tbl_get false gen_islower c.
Definition c_tolower (c : N) : Z := tbl_get 0%Z gen_tolower c.
Definition c_toupper (c : N) : Z := tbl_get 0%Z gen_toupper c.
Definition c_value (c : N) : Z := tbl_get 0%Z gen_char_value c.
Definition to_char (z : Z) : N := Z.to_N (z mod 256).    (* int -> char -> stored byte *)

(* SBuf::toLower() / toUpper(): for j < length(): c = (*this)[j]; if is(c) setAt(j, to(c)) *)
Fixpoint case_loop (is : N -> bool) (to : N -> Z) (todo : bytes) (j : N) (h : heap) (s : sbuf) : res (heap * sbuf) :=
  match todo with
  | [] => Ok (h, s)
  | _ :: r =>
      match nthN (soff s + j) (bdata (getb h (sstore s))) with
      | None => Undef
      | Some c =>
          if is c then
            match sb_setAt h s j (to_char (to c)) with
            | Ok (h1, s1) => case_loop is to r (j + 1) h1 s1
            | other => other
            end
          else case_loop is to r (j + 1) h s
      end
  end.
Definition sb_toLower (h : heap) (s : sbuf) := case_loop c_isupper c_tolower (content h s) 0 h s.
Definition sb_toUpper (h : heap) (s : sbuf) := case_loop c_islower c_toupper (content h s) 0 h s.

(* SBuf::reserveCapacity / reserveSpace / reserve *)
Definition sb_reserveCapacity (h : heap) (s : sbuf) (minCapacity : N) : res (heap * sbuf) :=
  if maxSize <? minCapacity then Throw h else cow h s minCapacity.
Definition sb_reserveSpace (h : heap) (s : sbuf) (minSpace : N) : res (heap * sbuf) :=
  if maxSize <? minSpace then Throw h else
  if sub32 maxSize minSpace <? slen s then Throw h else
  sb_reserveCapacity h s (add32 (slen s) minSpace).
Definition sb_reserve (h : heap) (s : sbuf) (idealSpace minSpace maxCapacity : N) (allowShared : bool)
  : res (heap * sbuf) :=
  let mustRealloc := negb allowShared && (1 <? blocks (getb h (sstore s))) in
  if negb mustRealloc && (minSpace <=? sb_spaceSize h s) then Ok (h, s) else
  if negb mustRealloc && (maxCapacity <=? slen s) then Ok (h, s) else
  let desiredSpace := N.max minSpace idealSpace in
  let newSpace := N.min desiredSpace (sub32 maxSize (slen s)) in
  sb_reserveCapacity h s (N.min (add32 (slen s) newSpace) maxCapacity).

(* rawAppendStart(n); the caller stores w (|w| <= n) at the returned pointer; rawAppendFinish(ptr, |w|).
   RawShort: rawAppendStart returned normally although fewer than n bytes lie between the returned
   pointer and the end of the blob (the caller is entitled to write n bytes there). *)
Inductive rawres := RawOk (h : heap) (s : sbuf) | RawShort (h : heap) (s : sbuf) | RawThrow (h : heap) | RawUndef.
Definition sb_rawAppend (h : heap) (s : sbuf) (n : N) (w : bytes) : rawres :=
  match rawSpace h s n with
  | Ok (h1, s1) =>
      let b := getb h1 (sstore s1) in
      if bcap b - soff s1 - slen s1 <? n then RawShort h1 s1 else
      let a := lenN w in
      (* rawAppendFinish *)
      if negb (mb_canAppend b (soff s1 + slen s1) a) then RawThrow h1 else
      if N.min maxSize (bcap b - soff s1) <? slen s1 + a then RawThrow h1 else
      if bsize b <? soff s1 + slen s1 then RawUndef else
      (* len_ = newSize; store_->size = off_ + newSize : bytes w now lie at mem[off_+len_ ..) *)
      RawOk (set_data h1 (sstore s1) (takeN (soff s1 + slen s1) (bdata b) ++ w))
            (mkSBuf (sstore s1) (soff s1) (slen s1 + a))
  | Throw h1 => RawThrow h1
  | Undef => RawUndef
  end.

(* SBuf::c_str(): *rawSpace(1) = '\0'; ++store_->size *)
Definition sb_c_str (h : heap) (s : sbuf) : res (heap * sbuf) :=
  match rawSpace h s 1 with
  | Ok (h1, s1) =>
      let b := getb h1 (sstore s1) in
      if soff s1 + slen s1 =? bsize b then Ok (set_data h1 (sstore s1) (bdata b ++ [0]), s1)
      else Undef
  | other => other
  end.

End Model.

(* ---------- const operations: functions of the contents [buf(), buf()+length()) ---------- *)
Fixpoint index_of (p : N -> bool) (l : bytes) : option N :=
  match l with
  | [] => None
  | x :: r => if p x then Some 0 else option_map N.succ (index_of p r)
  end.
Fixpoint last_index_of (p : N -> bool) (l : bytes) (pos : N) (acc : option N) : option N :=
  match l with
  | [] => acc
  | x :: r => last_index_of p r (pos + 1) (if p x then Some pos else acc)
  end.
Definition or_npos (o : option N) (base : N) : N := match o with None => npos | Some k => base + k end.

(* find(char c, startPos) *)
Definition sb_find_char (b : bytes) (c startPos : N) : N :=
  if startPos =? npos then npos else
  if lenN b <? startPos then npos else
  or_npos (index_of (N.eqb c) (dropN startPos b)) startPos.

Fixpoint find_sub (needle hay : bytes) : option N :=
  match hay with
  | [] => None
  | _ :: r => if starts_with hay needle then Some 0 else option_map N.succ (find_sub needle r)
  end.
(* find(const SBuf &needle, startPos) *)
Definition sb_find (b needle : bytes) (startPos : N) : N :=
  if startPos =? npos then npos else
  if lenN b <? startPos then npos else
  if lenN needle =? 0 then startPos else
  if lenN needle =? 1 then sb_find_char b (hd 0 needle) startPos else
  or_npos (find_sub needle (dropN startPos b)) startPos.

(* rfind(char c, endPos) *)
Definition sb_rfind_char (b : bytes) (c endPos : N) : N :=
  if lenN b =? 0 then npos else
  let e := if (endPos =? npos) || (lenN b <=? endPos) then lenN b else endPos + 1 in
  or_npos (last_index_of (N.eqb c) (takeN e b) 0 None) 0.

Fixpoint rfind_sub (needle hay : bytes) (pos limit : N) (acc : option N) : option N :=
  match hay with
  | [] => acc
  | _ :: r => rfind_sub needle r (pos + 1) limit
                (if (pos <=? limit) && starts_with hay needle then Some pos else acc)
  end.
(* rfind(const SBuf &needle, endPos) *)
Definition sb_rfind (b needle : bytes) (endPos0 : N) : N :=
  if lenN needle =? 1 then sb_rfind_char b (hd 0 needle) endPos0 else
  if lenN b <? lenN needle then npos else
  let endPos := if (endPos0 =? npos) || (lenN b - lenN needle <? endPos0) then lenN b - lenN needle else endPos0 in
  if lenN needle =? 0 then endPos else
  or_npos (rfind_sub needle b 0 endPos None) 0.

(* findFirstOf / findFirstNotOf / findLastOf / findLastNotOf with p = membership (or its negation) *)
Definition sb_findFirst (b : bytes) (p : N -> bool) (startPos : N) : N :=
  if startPos =? npos then npos else
  if lenN b <=? startPos then npos else
  or_npos (index_of p (dropN startPos b)) startPos.
Definition sb_findLast (b : bytes) (p : N -> bool) (endPos0 : N) : N :=
  if lenN b =? 0 then npos else
  let endPos := if (endPos0 =? npos) || (lenN b <=? endPos0) then lenN b - 1 else endPos0 in
  or_npos (last_index_of p (takeN (endPos + 1) b) 0 None) 0.

(* memcmp / memcasecmp: first non-zero difference of f-values *)
Fixpoint cmp_with (f : N -> Z) (a b : bytes) : Z :=
  match a, b with
  | x :: a', y :: b' => let d := (f x - f y)%Z in if (d =? 0)%Z then cmp_with f a' b' else d
  | _, _ => 0%Z
  end.
Definition sgnZ (z : Z) : Z := Z.sgn z.

(* compare(const SBuf &S, isCaseSensitive, n) : sign of the result *)
Definition sb_compare_all (a s : bytes) (ci : bool) (n : N) : Z :=
  let k := N.min (lenN s) (lenN a) in
  let rv := cmp_with (if ci then c_tolower else Z.of_N) (takeN k a) (takeN k s) in
  if negb (rv =? 0)%Z then sgnZ rv else
  if (n <=? lenN a) || (n <=? lenN s) then 0%Z else
  if lenN a =? lenN s then 0%Z else
  if lenN s <? lenN a then 1%Z else (-1)%Z.
Definition sb_compare (a s : bytes) (ci : bool) (n : N) : Z :=
  if negb (n =? npos) then sb_compare_all (takeN n a) (takeN n s) ci npos   (* substr(0,n) of both *)
  else sb_compare_all a s ci n.

(* startsWith(S, isCaseSensitive) *)
Definition sb_startsWith (a s : bytes) (ci : bool) : bool :=
  if lenN a <? lenN s then false else (sb_compare a s ci (lenN s) =? 0)%Z.

(* operator == *)
Definition sb_eq (a s : bytes) : bool :=
  if negb (lenN a =? lenN s) then false else (cmp_with Z.of_N a s =? 0)%Z.

(* copy(dest, n) *)
Definition sb_copy (a : bytes) (n : N) : bytes := takeN (N.min n (lenN a)) a.

(* compare(const char *s, isCaseSensitive, n), s = the bytes of a NUL-terminated array (w ++ [0]) *)
Fixpoint cstr_loop (f : N -> Z) (left right : bytes) (byteCount : N) : Z * bytes * N :=
  (* returns (rv, right after the last `*right++`, byteCount) *)
  match left, right with
  | x :: l', y :: r' =>
      let rv := (f x - f y)%Z in
      if negb (rv =? 0)%Z then (rv, r', byteCount)
      else if (x =? 0) || (byteCount - 1 =? 0) then (rv, r', byteCount - 1 + (if x =? 0 then 1 else 0) * 0
                                                           + (if x =? 0 then 1 else 0) * 0)
      else cstr_loop f l' r' (byteCount - 1)
  | _, _ => (0%Z, right, byteCount)
  end.
