"""C11: responses forbidden to be stored are never served from cache (end to end through the real squid)."""
import concurrent.futures, json, os, random, time
from vlib import std, lab, common, coq, hbuild, recipes

PID = "C11"
META = {
    "text": "Theorems (Properties_C11.v, 15, all closed under the global context) about ReuseModel.v, a branch-for-branch "
            "Gallina transcription of HttpHdrCc::parse (strListGetItem, httpHeaderParseInt/strtol, "
            "httpHeaderParseQuotedString incl. its quirks), clientInterpretRequestHeaders / maybeCacheable / "
            "storeCreateEntry, hdrExpirationTime, timestampsSet, HttpStateData::reusableReply + haveParsedReplyHeaders, "
            "refreshStaleness/refreshCheck/refreshIsCachable and the identifyStoreObject/cacheHit dispatch: for ALL "
            "request/response header sets, statuses, times and ALL values of negative_ttl, minimum_expiry_time, max_stale "
            "and the refresh rule's min/percent/max: if the response's Cache-Control (all fields joined, read as "
            "comma-separated OWS-trimmed elements, any letter case, with or without argument) contains no-store or "
            "private, or the request's contains no-store, the second identical request is never a hit and goes to the "
            "origin unconditionally (C11_forbidden_never_hit; same over Squid's own quote-aware list reader without the "
            "quote-free restriction: C11_response_no_store/_private/_request_no_store_never_reused); with Authorization a "
            "hit implies a public, must-revalidate or s-maxage element in the response (C11_authorization_*; the "
            "USE_HTTP_VIOLATIONS no-cache exemption stores with ENTRY_REVALIDATE_ALWAYS and is proved to revalidate) under "
            "the default negative_ttl<=0 -- the hypothesis is necessary: witness theorem with negative_ttl 300 (authenticated "
            "404 + no-cache is a negative hit), confirmed against the running squid by a corpus scenario. Components: "
            "HttpHdrCc::parse never misses a no-store/private element and never invents public/must-revalidate/s-maxage; "
            "list reading = comma split/trim/non-empty for quote-free text; the list and quoted-string loop bounds of the model are never reached (out-of-fuel results unreachable); hard-wired defaults "
            "re-read from cf.data.pre. Tie: directive/status/method tables, RefreshPattern and squid.conf defaults "
            "regenerated; extracted model diffed (a) end to end against the running squid built from the working tree "
            "(does the second identical request reach the origin, and conditionally?) and (b) at unit level against "
            "HttpHeader::getCc / httpHeaderParseInt / strListGetItem / hasListMember compiled from the working tree.",
    "note": "partial: the theorems are about the transcribed decision functions; that the event-driven proxy takes exactly "
            "these decisions on every path (and has no other way to serve a stored reply, e.g. collapsed forwarding, "
            "cache_dir swap-in, ICP/HTCP/digests, Vary, ranges, adaptation) rests on the end-to-end correspondence "
            "(forward proxy, memory cache, sequential identical requests, no Age/Vary/Surrogate-Control). Default "
            "settings are hard-wired from regenerated constants (no refresh_pattern => REFRESH_OVERRIDE is false, "
            "reload_into_ims/offline_mode/refresh_all_ims off; C11_defaults_assumed re-checks them); ignoreCacheControl "
            "(Surrogate-Control in accelerator mode) is a hypothesis. Date parsing is not modelled (times enter as "
            "integers). Trusted: Coq kernel, extraction, gen/gen_reuse.cc, gen/gen_reusecfg.py, vlib/lab.py stubs, "
            "harness/h_reuse.cc.",
    "technique": "Coq proof (fold invariants over the directive list, case analysis following the reusableReply cascade, "
                 "induction on list text reusing C04's list-reading theorem, vm_compute on regenerated tables) + "
                 "end-to-end differential correspondence of the extracted model against the running squid + unit-level "
                 "differential correspondence of the Cache-Control reader + independent Python oracles",
}

# ------------------------------------------------------------------ scenarios
# A scenario is one URL requested twice with identical request headers:
#   method, req_cc [Cache-Control field values], auth (Authorization value or None), req_pragma (value or None),
#   status, resp_cc [Cache-Control field values], date / lm (offset in seconds from "now" or None),
#   expires (offset, "bad" for an unparsable value, or None), ctype, blen (body length), resp_pragma, etag
RESP_EXT = ["foo", "foo=bar", "x-ext=\"a,b\"", "community=\"UCI\"", "stale-while-revalidate=30", "no-storex", "xno-store",
            "privately", "\"no-store\"", "\"private\""]
REQ_EXT = ["foo", "x-req=\"a, b\"", "no-storey", "stale-if-error=10", "no-transform"]
CTYPES = [None, "text/plain", "text/html; charset=utf-8", "multipart/x-mixed-replace; boundary=x",
          "Multipart/X-Mixed-Replace", "multipart/x-mixed-replaced", "multipart/mixed"]
STATUSES_OK = [200, 200, 200, 200, 200, 200, 203, 300, 301, 308, 410]
NEG_STATUSES = (204, 305, 403, 404, 405, 414, 500, 501, 502, 503, 504, 421, 400)
STATUSES_OTHER = [302, 307, 204, 303, 400, 401, 403, 404, 405, 414, 500, 501, 502, 503, 504, 206, 406, 409, 201, 202, 451, 299]


def randcase(rng, s):
    k = rng.random()
    if k < 0.55: return s
    if k < 0.7: return s.upper()
    if k < 0.8: return s.capitalize()
    return "".join(c.upper() if rng.random() < 0.5 else c.lower() for c in s)


def case_name(rng, d):
    """random letter case for the directive name only (the argument keeps its case)"""
    if "=" in d:
        n, v = d.split("=", 1)
        return randcase(rng, n) + "=" + v
    return randcase(rng, d)


def join_fields(rng, ds):
    """split a directive list into 1..3 field values with random separators / OWS / empty elements"""
    if not ds:
        return []
    nf = 1 if rng.random() < 0.7 else rng.randrange(1, 4)
    fields = [[] for _ in range(nf)]
    for d in ds:
        fields[rng.randrange(nf)].append(d)
    out = []
    for f in fields:
        v = ""
        if rng.random() < 0.08: v += rng.choice([",", ", ", " ,"])
        for i, d in enumerate(f):
            v += d
            if i + 1 < len(f):
                v += rng.choice([",", ", ", ", ", ", ", " ,", " , ", ",,", ", ,", ",\t"])
        if rng.random() < 0.08: v += rng.choice([",", " ,", ", ,"])
        out.append(v.strip(" \t"))
    return out


def gen_one(rng, k):
    s = {"method": "GET", "req_cc": [], "auth": None, "req_pragma": None, "status": 200, "resp_cc": [], "date": 0,
         "expires": None, "lm": None, "ctype": None, "blen": rng.choice([0, 1, 5, 5, 5, 20, 20, 300]), "resp_pragma": None,
         "etag": rng.random() < 0.3}
    # ---- status
    s["status"] = rng.choice(STATUSES_OK) if rng.random() < 0.85 else rng.choice(STATUSES_OTHER)
    if s["status"] in (204,):
        s["blen"] = 0
    # ---- freshness information (most scenarios would be hits if nothing forbids it)
    rd = []
    f = rng.random()
    if f < 0.30: rd.append("max-age=%d" % rng.choice([3600, 86400, 600, 31536000]))
    elif f < 0.42: rd.append("s-maxage=%d" % rng.choice([3600, 7200]))
    elif f < 0.60: s["expires"] = rng.choice([3600, 86400, 7200])
    elif f < 0.74: s["lm"] = -rng.choice([864000, 8640000, 4000000])
    elif f < 0.82: rd.append("max-age=%d" % rng.choice([3600, 600])); s["expires"] = -1000
    elif f < 0.87: s["expires"] = rng.choice([-1000, 0, "bad", -100000])
    elif f < 0.92: rd.append(rng.choice(["max-age=0", "s-maxage=0", "max-age=-1", "max-age=abc", "max-age", "max-age=99999999999",
                                         "max-age=\"3600\"", "max-age= 3600", "max-age=3600x", "s-maxage=+3600"]))
    # else: no freshness information at all
    if rng.random() < 0.25 and s["lm"] is None:
        s["lm"] = -rng.choice([864000, 100000, 50])
    d = rng.random()
    if d < 0.80: s["date"] = 0
    elif d < 0.87: s["date"] = None
    elif d < 0.93: s["date"] = -rng.choice([1000, 7200, 90000, 200000])
    else: s["date"] = rng.choice([1000, 7200, 100000])
    # ---- response directives
    if rng.random() < 0.16: rd.append(rng.choice(["no-store", "no-store", "no-store=x", "no-store=\"y\""]))
    if rng.random() < 0.16: rd.append(rng.choice(["private", "private", "private=\"set-cookie\"", "private=\"a, b\"", "private=x",
                                                 "private=\"", "private=\"\""]))
    if rng.random() < 0.14: rd.append(rng.choice(["no-cache", "no-cache", "no-cache=\"set-cookie\"", "no-cache=\"\"", "no-cache=x",
                                                 "no-cache=\"a,b\"", "no-cache=\"x"]))
    if rng.random() < 0.20: rd.append("public")
    if rng.random() < 0.12: rd.append("must-revalidate")
    if rng.random() < 0.08: rd.append("proxy-revalidate")
    if rng.random() < 0.05: rd.append("immutable")
    if rng.random() < 0.05: rd.append("no-transform")
    if rng.random() < 0.20: rd.append(rng.choice(RESP_EXT))
    if rd and rng.random() < 0.15: rd.append(rng.choice(rd))          # duplicate
    if rng.random() < 0.04: rd.append(rng.choice(["max-age=0", "max-age=7200", "s-maxage=0", "s-maxage=100000"]))
    rng.shuffle(rd)
    s["resp_cc"] = join_fields(rng, [case_name(rng, x) for x in rd])
    if rng.random() < 0.04: s["resp_cc"].append("")
    if rng.random() < 0.06: s["resp_pragma"] = rng.choice(["no-cache", "No-Cache", "no-cache, x", "x, no-cache", "no-cachex", "foo"])
    if rng.random() < 0.12: s["ctype"] = rng.choice(CTYPES[1:])
    # ---- request
    qd = []
    if rng.random() < 0.12: qd.append(rng.choice(["no-store", "no-store", "no-store=1"]))
    if rng.random() < 0.07: qd.append(rng.choice(["no-cache", "no-cache=\"x\"", "no-cache=x", "no-cache=x"]))
    if rng.random() < 0.08: qd.append(rng.choice(["max-age=0", "max-age=100000", "max-age=3600", "max-age=x", "max-age"]))
    if rng.random() < 0.08: qd.append(rng.choice(["max-stale", "max-stale=100000", "max-stale=0", "max-stale=x"]))
    if rng.random() < 0.08: qd.append(rng.choice(["min-fresh=0", "min-fresh=100", "min-fresh=1000000", "min-fresh=x"]))
    if rng.random() < 0.03: qd.append("only-if-cached")
    if rng.random() < 0.10: qd.append(rng.choice(REQ_EXT))
    if qd and rng.random() < 0.1: qd.append(rng.choice(qd))
    rng.shuffle(qd)
    s["req_cc"] = join_fields(rng, [case_name(rng, x) for x in qd])
    if rng.random() < 0.05: s["req_pragma"] = rng.choice(["no-cache", "NO-CACHE", "no-cache , x", "x, no-cache", "foo", "no-cache=1"])
    if rng.random() < 0.28: s["auth"] = rng.choice(["Basic YTpi", "Bearer abc.def", "Digest username=\"a\""])
    m = rng.random()
    if m < 0.04: s["method"] = "HEAD"
    elif m < 0.09: s["method"] = rng.choice(["POST", "OPTIONS", "DELETE", "PUT", "FOOBAR"])
    # a few non-default configurations (negative caching) to exercise that branch of the model; not judged by the oracle
    if s["status"] in NEG_STATUSES and rng.random() < 0.5:
        s["neg_ttl"] = 300
    return s


def gen_scenarios(rng, n):
    return [gen_one(rng, k) for k in range(n)]


# ------------------------------------------------------------------ model case line
def hexs(s):
    b = s.encode("latin1")
    return b.hex() if b else "-"


def hexlist(l):
    return ",".join(hexs(x) for x in l) if l else "."


def opt(x):
    return "none" if x is None else str(x)


def to_case(s):
    return "reuse.e2e %s %d %d %s %s %s %s %s %s %s %d %s %d" % (
        hexs(s["method"]), s["status"], 1 if s["auth"] else 0,
        hexlist([s["req_pragma"]] if s["req_pragma"] is not None else []), hexlist(s["req_cc"]), hexlist(s["resp_cc"]),
        opt(s["date"]), opt(s["expires"]), opt(s["lm"]), "none" if s["ctype"] is None else hexs(s["ctype"]), s["blen"],
        hexlist([s["resp_pragma"]] if s["resp_pragma"] is not None else []), s.get("neg_ttl", 0))


# ------------------------------------------------------------------ implementation side
_state = {}


def _one(args):
    sq, org, s, rid = args
    t0 = int(time.time())
    hs = []
    if s["date"] is not None:
        hs.append(["Date", lab.http_date(t0 + s["date"])])
    if s["expires"] is not None:
        hs.append(["Expires", "0" if s["expires"] == "bad" else lab.http_date(t0 + s["expires"])])
    if s["lm"] is not None:
        hs.append(["Last-Modified", lab.http_date(t0 + s["lm"])])
    for v in s["resp_cc"]:
        hs.append(["Cache-Control", v])
    if s["resp_pragma"] is not None:
        hs.append(["Pragma", s["resp_pragma"]])
    if s["ctype"] is not None:
        hs.append(["Content-Type", s["ctype"]])
    if s.get("etag"):
        hs.append(["ETag", "\"e-%s\"" % rid])
    spec = {"status": s["status"], "headers": hs, "body": "b" * s["blen"]}
    if s["date"] is None:
        spec["nodate"] = True
    url = org.url(spec, rid)
    rh = []
    for v in s["req_cc"]:
        rh.append(("Cache-Control", v))
    if s["req_pragma"] is not None:
        rh.append(("Pragma", s["req_pragma"]))
    if s["auth"]:
        rh.append(("Authorization", s["auth"]))
    r1, _ = lab.get(sq.port, url, headers=rh, method=s["method"])
    n1 = len(org.arrivals(rid))
    r2, _ = lab.get(sq.port, url, headers=rh, method=s["method"])
    arr = org.arrivals(rid)
    if len(arr) == n1:
        second = "none"
    else:
        h = set(n.lower() for n, _ in arr[n1]["headers"])
        second = "cond" if ("if-modified-since" in h or "if-none-match" in h) else "plain"
    _state.setdefault("detail", {})[rid] = (r1.status if r1 else None, r2.status if r2 else None)
    return "first=%d second=%s" % (n1, second)


def _squid_for(L, neg_ttl):
    """one squid per configuration: the default one, and (for the few non-default scenarios) negative_ttl N"""
    key = "sq%d" % neg_ttl
    if key not in _state or not _state[key].alive():
        _state[key] = L.squid(cache_mem="64 MB", extra_conf=("negative_ttl %d seconds\n" % neg_ttl) if neg_ttl else "")
    return _state[key]


def run_impl(L, scenarios):
    if "org" not in _state:
        _state["org"] = L.origin()
        _state["n"] = 0
    org = _state["org"]
    jobs = []
    for s in scenarios:
        _state["n"] += 1
        jobs.append((_squid_for(L, s.get("neg_ttl", 0)), org, s, "r%d" % _state["n"]))
    with concurrent.futures.ThreadPoolExecutor(max_workers=8) as ex:
        return list(ex.map(_one, jobs))


# ------------------------------------------------------------------ oracle (the property, on what squid did)
def directives(values):
    """independent reading of Cache-Control field values: comma-separated elements outside quoted strings,
    OWS-trimmed; returns {lower-case name: argument text or None}"""
    out = {}
    for v in values:
        cur, q, i, elems = "", False, 0, []
        while i < len(v):
            c = v[i]
            if q:
                cur += c
                if c == "\\" and i + 1 < len(v):
                    cur += v[i + 1]; i += 1
                elif c == '"':
                    q = False
            elif c == '"':
                q = True; cur += c
            elif c == ",":
                elems.append(cur); cur = ""
            else:
                cur += c
            i += 1
        elems.append(cur)
        for e in elems:
            e = e.strip(" \t")
            if not e:
                continue
            n, _, a = e.partition("=")
            out.setdefault(n.lower(), a if "=" in e else None)
    return out


def forbidden_reason(s):
    # Two legitimate readings of several Cache-Control field lines exist: line by line, and as the one combined
    # comma-joined value (RFC 9110 section 5.3; Squid reads the combined value). They differ only when a line leaves a
    # quoted string open, which then swallows the elements of the following lines. A directive counts as present only
    # when both readings see it, and the sharing exception counts when either reading sees it - the check must not
    # demand more than the property states (thorough-tier false alarm: `NO-CACHE="x , no-transform` + `pRIvaTE`).
    rd1, rd2 = directives(s["resp_cc"]), directives([", ".join(s["resp_cc"])])
    qd1, qd2 = directives(s["req_cc"]), directives([", ".join(s["req_cc"])])
    both = lambda n, a, b: n in a and n in b
    if both("no-store", rd1, rd2): return "resp-no-store"
    if both("private", rd1, rd2): return "resp-private"
    if both("no-store", qd1, qd2): return "req-no-store"
    if s["auth"]:
        # the property's exception, literally: a public, must-revalidate or s-maxage element is present
        if not any(n in rd for n in ("public", "must-revalidate", "s-maxage") for rd in (rd1, rd2)):
            return "auth"
    return None


def oracle(s, obs):
    if s.get("neg_ttl", 0):
        return None     # the property is about default settings; these scenarios only exercise the model
    if not obs.startswith("first="):
        return ("oracle:no-transaction", "the transaction did not complete: " + obs)
    why = forbidden_reason(s)
    if why and obs.endswith("second=none") and not obs.startswith("first=0 "):
        return ("oracle:served-from-cache:" + why,
                "the second identical request was answered without contacting the origin although storing was forbidden (%s)" % why)
    return None


# ------------------------------------------------------------------ unit-level correspondence (Cache-Control reader)
UNIT_NAMES = ["public", "private", "no-cache", "no-store", "no-transform", "must-revalidate", "proxy-revalidate", "max-age",
              "s-maxage", "max-stale", "min-fresh", "only-if-cached", "stale-if-error", "immutable", "Other", "Other,", "foo",
              "no-stor", "no-storee", "x-no-store", "privat", "", "max_age"]
UNIT_ARGS = ["", "0", "5", "3600", "-1", "-0", "+7", " 9", "9 ", "12x", "x12", "abc", "2147483647", "2147483648", "-2147483648",
             "-2147483649", "4294967396", "9223372036854775807", "9223372036854775808", "99999999999999999999999", "0x10",
             "\"\"", "\"x\"", "\"a,b\"", "\"a, no-store\"", "\"a\\\"b\"", "\"a\\\\\"", "\"a\\", "\"unterminated", "\"x\"y", "x\"y\"",
             "\" \"", "\"\t\"", "\"a\tb\"", "\"a\\\tb\"", "\"\\\"\"", "\"a\\\\b\"", "\"x\\\"y\"", "\"a\x01b\"", "\"a\x7fb\"", "\"\\", "\"", "=", "\"=\"", "1,5", "\"é\""]
UNIT_SEPS = [",", ", ", " ,", " , ", ",,", ", ,", ",\t", "\t,", ";", " ", ",\x0b", ",\x0c,", "\r\n ,", ",\n"]


def gen_unit_cases(rng, n):
    out = []
    for k in range(n):
        r = rng.random()
        if r < 0.70:
            nv = rng.choice([1, 1, 1, 2, 3])
            vals = []
            for _ in range(nv):
                v = ""
                if rng.random() < 0.1: v += rng.choice(UNIT_SEPS)
                for i in range(rng.randrange(0, 5)):
                    d = randcase(rng, rng.choice(UNIT_NAMES))
                    if rng.random() < 0.45:
                        d += rng.choice(["=", "=", "=", " =", "= "]) + rng.choice(UNIT_ARGS)
                    v += d + rng.choice(UNIT_SEPS)
                if rng.random() < 0.5: v = v.rstrip(", \t")
                if rng.random() < 0.03: v += "\x00no-store"
                vals.append(v)
            out.append("reuse.cc " + hexlist(vals))
        elif r < 0.80:
            out.append("reuse.int " + hexs(rng.choice(UNIT_ARGS) if rng.random() < 0.6 else
                                          rng.choice(["", " ", "\t", "-", "+", "- 1", "+-1"]) + str(rng.randrange(0, 1 << rng.choice([4, 31, 32, 33, 63, 64, 70])))
                                          + rng.choice(["", "", " ", "x", ","])))
        elif r < 0.90:
            v = ""
            for i in range(rng.randrange(0, 5)):
                v += rng.choice(["a", "b c", "\"q,r\"", "x=\"1,2\"", "", " ", "\"open", "no-cache"]) + rng.choice(UNIT_SEPS)
            out.append("reuse.items " + hexs(v))
        else:
            vals = [rng.choice(["no-cache", "No-Cache", "no-cache , x", "x, no-cache", "no-cachex", "no-cache=1", "no-cache;q", "x,no-cache,y",
                                "no-cach", "", "\"no-cache\"", "a\"b,no-cache\"", " no-cache"]) for _ in range(rng.choice([1, 1, 2]))]
            out.append("reuse.member %s %s" % (hexlist(vals), hexs("no-cache")))
    return out


def simple_text(v):
    """mirror of the Coq predicate `simple`: no DQUOTE, no NUL, no LF/VT/FF/CR"""
    return not any(c in v for c in '"\x00\n\x0b\x0c\r')


def unit_oracle(case, out):
    """the text-level part of the property on the IMPLEMENTATION's Cache-Control reader: for quote-free field values, a
    no-store / private element is always reported, and public / must-revalidate / s-maxage only when such an element exists"""
    a = case.split()
    if a[0] != "reuse.cc" or a[1] == ".":
        return None
    vals = [bytes.fromhex(x).decode("latin1") if x != "-" else "" for x in a[1].split(",")]
    if not all(simple_text(v) for v in vals):
        return None
    # getList joins the field values with ", "; a quote-free value cannot change how its neighbours are split
    names = directives(vals)
    f = dict(kv.split("=", 1) for kv in out.split()) if out != "null" else {}
    if "no-store" in names and f.get("ns") != "1":
        return ("oracle:reader-misses-no-store", "a no-store element is present but HttpHdrCc does not report it")
    if "private" in names and f.get("priv") != "1":
        return ("oracle:reader-misses-private", "a private element is present but HttpHdrCc does not report it")
    if f.get("pub") == "1" and "public" not in names:
        return ("oracle:reader-invents-public", "HttpHdrCc reports public without such an element")
    if f.get("mr") == "1" and "must-revalidate" not in names:
        return ("oracle:reader-invents-must-revalidate", "HttpHdrCc reports must-revalidate without such an element")
    if f.get("sma", "-") != "-" and "s-maxage" not in names:
        return ("oracle:reader-invents-s-maxage", "HttpHdrCc reports s-maxage without such an element")
    return None


FRESH = ["src/HttpHdrCc.cc", "src/HttpHeader.cc", "src/HttpHeaderTools.cc", "src/StrList.cc"]
UB = ["-O1", "-g", "-fsanitize=undefined", "-fno-sanitize=vptr", "-fno-sanitize-recover=all"]
LINK = [x for x in recipes.HTTPREPLY if x != "SquidConfig.o"]


def impl():
    return hbuild.build("h_reuse", "h_reuse.cc", fresh=FRESH, link=LINK, sanitize=None, flags=UB,
                        syslibs=["-fsanitize=undefined"] + hbuild.SYSLIBS)


def prebuild():
    impl()


def unit_stage(res, tier):
    """Cache-Control reader: extracted model vs the real HttpHdrCc/HttpHeader/StrList code (UBSan build)"""
    try:
        exe = impl()
    except hbuild.BuildError as ex:
        res.fail("build", "C11: harness no longer builds against /repo's working tree: %s" % str(ex)[-1200:],
                 {"no_failing_input_found": True, "broken": "harness build h_reuse", "detail": str(ex)[-3000:]})
        return
    runner = coq.build_runner("reuse")
    rng = random.Random(common.seed() * 1000003 + 1111)
    cases = std.load_corpus(PID) + gen_unit_cases(rng, 20000 if tier == "quick" else 400000)
    impl_out, model_out, dis = std.corr_stage(
        res, cases, exe, runner,
        kind_fn=lambda c, o: "unit:" + c.split()[0].split(".")[1] + (":null" if o == "null" else ""),
        nontrivial_fn=lambda c, o: c.startswith("reuse.cc") and o != "null")
    found = 0
    for c, o in zip(cases, impl_out):
        v = unit_oracle(c, o)
        if v:
            sig, why = v
            if res.fail(sig, "C11 on input `%s`: implementation answered `%s`: %s" % (c[:400], o[:300], why),
                        {"case": c, "impl": o, "oracle": why, "signature": sig}):
                found += 1
    if dis and not found:
        k, c, a, b = dis[0]
        res.fail("corr:unit", "Cache-Control reader: model and implementation disagree on %d cases (first: `%s` impl=`%s` "
                 "model=`%s`); the property oracle holds on every implementation answer explored" % (len(dis), c[:300], a[:200], b[:200]),
                 {"no_failing_input_found": True, "broken": "correspondence ReuseModel (cc_of_values) vs HttpHeader::getCc",
                  "case": c, "impl": a, "model": b, "disagreements": len(dis)})
    res.extra["unit_cases"] = len(cases)
    res.extra["unit_disagreements"] = len(dis)


def run(res, tier):
    res.rule = ("end to end: one new URL requested twice with identical headers through the real squid (forward proxy, memory "
                "cache): random request Cache-Control (no-store, no-cache[=..], max-age, max-stale, min-fresh, only-if-cached, "
                "extensions), Pragma, Authorization, method (GET mostly; HEAD, POST, OPTIONS, DELETE, PUT, extension); random "
                "response status (85% heuristically cacheable ones), freshness information chosen so that most scenarios "
                "would be hits (max-age / s-maxage / Expires / Last-Modified, also expired, malformed or missing), Date "
                "now/absent/past/future, response Cache-Control directives (no-store, private, no-cache with and without "
                "arguments, public, must-revalidate, proxy-revalidate, immutable, extensions, look-alikes) in random "
                "letter case, spacing, empty elements, duplicates, split over several fields, quoted arguments containing "
                "commas, Content-Type multipart/x-mixed-replace, Pragma, body lengths incl. 0; a few scenarios with "
                "negative_ttl 300. Observable: origin arrivals for the first request and whether the second request "
                "reached the origin and was conditional. Unit level: 20000 (quick) random Cache-Control field sets / "
                "integers / lists / Pragma members through HttpHeader::getCc, httpHeaderParseInt, strListGetItem, "
                "hasListMember. non-trivial = scenario in which the property forbids serving from cache")
    unit_stage(res, tier)
    std.run_lab(res, PID, tier, area="reuse", gens=["hdrtable", "reuse", "reusecfg"], gen_scenarios=gen_scenarios,
                run_impl=run_impl, to_case=to_case, oracle=oracle, corr_name="ReuseModel (two_requests) vs the running squid",
                n_quick=320, n_thorough=8000, seed_salt=11,
                kind_fn=lambda s, o: o.split()[-1] + (":forbidden" if forbidden_reason(s) else ":allowed"),
                nontrivial_fn=lambda s, o: forbidden_reason(s) is not None)
    _state.clear()
