(* handlers for the quote area (html_quote, rfc1738 escaping, AnyP::Uri::Encode/Decode) *)
let cset_of_hex h = mem_tbl (storage_of_hex h)

let ures_str = function
  | UOk (buf, i) -> "ok " ^ hex_of_bytes (takeN i buf) ^ " " ^ hex_of_bytes buf
  | UOob -> "OOB"
  | UFuel -> "FUEL"
let dres_str = function
  | DOk o -> "ok " ^ hex_of_bytes o
  | DBad -> "bad"
  | DFuel -> "FUEL"
let encode_by set s =
  match set with
  | "ui" -> uri_encode_userinfo s
  | "path" -> uri_encode_path s
  | "unres" -> uri_encode_unreserved s
  | h -> uri_encode_set (cset_of_hex h) s

let () =
  reg "html" (fun [s] -> hex_of_bytes (html_quote (bytes_of_hex s)));
  reg "mime" (fun [s] -> hex_of_bytes (mime_quote (bytes_of_hex s)));
  reg "esc" (fun [flags; s] ->
      match rfc1738_roundtrip (n_of_string flags) (bytes_of_hex s) with
      | None -> "ERR flags-not-in-table"
      | Some (e, u) -> hex_of_bytes e ^ " " ^ ures_str u);
  reg "unesc" (fun [s] -> ures_str (rfc1738_unescape (bytes_of_hex s @ [N0])));
  reg "uri.rt" (fun [set; s] ->
      let e = encode_by set (bytes_of_hex s) in
      hex_of_bytes e ^ " " ^ dres_str (uri_decode e));
  reg "uri.dec" (fun [s] -> dres_str (uri_decode (bytes_of_hex s)))
