(* Properties_C28.v — C28: Range canonicalisation preserves the requested byte set.
   Statements only; proofs live in RangeProofs.v.
   Specification side (RangeProofs.v): pos_value (1*DIGIT <= INT64_MAX), spec_of_text (the byte-range-spec grammar),
   elements (comma split, white-space trim, empty elements skipped), header_specs (what a header value requests),
   wants clen s p (byte p of a clen-byte representation is selected by spec s), canon_of (one exact canonical range
   per satisfiable spec, in order). *)
Require Import SquidV.Bytes SquidV.TokModel SquidV.HopModel SquidV.HopProofs SquidV.RangeModel SquidV.RangeProofs.
Local Open Scope Z_scope.

(* --- the grammar the specification uses --- *)
Theorem C28_byte_position_is_digits_fitting_int64 : forall ds v,
  pos_value ds = Some v <-> ds <> [] /\ forallb is_digit ds = true /\ v = dec_value ds /\ v <= int64_max.
Proof. exact pos_value_meaning. Qed.
Print Assumptions C28_byte_position_is_digits_fitting_int64.

Theorem C28_spec_text_is_the_byte_range_grammar : forall el s,
  spec_of_text el = Some s <->
  (exists ds n, el = 45%N :: ds /\ pos_value ds = Some n /\ s = RSuffix n) \/
  (exists d1 a, el = d1 ++ [45%N] /\ pos_value d1 = Some a /\ s = RFrom a) \/
  (exists d1 d2 a b, el = d1 ++ 45%N :: d2 /\ pos_value d1 = Some a /\ pos_value d2 = Some b /\ a <= b /\ s = RRange a b).
Proof. exact spec_of_text_meaning. Qed.
Print Assumptions C28_spec_text_is_the_byte_range_grammar.

(* --- strListGetItem against the comma split: equal on DQUOTE-free text, equally invalid otherwise --- *)
Theorem C28_item_loop_is_comma_split_without_quotes : forall l, nonul l = true -> noq l = true ->
  list_items 44 l = elements l.
Proof. exact list_items_noq. Qed.
Print Assumptions C28_item_loop_is_comma_split_without_quotes.

Theorem C28_item_loop_and_comma_split_agree_on_specs : forall l, nonul l = true ->
  all_some (map spec_of_text (list_items 44 l)) = all_some (map spec_of_text (elements l)).
Proof. exact items_vs_elements. Qed.
Print Assumptions C28_item_loop_and_comma_split_agree_on_specs.

(* --- parsing: accepted exactly when every element is a valid spec (and there is one); nothing overflows --- *)
Theorem C28_parse_accepts_exactly_the_valid_headers : forall value,
  range_parse value = (match header_specs value with Some l => Some (map repr l) | None => None end, false).
Proof. exact range_parse_spec. Qed.
Print Assumptions C28_parse_accepts_exactly_the_valid_headers.

Theorem C28_invalid_spec_ignores_header : forall value clen el,
  ci_eqb (takeN 6 (c_str value)) bytes_eq = true ->
  In el (elements (dropN 6 (c_str value))) -> spec_of_text el = None ->
  range_run value clen = (None, false).
Proof. exact invalid_spec_ignores_header. Qed.
Print Assumptions C28_invalid_spec_ignores_header.

(* --- canonize on one spec: kept iff it selects a byte; then exactly its byte set, inside [0,clen) --- *)
Theorem C28_canonical_spec_is_exact_byte_set : forall clen s, valid_spec s -> -1 <= clen <= int64_max ->
  let '(c, good, ub) := spec_canonize clen (repr s) in
  ub = false /\
  (good = true -> 0 <= fst c /\ 0 < snd c /\ fst c + snd c <= clen /\ forall p, in_canon c p <-> wants clen s p) /\
  (good = false -> forall p, ~ wants clen s p).
Proof. exact spec_canonize_spec. Qed.
Print Assumptions C28_canonical_spec_is_exact_byte_set.

(* --- the whole pipeline: order-preserving, one exact range per satisfiable spec --- *)
Theorem C28_canon_specs_exact : forall value clen, -1 <= clen <= int64_max ->
  match header_specs value with
  | None => range_run value clen = (None, false)
  | Some specs =>
      exists cs, range_run value clen = (Some (map repr specs, (match cs with [] => false | _ => true end, cs)), false) /\
                 canon_of clen specs cs
  end.
Proof. exact range_run_spec. Qed.
Print Assumptions C28_canon_specs_exact.

(* --- the property as worded: non-empty, within the representation, union = requested satisfiable bytes --- *)
Theorem C28_canonical_ranges_cover_exactly_the_requested_bytes : forall value clen specs,
  -1 <= clen <= int64_max -> header_specs value = Some specs ->
  exists cs, range_run value clen = (Some (map repr specs, (match cs with [] => false | _ => true end, cs)), false) /\
    Forall (fun c => 0 <= fst c /\ 0 < snd c /\ fst c + snd c <= clen) cs /\
    (forall p, (exists c, In c cs /\ in_canon c p) <-> (exists s, In s specs /\ wants clen s p)).
Proof. exact range_canon_exact. Qed.
Print Assumptions C28_canonical_ranges_cover_exactly_the_requested_bytes.

(* --- no signed overflow, no value-changing conversion, no failed assert, for any header and length --- *)
Theorem C28_range_no_overflow : forall value clen, -1 <= clen <= int64_max -> snd (range_run value clen) = false.
Proof. exact range_no_overflow. Qed.
Print Assumptions C28_range_no_overflow.

(* --- the hypotheses are satisfiable; concrete values --- *)
(* "bytes=0-99,200-, -5" on 1000 bytes *)
Definition C28_ex_value : bytes := [98;121;116;101;115;61;48;45;57;57;44;50;48;48;45;44;32;45;53]%N.
Example C28_ex_specs : header_specs C28_ex_value = Some [RRange 0 99; RFrom 200; RSuffix 5].
Proof. vm_compute. reflexivity. Qed.
Example C28_ex_run : range_run C28_ex_value 1000 =
  (Some ([(0, 100); (200, -1); (-1, 5)], (true, [(0, 100); (200, 800); (995, 5)])), false).
Proof. vm_compute. reflexivity. Qed.
Example C28_ex_wants : wants 1000 (RSuffix 5) 997 /\ ~ wants 1000 (RFrom 200) 199.
Proof. unfold wants. lia. Qed.
(* "bytes=0-99,1x-5": one invalid element, header ignored *)
Example C28_ex_invalid :
  let v := [98;121;116;101;115;61;48;45;57;57;44;49;120;45;53]%N in
  In [49;120;45;53]%N (elements (dropN 6 (c_str v))) /\ spec_of_text [49;120;45;53]%N = None /\ range_run v 1000 = (None, false).
Proof. vm_compute. repeat split. right. left. reflexivity. Qed.
(* "bytes=0-9223372036854775807": the case that used to overflow *)
Example C28_ex_int64_max :
  range_run [98;121;116;101;115;61;48;45;57;50;50;51;51;55;50;48;51;54;56;53;52;55;55;53;56;48;55]%N 1000
  = (Some ([(0, -1)], (true, [(0, 1000)])), false).
Proof. vm_compute. reflexivity. Qed.
Example C28_ex_valid_spec : valid_spec (RRange 0 99) /\ -1 <= 1000 <= int64_max.
Proof. unfold valid_spec, int64_max, two63. lia. Qed.
Example C28_ex_clean_text : nonul [49;45;50;44;32;51;45]%N = true /\ noq [49;45;50;44;32;51;45]%N = true.
Proof. vm_compute. split; reflexivity. Qed.
