(* Properties_C06.v — C06: CONNECT tunnels relay both directions unchanged.
   Statements only; the model is PipetunnelModel.v (part 2), proofs live in PipetunnelProofs.v.
   trun evs (tun_start early) = state of the tunnel after Squid's 200 response, `early` being the client bytes that
   followed the CONNECT head, and the events evs (peers sending / FIN, read and write completions or failures,
   close handlers, timeouts, in ANY order). For side x: s_sentby = bytes its peer has sent, s_deliv = bytes Squid
   has written to it. *)
Require Import SquidV.Bytes SquidV.PipetunnelModel SquidV.PipetunnelProofs.
Local Open Scope N_scope.

(* what has been delivered to one side is always a prefix of what the other side sent (both directions, every
   event order, errors included): nothing inserted, altered, reordered or duplicated *)
Theorem C06_tunnel_prefix_invariant : forall early evs x,
  let t := trun evs (tun_start early) in
  exists rest, s_sentby (gs x t) = s_deliv (gs (other x) t) ++ rest.
Proof. exact tunnel_prefix_invariant. Qed.
Print Assumptions C06_tunnel_prefix_invariant.

(* exact accounting while the destination is open: delivered ++ in the buffer ++ still pre-read ++ not yet read
   = sent *)
Theorem C06_tunnel_accounting : forall early evs x,
  let t := trun evs (tun_start early) in
  let A := gs x t in let B := gs (other x) t in
  s_recvd A ++ s_wire A = s_sentby A /\
  (exists rest, s_recvd A = s_deliv B ++ rest) /\
  (s_open B = true -> s_deliv B ++ s_buf A ++ s_pre A ++ s_wire A = s_sentby A).
Proof. exact tunnel_accounting. Qed.
Print Assumptions C06_tunnel_accounting.

Theorem C06_no_assertion_failure : forall early evs, t_crashed (trun evs (tun_start early)) = false.
Proof. exact tunnel_no_assertion_failure. Qed.
Print Assumptions C06_no_assertion_failure.
