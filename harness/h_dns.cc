// Harness: the DNS wire codec of /repo's working tree (src/dns/rfc1035.cc, rfc3596.cc, rfc2671.cc).
// stdin: one case per line (same syntax as ml/run_dns.ml); stdout: one canonical result line.
//
// * rfc1035.cc is included textually so that the file-static rfc1035NameUnpack can be driven
//   directly with an exact-size heap name buffer (the name buffers inside rfc1035_query /
//   rfc1035_rr are struct members, whose overflow ASan cannot see).
// * every datagram handed to an unpacker lives in an exact-size malloc() block, so a read past
//   the datagram is an AddressSanitizer report (the process dies; the runner records CRASH).
// * the dns sources are compiled with -Iharness/dns_shim, whose <cassert> turns a failed assert()
//   into a C++ exception (ASSERT result line) instead of abort(), so that packer precondition
//   failures do not kill the harness.
// * packers write into an exact-size block followed by a canary zone inside the same allocation:
//   a write past `sz` is reported as OOBW without killing the process.
#include "squid.h"
#include <cstdlib>
#include <cstring>
#include <string>
#include <stdexcept>
#include <memory>

struct VerifAssert { std::string what; };
void verifDnsAssertFail(const char *expr, const char *, int) { throw VerifAssert{expr ? expr : ""}; }

#include "dns/rfc1035.cc"
#include "dns/rfc3596.h"
#include "dns/rfc2671.h"
#include "SquidConfig.h"
#include "hcommon.h"

// storage for the global `Config` that rfc3596.cc reads (Config.dns.packet_max only); the real
// SquidConfig.o would drag most of squid into the link. Zero-filled, never constructed.
alignas(64) unsigned char verifConfigStorage[sizeof(SquidConfig)] asm("Config");

static const size_t CANARY = 32;

// exact-size heap copy of a datagram (size 0 -> a 1-byte block that is never handed out as readable: sz stays 0)
struct Datagram {
    char *p; size_t sz;
    explicit Datagram(const std::string &raw): p(static_cast<char *>(malloc(raw.size() ? raw.size() : 1))), sz(raw.size()) {
        if (sz) memcpy(p, raw.data(), sz);
    }
    ~Datagram() { free(p); }
};

static std::string cstrhex(const char *s, size_t cap) {
    size_t n = strnlen(s, cap);
    if (n == cap) return std::string("BAD-UNTERMINATED");
    return tohex(s, n);
}

static void printMessage(std::ostringstream &o, int rc, const rfc1035_message *m) {
    o << "rc=" << rc;
    if (!m) return;
    o << " H=" << m->id << "," << m->qr << "," << m->opcode << "," << m->aa << "," << m->tc << "," << m->rd << ","
      << m->ra << "," << m->rcode << "," << m->qdcount << "," << m->ancount << "," << m->nscount << "," << m->arcount;
    if (m->query)
        o << " Q=" << cstrhex(m->query->name, sizeof(m->query->name)) << "," << m->query->qtype << "," << m->query->qclass;
    if (m->answer && rc > 0) {
        for (int k = 0; k < rc; ++k) {
            const rfc1035_rr &r = m->answer[k];
            o << " RR=" << cstrhex(r.name, sizeof(r.name)) << "," << r.type << "," << r._class << "," << r.ttl << "," << r.rdlength << ",";
            if (!r.rdata) o << "NULL";
            else if (r.type == RFC1035_TYPE_PTR) o << cstrhex(r.rdata, RFC1035_MAXHOSTNAMESZ);
            else o << tohex(r.rdata, r.rdlength);
        }
        // the records beyond the returned count must have been left zeroed (MessageDestroy walks ancount of them)
        for (unsigned k = rc; k < m->ancount; ++k)
            if (m->answer[k].rdata) { o << " BAD-DANGLING-RDATA"; break; }
    }
}

static void unpackInto(std::ostringstream &o, const std::string &raw, rfc1035_query *cmpWith) {
    Datagram d(raw);
    rfc1035_message *msg = nullptr;
    const int rc = rfc1035MessageUnpack(d.p, d.sz, &msg);
    printMessage(o, rc, msg);
    if (cmpWith) {
        if (msg && msg->query) o << " cmp=" << (rfc1035QueryCompare(cmpWith, msg->query) != 0 ? 1 : 0);
        else o << " cmp=none";
    }
    rfc1035MessageDestroy(&msg);
}

// a packer target: `sz` usable bytes followed by a canary zone
struct Target {
    char *p; size_t sz;
    explicit Target(size_t n): p(static_cast<char *>(malloc(n + CANARY))), sz(n) { memset(p, 0x5a, n + CANARY); }
    ~Target() { free(p); }
    bool overrun() const { for (size_t i = 0; i < CANARY; ++i) if (static_cast<unsigned char>(p[sz + i]) != 0x5a) return true; return false; }
};

static void finishBuild(std::ostringstream &o, Target &t, ssize_t n, rfc1035_query &q) {
    if (t.overrun()) { o << "OOBW"; return; }
    if (n < 0 || static_cast<size_t>(n) > t.sz) { o << "BAD-SIZE " << n; return; }
    const std::string raw(t.p, static_cast<size_t>(n));
    o << "ok " << tohex(raw) << " Q=" << cstrhex(q.name, sizeof(q.name)) << "," << q.qtype << "," << q.qclass << " | ";
    unpackInto(o, raw, &q);
}

static in_addr addr4(const std::vector<std::string> &a, size_t k) {
    in_addr x;
    unsigned char b[4] = { static_cast<unsigned char>(std::stoi(a[k])), static_cast<unsigned char>(std::stoi(a[k + 1])),
                           static_cast<unsigned char>(std::stoi(a[k + 2])), static_cast<unsigned char>(std::stoi(a[k + 3])) };
    memcpy(&x.s_addr, b, 4);
    return x;
}

int main() {
    std::string line;
    while (std::getline(std::cin, line)) {
        auto a = splitws(line);
        if (a.empty()) { std::cout << "\n"; continue; }
        const std::string &op = a[0];
        std::ostringstream o;
        std::unique_ptr<Target> tp;
        try {
            if (op == "unpack") {
                unpackInto(o, unhex(a[1]), nullptr);
            }
            else if (op == "name") {
                // name <ns> <rdepth> <off> <hex>
                const size_t ns = std::stoul(a[1]); const int rdepth = std::stoi(a[2]);
                unsigned int off = static_cast<unsigned int>(std::stoul(a[3]));
                Datagram d(unhex(a[4]));
                char *name = static_cast<char *>(malloc(ns ? ns : 1));
                memset(name, 0x5a, ns ? ns : 1);
                unsigned short rdl = 0;
                int rc;
                try { rc = rfc1035NameUnpack(d.p, d.sz, &off, &rdl, name, ns, rdepth); }
                catch (...) { free(name); throw; }
                if (rc) o << "err";
                else o << "ok " << cstrhex(name, ns) << " " << off << " " << rdl;
                free(name);
            }
            else if (op == "aq" || op == "pq") {
                // aq <sz> <qid> <edns> <hosthex> | pq <sz> <qid> <edns> <a> <b> <c> <d>
                tp.reset(new Target(std::stoul(a[1]))); Target &t = *tp;
                rfc1035_query q; memset(&q, 0, sizeof(q));
                const unsigned short qid = static_cast<unsigned short>(std::stoul(a[2]));
                const ssize_t edns = static_cast<ssize_t>(std::stol(a[3]));
                ssize_t n;
                if (op == "aq") { const std::string h = unhex(a[4]); n = rfc1035BuildAQuery(h.c_str(), t.p, t.sz, qid, &q, edns); }
                else n = rfc1035BuildPTRQuery(addr4(a, 4), t.p, t.sz, qid, &q, edns);
                finishBuild(o, t, n, q);
            }
            else if (op == "hq" || op == "p4" || op == "p6") {
                // hq <sz> <qid> <pmax> <qtype> <hosthex> | p4 <sz> <qid> <pmax> <a> <b> <c> <d> | p6 <sz> <qid> <pmax> <hex16>
                tp.reset(new Target(std::stoul(a[1]))); Target &t = *tp;
                rfc1035_query q; memset(&q, 0, sizeof(q));
                const unsigned short qid = static_cast<unsigned short>(std::stoul(a[2]));
                Config.dns.packet_max = static_cast<ssize_t>(std::stol(a[3]));
                ssize_t n;
                if (op == "hq") {
                    const std::string h = unhex(a[5]); const int qt = std::stoi(a[4]);
                    if (qt == RFC1035_TYPE_A) n = rfc3596BuildAQuery(h.c_str(), t.p, t.sz, qid, &q);
                    else if (qt == RFC1035_TYPE_AAAA) n = rfc3596BuildAAAAQuery(h.c_str(), t.p, t.sz, qid, &q);
                    else n = rfc3596BuildHostQuery(h.c_str(), t.p, t.sz, qid, &q, qt);
                } else if (op == "p4") n = rfc3596BuildPTRQuery4(addr4(a, 4), t.p, t.sz, qid, &q);
                else { in6_addr x; const std::string r = unhex(a[4]); memset(&x, 0, sizeof(x)); memcpy(x.s6_addr, r.data(), r.size() < 16 ? r.size() : 16);
                       n = rfc3596BuildPTRQuery6(x, t.p, t.sz, qid, &q); }
                finishBuild(o, t, n, q);
            }
            else if (op == "rrpack") {
                // rrpack <sz> <namehex> <type> <class> <ttl> <rdatahex>
                tp.reset(new Target(std::stoul(a[1]))); Target &t = *tp;
                static rfc1035_rr rr; memset(&rr, 0, sizeof(rr));
                const std::string nm = unhex(a[2]); std::string rd = unhex(a[6]);
                xstrncpy(rr.name, nm.c_str(), sizeof(rr.name));
                rr.type = static_cast<unsigned short>(std::stoul(a[3])); rr._class = static_cast<unsigned short>(std::stoul(a[4]));
                rr.ttl = static_cast<unsigned int>(std::stoul(a[5])); rr.rdlength = static_cast<unsigned short>(rd.size());
                rr.rdata = rd.empty() ? nullptr : &rd[0];
                const int n = rfc1035RRPack(t.p, t.sz, &rr);
                if (t.overrun()) o << "OOBW";
                else if (n < 0 || static_cast<size_t>(n) > t.sz) o << "BAD-SIZE " << n;
                else if (n == 0) o << "zero";
                else o << "ok " << tohex(t.p, n);
               
            }
            else if (op == "opt") {
                // opt <sz> <edns>
                tp.reset(new Target(std::stoul(a[1]))); Target &t = *tp;
                const int n = rfc2671RROptPack(t.p, t.sz, static_cast<ssize_t>(std::stol(a[2])));
                if (t.overrun()) o << "OOBW";
                else if (n < 0 || static_cast<size_t>(n) > t.sz) o << "BAD-SIZE " << n;
                else if (n == 0) o << "zero";
                else o << "ok " << tohex(t.p, n);
               
            }
            else if (op == "hdr") {
                // hdr <sz> id qr opcode aa tc rd ra rcode qd an ns ar : pack, then unpack what was packed
                tp.reset(new Target(std::stoul(a[1]))); Target &t = *tp;
                rfc1035_message h; memset(&h, 0, sizeof(h));
                h.id = std::stoul(a[2]); h.qr = std::stoul(a[3]); h.opcode = std::stoul(a[4]); h.aa = std::stoul(a[5]);
                h.tc = std::stoul(a[6]); h.rd = std::stoul(a[7]); h.ra = std::stoul(a[8]); h.rcode = std::stoul(a[9]);
                h.qdcount = std::stoul(a[10]); h.ancount = std::stoul(a[11]); h.nscount = std::stoul(a[12]); h.arcount = std::stoul(a[13]);
                const int n = rfc1035HeaderPack(t.p, t.sz, &h);
                if (t.overrun()) o << "OOBW";
                else {
                    Datagram d(std::string(t.p, n));
                    rfc1035_message g; memset(&g, 0, sizeof(g)); unsigned int off = 0;
                    const int rc = rfc1035HeaderUnpack(d.p, d.sz, &off, &g);
                    o << "ok " << tohex(t.p, n) << " | ";
                    if (rc) o << "err"; else printMessage(o, 0, &g), o << " off=" << off;
                }
               
            }
            else if (op == "setid") {
                // setid <qid> <hex>
                std::string raw = unhex(a[2]);
                char *p = static_cast<char *>(malloc(raw.size() ? raw.size() : 1)); memcpy(p, raw.data(), raw.size());
                rfc1035SetQueryID(p, static_cast<unsigned short>(std::stoul(a[1])));
                o << tohex(p, raw.size()); free(p);
            }
            else if (op == "cmp") {
                // cmp <nameAhex> <ta> <ca> <nameBhex> <tb> <cb>
                rfc1035_query x, y; memset(&x, 0, sizeof(x)); memset(&y, 0, sizeof(y));
                xstrncpy(x.name, unhex(a[1]).c_str(), sizeof(x.name)); x.qtype = std::stoul(a[2]); x.qclass = std::stoul(a[3]);
                xstrncpy(y.name, unhex(a[4]).c_str(), sizeof(y.name)); y.qtype = std::stoul(a[5]); y.qclass = std::stoul(a[6]);
                o << (rfc1035QueryCompare(&x, &y) != 0 ? 1 : 0);
            }
            else o << "ERR unknown-entry " << op;
        } catch (const VerifAssert &e) {
            o.str(""); o << ((tp && tp->overrun()) ? "OOBW" : "ASSERT");
        } catch (const std::exception &e) { o.str(""); o << "EXC " << e.what(); }
        catch (...) { o.str(""); o << "EXC"; }
        std::cout << o.str() << "\n" << std::flush;
    }
    return 0;
}
