#!/usr/bin/env python3
"""Table generator for C61 (MgrModel.v): the string constants the cache-manager access decision is built on, read
from the tree given as argv[1]:
  - the built-in `manager` ACL (src/cf.data.pre, NAME: acl, the DEFAULT: line cf_gen turns into default_all()),
  - CacheManager::WellKnownUrlPathPrefix() (src/cache_manager.cc),
  - the internal-URL prefix of internalCheck() (src/internal.cc),
  - the "all" keyword of PasswdGet, the default action name and the action-name delimiters of ParseUrl.
A constant that can no longer be found makes the generator fail (the check then reports a broken obligation)."""
import re, sys

repo = sys.argv[1]


def rd(p):
    return open(repo + "/" + p, encoding="latin1").read()


def coq_bytes(s):
    return "[" + ";".join(str(b) for b in s.encode("latin1")) + "]%N"


cf = rd("src/cf.data.pre")
blk = [b for b in cf.split("\nNAME:")[1:] if b.split("\n", 1)[0].split() == ["acl"]]
assert len(blk) == 1, "acl block"
ms = re.findall(r"^DEFAULT:[ \t]*manager[ \t]+(\S+)[ \t]+(.*)$", blk[0], re.M)
assert len(ms) == 1, "exactly one built-in manager ACL line expected, found %d" % len(ms)
acl_type, rest = ms[0]
toks = rest.split()
flags = [t for t in toks if re.fullmatch(r"[+-][a-zA-Z]", t)]
pats = [t for t in toks if t not in flags]
assert len(pats) == 1, "one pattern expected in the manager ACL: %r" % (toks,)

cm = rd("src/cache_manager.cc")
m = re.search(r"CacheManager::WellKnownUrlPathPrefix\(\)\s*\{[^}]*?SBuf\s+\w+\s*\(\s*\"([^\"\\]*)\"\s*\)", cm)
assert m, "WellKnownUrlPathPrefix literal"
prefix = m.group(1)


m_all = re.search(r'SBuf\s+allAction\s*\(\s*"([^"\\]*)"\s*\)', cm)
assert m_all, "allAction literal"
m_idx = re.search(r'SBuf\s+indexReport\s*\(\s*"([^"\\]*)"\s*\)', cm)
assert m_idx, "indexReport literal"
m_fc = re.search(r'CharacterSet\("mgr-field", "([^"\\]*)"\)\.complement\(\)', cm)
assert m_fc, "mgr-field character set"

it = rd("src/internal.cc")
m_ip = re.search(r'SBuf\s+InternalPfx\s*\(\s*"([^"\\]*)"\s*\)', it)
assert m_ip, "InternalPfx literal"

out = ["@@FILE Mgr_gen.v",
       "(* generated from /repo (src/cf.data.pre, src/cache_manager.cc, src/internal.cc) by gen/gen_mgr.py -- do not edit *)",
       "Require Import SquidV.Bytes.",
       "(* acl manager %s %s %s *)" % (acl_type, " ".join(flags), pats[0]),
       "Definition mgr_acl_type : bytes := %s." % coq_bytes(acl_type),
       "Definition mgr_acl_icase : bool := %s." % ("true" if (flags and flags[-1] == "-i") else "false"),
       "Definition mgr_acl_regex : bytes := %s." % coq_bytes(pats[0]),
       "(* CacheManager::WellKnownUrlPathPrefix(): %s *)" % prefix,
       "Definition mgr_prefix : bytes := %s." % coq_bytes(prefix),
       "(* internalCheck(): %s *)" % m_ip.group(1),
       "Definition internal_pfx : bytes := %s." % coq_bytes(m_ip.group(1)),
       "Definition kw_all : bytes := %s." % coq_bytes(m_all.group(1)),
       "Definition kw_index : bytes := %s." % coq_bytes(m_idx.group(1)),
       "(* characters ending the action name in ParseUrl: \"%s\" *)" % m_fc.group(1),
       "Definition mgr_field_stop : bytes := %s." % coq_bytes(m_fc.group(1)),
       ]
print("\n".join(out))
