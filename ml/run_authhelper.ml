(* handlers for the authhelper area (C46, C47).
   ah.rw  <conc 0/1> <limit> <uri1hex,uri2hex,...> <chunk hex>...   url_rewrite scenario: request k (tag k, original
          URL uri_k) is submitted, the helper's writes arrive one read per chunk, the helper exits.
          prints one token per request: same | rw:<new url hex> | hang | unsupp
   ah.acl <conc 0/1> <limit> <n> <chunk hex>...                     external ACL scenario; tokens allow | deny | hang | unsupp
   ah.auth <ttl> <casesensitive 0/1> <event>...                     events a<rid>:<header hex | none>, r<rid>, t<seconds>
          prints <rid>=<user hex | 407 | pend> for every arrival, in arrival order. The helper accepts exactly the
          passwords starting with "ok". *)
let rec nat_of_int i = if i <= 0 then O else S (nat_of_int (i - 1))
let split_c c s = if s = "-" || s = "" then [] else String.split_on_char c s
let cfg_of conc lim = { hc_conc = (conc = "1"); hc_limit = n_of_string lim }

let () =
  reg "ah.rw" (fun (conc :: lim :: uris :: chunks) ->
      let us = List.map bytes_of_hex (split_c ',' uris) in
      let ds = scenario_disps (cfg_of conc lim) (nat_of_int (List.length us)) (List.map bytes_of_hex chunks) in
      String.concat " " (List.mapi (fun k u ->
          match find_disp (n_of_int (k + 1)) ds with
          | None -> "hang"
          | Some d -> (match rw_apply u d with
              | RwSame -> "same" | RwTo v -> "rw:" ^ hex_of_bytes v | RwUnsupported -> "unsupp")) us));
  reg "ah.acl" (fun (conc :: lim :: n :: chunks) ->
      let n = int_of_string n in
      let ds = scenario_disps (cfg_of conc lim) (nat_of_int n) (List.map bytes_of_hex chunks) in
      String.concat " " (List.init n (fun k ->
          match find_disp (n_of_int (k + 1)) ds with
          | None -> "hang"
          | Some d -> (match acl_apply d with Some true -> "allow" | Some false -> "deny" | None -> "unsupp"))));
  reg "ah.auth" (fun (ttl :: cs :: evs) ->
      let good _ p = starts_with p [n_of_int 111; n_of_int 107] in
      let cfg = { c_ttl = z_of_string ttl; c_casesensitive = (cs = "1") } in
      let ev_of s =
        let body = String.sub s 1 (String.length s - 1) in
        match s.[0] with
        | 'a' -> (match String.split_on_char ':' body with
            | [rid; h] -> Arrive (n_of_string rid, if h = "none" then None else Some (bytes_of_hex h))
            | _ -> failwith "arrive")
        | 'r' -> Reply (n_of_string body)
        | 't' -> Tick (z_of_string body)
        | _ -> failwith "event" in
      let es = List.map ev_of evs in
      let st = arun good cfg a_init es in
      String.concat " " (List.concat_map (fun e -> match e with
          | Arrive (rid, _) ->
            [string_of_n rid ^ "=" ^ (match find_out rid st.a_out with
                 | None -> "pend" | Some None -> "407" | Some (Some u) -> hex_of_bytes u)]
          | _ -> []) es));
  reg "ah.strtol" (fun [s] -> let (i, e) = strtol (bytes_of_hex s) in string_of_z i ^ " " ^ hex_of_bytes e);
  reg "ah.decode" (fun [cs; h] -> match decode_header (cs = "1") (bytes_of_hex h) with
      | None -> "none" | Some (u, p) -> hex_of_bytes u ^ " " ^ hex_of_bytes p)
