// Harness for C44: the REAL ACLChecklist / Acl::Tree / InnerNode / BoolOps / AllOf / AnyOf
// (compiled from /repo's working tree) driven over synthetic scripted leaf ACLs.
//
// stdin : acl.check <mode> <tree> <actions> <banned> <leaves>
//   mode    nb | fast | fastlist
//   tree    T<id>(<node>,...)   node = L<id> | !<id>(<node>) | &<id>(..) | |<id>(..) | A<id>(..) | Y<id>(..)
//           (& AndNode, | OrNode, A Acl::AllOf, Y Acl::AnyOf, ! NotNode; "()" = no children;
//            a node id that was already built in this case is re-used: shared object)
//   actions - (tree without actions) | comma list of <c><kind>, c in a(llowed) d(enied) u(dunno) r(auth required)
//   banned  - | comma list of actions
//   leaves  - | comma list of <id>:<truth 0|1>:<retry 0|1>:<attempts, string over R F, or .>
// stdout: <CODE> <kind> <implicit> last=<id|-> susp=<n> starts=<n> trace=<id.id...|->
//
// A scripted leaf needs len(attempts) completed lookups before it can answer `truth`.
// While lookups are missing its match() calls goAsync(); attempt R really goes asynchronous
// (the harness later completes the lookup and calls resumeNonBlockingCheck()), attempt F
// "does not really go async": the starter completes the lookup and calls
// resumeNonBlockingCheck() synchronously from inside goAsync(). When goAsync() fails the
// leaf answers "mismatch" (as ACLDestinationIP/SourceDomain do) unless retry=1, in which
// case it calls goAsync() again as long as the previous call at least reached the starter.
#include "squid.h"
#include "acl/Acl.h"
#include "acl/AllOf.h"
#include "acl/AnyOf.h"
#include "acl/BoolOps.h"
#include "acl/Checklist.h"
#include "acl/FilledChecklist.h"
#include "acl/InnerNode.h"
#include "acl/Tree.h"
#include "cbdata.h"
#include "mem/forward.h"
#include "sbuf/SBuf.h"
#include "hcommon.h"

#include <map>
#include <stdexcept>

class HLeaf;
struct HState {
    std::map<unsigned long, HLeaf *> leaves;
    std::map<unsigned long, Acl::Node *> built;
    HLeaf *pending = nullptr;
    unsigned long starts = 0, susp = 0;
    std::vector<unsigned long> trace;
    bool answered = false;
    Acl::Answer answer;
};
static HState G;

class HLeaf : public Acl::Node
{
    MEMPROXY_CLASS(HLeaf);
public:
    unsigned long id = 0;
    bool truth = false, retry = false;
    std::string attempts;
    size_t done = 0; ///< completed lookups

    static void Starter(ACLFilledChecklist &cl, const Acl::Node &acl) {
        auto *leaf = const_cast<HLeaf *>(dynamic_cast<const HLeaf *>(&acl));
        if (!leaf) throw std::runtime_error("starter: not a scripted leaf");
        ++G.starts;
        if (leaf->attempts.at(leaf->done) == 'R') {
            G.pending = leaf; // a real asynchronous lookup: completed later by the harness
        } else {
            ++leaf->done; // lookup completes immediately ...
            cl.resumeNonBlockingCheck(); // ... and its callback fires from inside goAsync()
        }
    }

    /* Acl::Node API */
    void parse() override {}
    char const *typeString() const override { return "hleaf"; }
    SBufList dump() const override { return SBufList(); }
    bool empty() const override { return false; }

private:
    int match(ACLChecklist *cl) override {
        G.trace.push_back(id);
        while (done < attempts.size()) {
            const auto before = done;
            if (cl->goAsync(Starter, *this))
                return -1;
            if (!retry)
                return 0; // hide the lookup failure as a mismatch
            if (done == before)
                return 0; // refused before reaching the starter
        }
        return truth ? 1 : 0;
    }
};

class CbTarget
{
    CBDATA_CLASS(CbTarget);
public:
    CbTarget() {}
};
CBDATA_CLASS_INIT(CbTarget);

static void Done(Acl::Answer a, void *)
{
    G.answered = true;
    G.answer = a;
}

static SBuf nameOf(unsigned long id) { return SBuf("n" + std::to_string(id)); }

struct TreeParser {
    const std::string &s;
    size_t p = 0;
    explicit TreeParser(const std::string &str): s(str) {}
    char peek() const { return p < s.size() ? s[p] : '\0'; }
    char get() { if (p >= s.size()) throw std::runtime_error("tree syntax: eof"); return s[p++]; }
    void expect(char c) { if (get() != c) throw std::runtime_error("tree syntax"); }
    unsigned long num() {
        if (!isdigit(static_cast<unsigned char>(peek()))) throw std::runtime_error("tree syntax: id");
        unsigned long v = 0;
        while (isdigit(static_cast<unsigned char>(peek()))) v = v * 10 + (get() - '0');
        return v;
    }
    std::vector<Acl::Node *> kids() {
        std::vector<Acl::Node *> v;
        expect('(');
        if (peek() == ')') { get(); return v; }
        for (;;) {
            v.push_back(node());
            const char c = get();
            if (c == ')') break;
            if (c != ',') throw std::runtime_error("tree syntax: , or )");
        }
        return v;
    }
    Acl::Node *node() {
        const char k = get();
        const auto id = num();
        if (k == 'L') {
            const auto it = G.leaves.find(id);
            if (it == G.leaves.end()) throw std::runtime_error("leaf without script");
            return it->second;
        }
        const auto ks = kids();
        const auto known = G.built.find(id);
        if (known != G.built.end())
            return known->second; // shared node
        Acl::Node *made = nullptr;
        if (k == '!') {
            if (ks.size() != 1) throw std::runtime_error("not-node needs one child");
            made = new Acl::NotNode(ks[0]);
        } else {
            Acl::InnerNode *in = nullptr;
            if (k == '&') in = new Acl::AndNode;
            else if (k == '|') in = new Acl::OrNode;
            else if (k == 'A') in = new Acl::AllOf;
            else if (k == 'Y') in = new Acl::AnyOf;
            else throw std::runtime_error("tree syntax: kind");
            for (auto *c : ks) in->add(c);
            made = in;
        }
        made->context(nameOf(id), nullptr);
        G.built[id] = made;
        return made;
    }
};

static Acl::Answer actionOf(const std::string &t)
{
    if (t.empty()) throw std::runtime_error("action syntax");
    aclMatchCode c;
    switch (t[0]) {
    case 'a': c = ACCESS_ALLOWED; break;
    case 'd': c = ACCESS_DENIED; break;
    case 'u': c = ACCESS_DUNNO; break;
    case 'r': c = ACCESS_AUTH_REQUIRED; break;
    default: throw std::runtime_error("action syntax");
    }
    return Acl::Answer(c, t.size() > 1 ? std::stoi(t.substr(1)) : 0);
}

static std::vector<std::string> splitc(const std::string &s, char sep)
{
    std::vector<std::string> v;
    if (s == "-") return v;
    std::string cur;
    for (char c : s) { if (c == sep) { v.push_back(cur); cur.clear(); } else cur.push_back(c); }
    v.push_back(cur);
    return v;
}

static const char *codeName(const Acl::Answer &a)
{
    switch (a.code) {
    case ACCESS_DENIED: return "DENIED";
    case ACCESS_ALLOWED: return "ALLOWED";
    case ACCESS_DUNNO: return "DUNNO";
    case ACCESS_AUTH_REQUIRED: return "AUTH_REQUIRED";
    }
    return "?";
}

static std::string runCase(const std::vector<std::string> &a)
{
    if (a.size() != 6) throw std::runtime_error("usage");
    G = HState();
    const std::string &mode = a[1];

    for (const auto &ls : splitc(a[5], ',')) {
        const auto f = splitc(ls, ':');
        if (f.size() != 4) throw std::runtime_error("leaf syntax");
        auto *leaf = new HLeaf;
        leaf->id = std::stoul(f[0]);
        leaf->truth = f[1] == "1";
        leaf->retry = f[2] == "1";
        leaf->attempts = f[3] == "." ? std::string() : f[3];
        leaf->context(nameOf(leaf->id), nullptr);
        G.leaves[leaf->id] = leaf;
    }
    // keep every leaf alive even if the tree does not use it
    std::vector<Acl::Node::Pointer> keep;
    for (const auto &kv : G.leaves) keep.push_back(Acl::Node::Pointer(kv.second));

    TreeParser ps(a[2]);
    ps.expect('T');
    const auto tid = ps.num();
    const auto rules = ps.kids();
    if (ps.p != a[2].size()) throw std::runtime_error("tree syntax: trailing");
    const auto acts = splitc(a[3], ',');
    Acl::TreePointer tree = new Acl::Tree;
    tree->context(nameOf(tid), nullptr);
    if (a[3] == "-") {
        for (auto *r : rules) tree->add(r);
    } else {
        if (acts.size() != rules.size()) throw std::runtime_error("actions/rules mismatch");
        for (size_t i = 0; i < rules.size(); ++i) tree->add(rules[i], actionOf(acts[i]));
    }

    Acl::Answer result;
    if (mode == "nb") {
        auto *target = new CbTarget;
        auto cl = ACLFilledChecklist::Make(&tree, nullptr);
        auto *raw = cl.get();
        for (const auto &b : splitc(a[4], ',')) raw->banAction(actionOf(b));
        ACLFilledChecklist::NonBlockingCheck(std::move(cl), Done, target);
        while (!G.answered) {
            if (!G.pending) throw std::runtime_error("stuck: no answer and no pending lookup");
            auto *leaf = G.pending;
            G.pending = nullptr;
            ++G.susp;
            ++leaf->done; // the lookup completes ...
            raw->resumeNonBlockingCheck(); // ... and its callback resumes the check
        }
        result = G.answer;
        delete target;
    } else if (mode == "fast") {
        ACLFilledChecklist cl(&tree, nullptr);
        for (const auto &b : splitc(a[4], ',')) cl.banAction(actionOf(b));
        result = cl.fastCheck();
    } else if (mode == "fastlist") {
        ACLFilledChecklist cl(nullptr, nullptr);
        for (const auto &b : splitc(a[4], ',')) cl.banAction(actionOf(b));
        result = cl.fastCheck(&tree);
    } else
        throw std::runtime_error("mode");

    std::ostringstream o;
    o << codeName(result) << " " << result.kind << " " << (result.implicit ? 1 : 0) << " last=";
    if (result.lastCheckedName) {
        const auto &n = *result.lastCheckedName;
        o << std::string(n.rawContent(), n.length()).substr(1);
    } else
        o << "-";
    o << " susp=" << G.susp << " starts=" << G.starts << " trace=";
    if (G.trace.empty()) o << "-";
    for (size_t i = 0; i < G.trace.size(); ++i) o << (i ? "." : "") << G.trace[i];
    return o.str();
}

int main()
{
    Mem::Init();
    std::string line;
    while (std::getline(std::cin, line)) {
        auto a = splitws(line);
        if (a.empty()) { std::cout << "\n"; continue; }
        std::string out;
        try {
            if (a[0] == "acl.check") out = runCase(a);
            else out = "ERR unknown-entry " + a[0];
        } catch (const std::exception &e) { out = std::string("EXC ") + e.what(); }
        catch (...) { out = "EXC"; }
        std::cout << out << "\n" << std::flush;
    }
    return 0;
}
