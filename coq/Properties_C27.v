(* Properties_C27.v — C27: integer parsing is exact and overflow-safe.
   Statements only; proofs live in Int64Proofs.v. *)
Require Import SquidV.Bytes SquidV.TokModel SquidV.Int64Proofs.
Local Open Scope Z_scope.

(* Parser::Tokenizer::int64 (cutoff/cutlim test, uint64_t accumulation with explicit wrap
   "mod 2^64" in the model) equals the arbitrary-precision reading of the same characters,
   for every base selector 0 or 2..36, sign setting, length limit and input *)
Theorem C27_int64_equals_unbounded_reading : forall base0 allowSign limit buf,
  base_ok base0 -> tok_int64 base0 allowSign limit buf = ref_int64 base0 allowSign limit buf.
Proof. exact tok_int64_exact. Qed.
Print Assumptions C27_int64_equals_unbounded_reading.

(* after sign/prefix handling: success returns exactly the value of the maximal digit run,
   consumes exactly those digits, and the value fits int64_t *)
Theorem C27_int64_value_is_the_consumed_digits : forall base neg r2 n2 v n,
  2 <= base -> int64_core base neg r2 n2 = Some (v, n) ->
  let ds := digit_run base r2 in
  ds <> [] /\ n = (n2 + lenN ds)%N /\
  v = (if neg then - digits_value base ds 0 else digits_value base ds 0) /\
  - two63 <= v < two63.
Proof. exact int64_core_sound. Qed.
Print Assumptions C27_int64_value_is_the_consumed_digits.

(* failure happens only without digits or when the digits' value does not fit *)
Theorem C27_int64_fails_only_when_unrepresentable : forall base neg r2 n2,
  2 <= base -> int64_core base neg r2 n2 = None ->
  digit_run base r2 = [] \/ digits_value base (digit_run base r2) 0 > (if neg then two63 else two63 - 1).
Proof. exact int64_core_none. Qed.
Print Assumptions C27_int64_fails_only_when_unrepresentable.

(* the form used by the HTTP parsers, stated against the raw input *)
Theorem C27_int64_decimal_unsigned_spec : forall limit buf,
  tok_int64 10 false limit buf =
  match digit_run 10 (takeN limit buf) with
  | [] => None
  | ds => let v := digits_value 10 ds 0 in if v >? two63 - 1 then None else Some (v, lenN ds)
  end.
Proof. exact tok_int64_dec_unsigned. Qed.
Print Assumptions C27_int64_decimal_unsigned_spec.

(* header offsets (strtoll semantics): an accepted value fits, something was consumed *)
Theorem C27_parse_offset_in_range : forall s v n,
  parse_offset s = Some (v, n) -> - two63 <= v < two63 /\ (0 < n)%N.
Proof. exact parse_offset_sound. Qed.
Print Assumptions C27_parse_offset_in_range.

(* header ints never wrap into the int range (the F3 repair) *)
Theorem C27_parse_int_never_wraps : forall s v, parse_int s = Some v -> - two31 <= v < two31.
Proof. exact parse_int_in_int_range. Qed.
Print Assumptions C27_parse_int_never_wraps.

(* non-vacuity: INT64_MIN in base 16 with sign is accepted with its exact value; one more is rejected *)
Example C27_int64_min_hex :
  tok_int64 16 true 4294967295%N (map N.of_nat [45;48;120;56;48;48;48;48;48;48;48;48;48;48;48;48;48;48;48]%nat)
  = Some (- two63, 19%N).
Proof. vm_compute. reflexivity. Qed.
Example C27_int64_min_minus_one_rejected :
  tok_int64 10 true 4294967295%N (map N.of_nat [45;57;50;50;51;51;55;50;48;51;54;56;53;52;55;55;53;56;48;57]%nat) = None.
Proof. vm_compute. reflexivity. Qed.
