(* DnsProofs.v — specification vocabulary and proofs for DnsModel.v (C37). *)
Require Import SquidV.Bytes SquidV.gen.Dns_gen SquidV.DnsModel.
Require Import ZifyBool ZifyN ZifyNat.
Local Open Scope N_scope.

(* ================= small list facts ================= *)
Lemma nthN_some {A} (l : list A) (i : N) : i < lenN l -> exists b, nthN i l = Some b.
Proof.
  revert i. induction l as [|x l IH]; intros i Hi; cbn [lenN nthN] in *; [lia|].
  destruct (i =? 0) eqn:E; [eexists; reflexivity|]. apply IH. lia.
Qed.

Lemma nthN_in_range {A} (l : list A) (i : N) x : nthN i l = Some x -> i < lenN l.
Proof.
  revert i. induction l as [|y l IH]; intros i H; cbn [lenN nthN] in *; [discriminate|].
  destruct (i =? 0) eqn:E; [lia|]. apply IH in H. lia.
Qed.

Lemma nthN_app_l {A} (a b : list A) i : i < lenN a -> nthN i (a ++ b) = nthN i a.
Proof.
  revert i. induction a as [|x a IH]; intros i Hi; cbn [lenN nthN app] in *; [lia|].
  destruct (i =? 0) eqn:E; [reflexivity|]. apply IH. lia.
Qed.

Lemma nthN_app_r {A} (a b : list A) i : lenN a <= i -> nthN i (a ++ b) = nthN (i - lenN a) b.
Proof.
  revert i. induction a as [|x a IH]; intros i Hi; cbn [lenN nthN app] in *; [f_equal; lia|].
  destruct (i =? 0) eqn:E; [lia|]. rewrite IH by lia. f_equal. lia.
Qed.

Lemma dropN_app_len {A} (a b : list A) : dropN (lenN a) (a ++ b) = b.
Proof.
  induction a as [|x a IH]; cbn [lenN dropN app].
  - destruct b; cbn [dropN]; reflexivity.
  - destruct (N.succ (lenN a) =? 0) eqn:E; [lia|]. rewrite N.pred_succ. exact IH.
Qed.

Lemma dropN_app_ge {A} (a b : list A) n : lenN a <= n -> dropN n (a ++ b) = dropN (n - lenN a) b.
Proof.
  revert n. induction a as [|x a IH]; intros n Hn; cbn [lenN dropN app] in *.
  - f_equal. lia.
  - destruct (n =? 0) eqn:E; [lia|]. rewrite IH by lia. f_equal. lia.
Qed.

Lemma takeN_app_len {A} (a b : list A) : takeN (lenN a) (a ++ b) = a.
Proof.
  induction a as [|x a IH]; cbn [lenN takeN app].
  - destruct b; cbn [takeN]; reflexivity.
  - destruct (N.succ (lenN a) =? 0) eqn:E; [lia|]. rewrite N.pred_succ, IH. reflexivity.
Qed.

Lemma takeN_all {A} (l : list A) n : lenN l <= n -> takeN n l = l.
Proof.
  revert n. induction l as [|x l IH]; intros n Hn; cbn [lenN takeN] in *; [reflexivity|].
  destruct (n =? 0) eqn:E; [lia|]. rewrite IH by lia. reflexivity.
Qed.

Lemma lenN_dropN {A} (l : list A) n : lenN (dropN n l) = lenN l - n.
Proof.
  revert n. induction l as [|x l IH]; intros n; cbn [lenN dropN]; [lia|].
  destruct (n =? 0) eqn:E; cbn [lenN]; [lia|]. rewrite IH. lia.
Qed.

(* ================= checked reads succeed inside the datagram ================= *)
Lemma rd16_some buf off : off + 2 <= lenN buf -> exists v, rd16 buf off = Some v.
Proof.
  intros H. unfold rd16.
  destruct (nthN_some buf off) as [a Ha]; [lia|].
  destruct (nthN_some buf (off + 1)) as [b Hb]; [lia|].
  rewrite Ha, Hb. eexists; reflexivity.
Qed.

Lemma rd32_some buf off : off + 4 <= lenN buf -> exists v, rd32 buf off = Some v.
Proof.
  intros H. unfold rd32.
  destruct (rd16_some buf off) as [a Ha]; [lia|].
  destruct (rd16_some buf (off + 2)) as [b Hb]; [lia|].
  rewrite Ha, Hb. eexists; reflexivity.
Qed.

Lemma rd_range_some buf off len : off + len <= lenN buf -> exists d, rd_range buf off len = Some d.
Proof.
  intros H. unfold rd_range. destruct (off + len <=? lenN buf) eqn:E; [eexists; reflexivity|lia].
Qed.

(* ================= Part A: decoding never leaves the datagram and terminates ================= *)
(* "the outcome is not one of the bad ones, and a returned offset is inside the datagram" *)
Definition name_res_ok (sz : N) (r : outcome (bytes * N * N)) : Prop :=
  match r with
  | Bad _ => False
  | Err => True
  | Ok (_, off', _) => off' <= sz
  end.

Lemma name_finish_safe acc no ns cap off rdl sz :
  no <= ns -> ns <= cap -> 0 < ns -> off <= sz -> name_res_ok sz (name_finish acc no ns cap off rdl).
Proof.
  intros H1 H2 H3 H4. unfold name_finish.
  destruct (no =? 0) eqn:E0.
  - destruct (cap =? 0) eqn:E1; [lia|]. exact H4.
  - destruct (cap <? no) eqn:E1; [lia|]. destruct (ns <? no) eqn:E2; [lia|]. exact H4.
Qed.

Lemma name_loop_safe : forall fuel buf off rdl acc no ns cap rdepth,
  no < ns -> ns <= cap ->
  (ns - no) + (66 - rdepth) < N.of_nat fuel ->
  name_res_ok (lenN buf) (name_loop fuel buf (lenN buf) off rdl acc no ns cap rdepth).
Proof.
  induction fuel as [|f IH]; intros buf off rdl acc no ns cap rdepth Hno Hcap Hfuel; [lia|].
  cbn [name_loop].
  destruct (lenN buf <=? off) eqn:Eoff; [exact I|].
  destruct (nthN_some buf off) as [c Hc]; [lia|]. rewrite Hc.
  destruct (191 <? c) eqn:Eptr.
  - destruct (64 <? rdepth) eqn:Erd; [exact I|].
    unfold dns_sizeof_ushort.
    destruct (lenN buf <? off + 2) eqn:Esz; [exact I|].
    destruct (rd16_some buf off) as [s Hs]; [lia|]. rewrite Hs.
    destruct (lenN buf <=? s mod 16384) eqn:Ep; [exact I|].
    destruct (ns <? no) eqn:E1; [lia|].
    destruct (cap <? no) eqn:E2; [lia|].
    destruct (ns - no =? 0) eqn:E3; [lia|].
    specialize (IH buf (s mod 16384) rdl acc 0 (ns - no) (cap - no) (rdepth + 1)).
    assert (H0 : 0 < ns - no) by lia.
    assert (H1 : ns - no <= cap - no) by lia.
    assert (H2 : (ns - no - 0) + (66 - (rdepth + 1)) < N.of_nat f) by lia.
    specialize (IH H0 H1 H2).
    destruct (name_loop f buf (lenN buf) (s mod 16384) rdl acc 0 (ns - no) (cap - no) (rdepth + 1)) as [[[nm o'] r']| |b];
      cbn [name_res_ok] in *; [lia|exact I|exact IH].
  - unfold dns_MAXLABELSZ.
    destruct (63 <? c) eqn:Elab; [exact I|].
    destruct (c =? 0) eqn:Ec0.
    + apply name_finish_safe; lia.
    + destruct (ns <? no + 1) eqn:E1; [lia|].
      destruct (ns - no - 1 <? c) eqn:E2; [exact I|].
      destruct (lenN buf <=? off + 1 + c) eqn:E3; [exact I|].
      destruct (rd_range_some buf (off + 1) c) as [lbl Hl]; [lia|]. rewrite Hl.
      destruct (cap <? no + c + 1) eqn:E4; [lia|].
      destruct (no + c + 1 <? ns) eqn:E5.
      * apply IH; lia.
      * apply name_finish_safe; lia.
Qed.

Lemma name_unpack_safe buf off ns cap rdepth :
  0 < ns -> ns <= cap -> name_res_ok (lenN buf) (name_unpack buf (lenN buf) off ns cap rdepth).
Proof.
  intros Hns Hcap. unfold name_unpack. destruct (ns =? 0) eqn:E; [lia|].
  apply name_loop_safe; [lia|lia|]. unfold name_fuel. lia.
Qed.

Definition res_ok {A} (sz : N) (r : outcome (A * N)) : Prop :=
  match r with Bad _ => False | Err => True | Ok (_, off') => off' <= sz end.

Lemma hostsz_pos : 0 < dns_MAXHOSTNAMESZ. Proof. reflexivity. Qed.
Lemma hostsz_query : dns_MAXHOSTNAMESZ <= dns_sizeof_query_name. Proof. discriminate. Qed.
Lemma hostsz_rr : dns_MAXHOSTNAMESZ <= dns_sizeof_rr_name. Proof. discriminate. Qed.

Lemma query_unpack_safe buf off : res_ok (lenN buf) (query_unpack buf (lenN buf) off).
Proof.
  unfold query_unpack.
  pose proof (name_unpack_safe buf off dns_MAXHOSTNAMESZ dns_sizeof_query_name 0 hostsz_pos hostsz_query) as H.
  destruct (name_unpack buf (lenN buf) off dns_MAXHOSTNAMESZ dns_sizeof_query_name 0) as [[[nm off1] r]| |b];
    cbn [name_res_ok res_ok] in *; [|exact I|exact H].
  destruct (lenN buf <? off1 + 4) eqn:E; [exact I|].
  destruct (rd16_some buf off1) as [t Ht]; [lia|].
  destruct (rd16_some buf (off1 + 2)) as [c Hc]; [lia|].
  rewrite Ht, Hc. cbn [res_ok]. lia.
Qed.

Lemma rr_unpack_safe buf off : res_ok (lenN buf) (rr_unpack buf (lenN buf) off).
Proof.
  unfold rr_unpack.
  pose proof (name_unpack_safe buf off dns_MAXHOSTNAMESZ dns_sizeof_rr_name 0 hostsz_pos hostsz_rr) as H.
  destruct (name_unpack buf (lenN buf) off dns_MAXHOSTNAMESZ dns_sizeof_rr_name 0) as [[[nm off1] r]| |b];
    cbn [name_res_ok res_ok] in *; [|exact I|exact H].
  destruct (lenN buf <? off1 + 10) eqn:E; [exact I|].
  destruct (rd16_some buf off1) as [ty Hty]; [lia|].
  destruct (rd16_some buf (off1 + 2)) as [cl Hcl]; [lia|].
  destruct (rd32_some buf (off1 + 4)) as [ttl Httl]; [lia|].
  destruct (rd16_some buf (off1 + 8)) as [rdl Hrdl]; [lia|].
  rewrite Hty, Hcl, Httl, Hrdl.
  destruct (lenN buf <? off1 + 10 + rdl) eqn:E2; [exact I|].
  destruct (ty =? dns_TYPE_PTR) eqn:Ety.
  - pose proof (name_unpack_safe buf (off1 + 10) dns_MAXHOSTNAMESZ dns_MAXHOSTNAMESZ 0 hostsz_pos (N.le_refl _)) as H2.
    destruct (name_unpack buf (lenN buf) (off1 + 10) dns_MAXHOSTNAMESZ dns_MAXHOSTNAMESZ 0) as [[[pn o2] r2]| |b];
      cbn [name_res_ok res_ok] in *; [|exact I|exact H2].
    destruct (off1 + 10 + rdl <? o2) eqn:E3; [exact I|].
    cbn [res_ok]. lia.
  - destruct (rd_range_some buf (off1 + 10) rdl) as [d Hd]; [lia|]. rewrite Hd. cbn [res_ok]. lia.
Qed.

Definition list_res_ok {A} (r : outcome (list A)) : Prop :=
  match r with Bad _ => False | Err => False | Ok _ => True end.

Lemma rrs_loop_safe n buf off : list_res_ok (rrs_loop n buf (lenN buf) off).
Proof.
  revert off. induction n as [|k IH]; intros off; cbn [rrs_loop]; [exact I|].
  destruct (lenN buf <=? off) eqn:E; [exact I|].
  pose proof (rr_unpack_safe buf off) as H.
  destruct (rr_unpack buf (lenN buf) off) as [[r off']| |b]; cbn [res_ok] in H; [|exact I|exact H].
  specialize (IH off').
  destruct (rrs_loop k buf (lenN buf) off') as [l| |b]; cbn [list_res_ok] in *; [exact I|exact IH|exact IH].
Qed.

Lemma rrs_loop_count n buf sz off l : rrs_loop n buf sz off = Ok l -> lenN l <= N.of_nat n.
Proof.
  revert off l. induction n as [|k IH]; intros off l H; cbn [rrs_loop] in H.
  - injection H as <-. cbn [lenN]. lia.
  - destruct (sz <=? off); [injection H as <-; cbn [lenN]; lia|].
    destruct (rr_unpack buf sz off) as [[r off']| |b]; [|injection H as <-; cbn [lenN]; lia|discriminate].
    destruct (rrs_loop k buf sz off') as [l'| |b] eqn:E; try discriminate.
    injection H as <-. apply IH in E. cbn [lenN]. lia.
Qed.

Lemma header_unpack_safe buf : match header_unpack buf (lenN buf) with Bad _ => False | _ => True end.
Proof.
  unfold header_unpack. destruct (lenN buf <? 12) eqn:E; [exact I|].
  destruct (rd16_some buf 0) as [a Ha]; [lia|].
  destruct (rd16_some buf 2) as [b Hb]; [lia|].
  destruct (rd16_some buf 4) as [c Hc]; [lia|].
  destruct (rd16_some buf 6) as [d Hd]; [lia|].
  destruct (rd16_some buf 8) as [e He]; [lia|].
  destruct (rd16_some buf 10) as [f Hf]; [lia|].
  rewrite Ha, Hb, Hc, Hd, He, Hf. exact I.
Qed.

(* what a caller may rely on for ANY datagram *)
Definition unpacked_sane (u : unpacked) : Prop :=
  match u with
  | UFail => True
  | URcode h q => h_qd h = 1 /\ h_rcode h <> 0
  | UAnswers h q rrs => h_qd h = 1 /\ h_rcode h = 0 /\ lenN rrs <= h_an h /\ (h_an h <> 0 -> rrs <> [])
  end.

Theorem message_unpack_total : forall buf, exists u, message_unpack buf = Ok u /\ unpacked_sane u.
Proof.
  intros buf. unfold message_unpack.
  pose proof (header_unpack_safe buf) as Hh.
  destruct (header_unpack buf (lenN buf)) as [h| |b]; [|eexists; split; [reflexivity|exact I]|contradiction].
  destruct (h_qd h =? 1) eqn:Eqd; cbn [negb]; [|eexists; split; [reflexivity|exact I]].
  pose proof (query_unpack_safe buf 12) as Hq.
  destruct (query_unpack buf (lenN buf) 12) as [[q off]| |b]; cbn [res_ok] in Hq;
    [|eexists; split; [reflexivity|exact I]|contradiction].
  destruct (h_rcode h =? 0) eqn:Erc; cbn [negb].
  2:{ eexists; split; [reflexivity|]. cbn [unpacked_sane]. lia. }
  destruct (h_an h =? 0) eqn:Ean.
  { eexists; split; [reflexivity|]. cbn [unpacked_sane lenN]. repeat split; try lia. }
  pose proof (rrs_loop_safe (N.to_nat (h_an h)) buf off) as Hl.
  destruct (rrs_loop (N.to_nat (h_an h)) buf (lenN buf) off) as [l| |b] eqn:El; cbn [list_res_ok] in Hl; try contradiction.
  apply rrs_loop_count in El.
  destruct l as [|r l]; [eexists; split; [reflexivity|exact I]|].
  eexists; split; [reflexivity|]. cbn [unpacked_sane]. repeat split; try lia. discriminate.
Qed.
