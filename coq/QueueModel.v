(* QueueModel.v — src/ipc/Queue.h: Ipc::OneToOneUniQueue (lock-free single-producer /
   single-consumer ring) and Ipc::QueueReader (the reader's blocked/signal flags).

   Executable definitions only. Two processes: the PRODUCER runs push(v, reader) for
   each of its items and, when push() answers true, sends the out-of-band notification;
   the CONSUMER runs HandleMessagesAtStart()/HandleNotification() of the callers
   (IpcIoFile, CollapsedForwarding): clearSignal(), pop() until it answers false, idle.

   ONE transition per atomic operation (std::atomic defaults: sequentially consistent)
   AND per non-atomic item copy: the memcpy() into the ring (PPush2) and out of the ring
   (CPop5) are steps of their own, so the order "copy, then ++theSize" / "copy, then
   --theSize" is part of the model. The non-atomic index arithmetic (pos = theIn++ %
   theCapacity, pos = theOut++ % theCapacity) touches only data private to one process
   and is folded into the atomic step that precedes it.

   theIn/theOut are `unsigned int`: their ++ wraps modulo 2^32, written explicitly.
   theSize is std::atomic<uint32_t>: ++/-- wrap modulo 2^32, written explicitly.
   The ring holds `option N`: None = a slot nobody has written yet.

   Ghost fields (not in the code; never read by a transition): i0 (the initial index),
   acc (values whose copy into the ring was made), pushed (values whose push() returned),
   popped (values returned by pop() = true). *)
Require Import SquidV.Bytes.
Local Open Scope N_scope.

Definition W32 : N := 4294967296.
Definition wrap32 (x : N) : N := x mod W32.

(* ---------- program counters ---------- *)
(* template<class Value> bool push(const Value &value, QueueReader *const reader) *)
Inductive ppc :=
| PPush1 (v : N)        (* full(): load theSize; == theCapacity => throw Full; else pos = theIn++ % theCapacity * theMaxItemSize *)
| PPush2 (v pos : N)    (* memcpy(theBuffer + pos, &value, sizeof(value)) *)
| PPush3 (v : N)        (* const bool wasEmpty = !theSize++ *)
| PPush4 (v : N)        (* raiseSignal(): blocked() = popBlocked.load() *)
| PPush5 (v : N)        (* raiseSignal(): !popSignal.exchange(true) *)
| PNotify               (* the caller sends the notification push() asked for *)
| PDone.                (* no more items *)

(* clearSignal(); then template<class Value> bool pop(Value &value, QueueReader *const reader) in a loop *)
Inductive cpc :=
| CClr1                 (* clearSignal(): unblock() = popBlocked.store(false) *)
| CClr2                 (* clearSignal(): popSignal.store(false) *)
| CPop1                 (* empty(): load theSize *)
| CPop2                 (* reader->block() = popBlocked.store(true) *)
| CPop3                 (* empty() again: load theSize; zero => return false *)
| CPop4                 (* reader->unblock() = popBlocked.store(false); then pos = theOut++ % theCapacity * theMaxItemSize *)
| CPop5 (pos : N)       (* memcpy(&value, theBuffer + pos, sizeof(value)) *)
| CPop6 (v : option N)  (* --theSize; return true *)
| CIdle                 (* waiting: takes a notification, or polls, or ends *)
| CDone.

Inductive event :=
| EvPush (v : N) (r : bool)   (* push(v) returned r *)
| EvFull (v : N)              (* push(v) threw Full *)
| EvNotify                    (* the producer sent the notification *)
| EvTake                      (* the idle consumer took a notification *)
| EvPoll                      (* the idle consumer starts a poll of its own *)
| EvClear                     (* clearSignal() returned *)
| EvPop (v : option N)        (* pop() returned true with this value (None: an unwritten slot) *)
| EvEmpty                     (* pop() returned false *)
| EvEnd.                      (* the consumer ended *)

Record state := mkState {
  cap : N;                 (* const uint32_t theCapacity *)
  i0 : N;                  (* ghost: the initial value of theIn and theOut *)
  tin : N;                 (* unsigned int theIn *)
  tout : N;                (* unsigned int theOut *)
  size : N;                (* std::atomic<uint32_t> theSize *)
  blocked : bool;          (* QueueReader::popBlocked *)
  signal : bool;           (* QueueReader::popSignal *)
  buf : list (option N);   (* theBuffer, theCapacity slots *)
  notifs : N;              (* notifications sent and not yet taken (the out-of-band channel) *)
  polls : N;               (* polls the consumer may still make on its own *)
  pp : ppc;
  items : list N;          (* values the producer has still to push after the current one *)
  cp : cpc;
  acc : list N;            (* ghost *)
  pushed : list N;         (* ghost *)
  popped : list (option N) (* ghost *)
}.

Definition set_tin (s : state) (x : N) := mkState (cap s) (i0 s) x (tout s) (size s) (blocked s) (signal s) (buf s) (notifs s) (polls s) (pp s) (items s) (cp s) (acc s) (pushed s) (popped s).
Definition set_tout (s : state) (x : N) := mkState (cap s) (i0 s) (tin s) x (size s) (blocked s) (signal s) (buf s) (notifs s) (polls s) (pp s) (items s) (cp s) (acc s) (pushed s) (popped s).
Definition set_size (s : state) (x : N) := mkState (cap s) (i0 s) (tin s) (tout s) x (blocked s) (signal s) (buf s) (notifs s) (polls s) (pp s) (items s) (cp s) (acc s) (pushed s) (popped s).
Definition set_blocked (s : state) (x : bool) := mkState (cap s) (i0 s) (tin s) (tout s) (size s) x (signal s) (buf s) (notifs s) (polls s) (pp s) (items s) (cp s) (acc s) (pushed s) (popped s).
Definition set_signal (s : state) (x : bool) := mkState (cap s) (i0 s) (tin s) (tout s) (size s) (blocked s) x (buf s) (notifs s) (polls s) (pp s) (items s) (cp s) (acc s) (pushed s) (popped s).
Definition set_notifs (s : state) (x : N) := mkState (cap s) (i0 s) (tin s) (tout s) (size s) (blocked s) (signal s) (buf s) x (polls s) (pp s) (items s) (cp s) (acc s) (pushed s) (popped s).
Definition set_polls (s : state) (x : N) := mkState (cap s) (i0 s) (tin s) (tout s) (size s) (blocked s) (signal s) (buf s) (notifs s) x (pp s) (items s) (cp s) (acc s) (pushed s) (popped s).
Definition set_pp (s : state) (x : ppc) := mkState (cap s) (i0 s) (tin s) (tout s) (size s) (blocked s) (signal s) (buf s) (notifs s) (polls s) x (items s) (cp s) (acc s) (pushed s) (popped s).
Definition set_items (s : state) (x : list N) := mkState (cap s) (i0 s) (tin s) (tout s) (size s) (blocked s) (signal s) (buf s) (notifs s) (polls s) (pp s) x (cp s) (acc s) (pushed s) (popped s).
Definition set_cp (s : state) (x : cpc) := mkState (cap s) (i0 s) (tin s) (tout s) (size s) (blocked s) (signal s) (buf s) (notifs s) (polls s) (pp s) (items s) x (acc s) (pushed s) (popped s).
(* the copy into the ring: slot and ghost `acc` together *)
Definition set_buf_acc (s : state) (b : list (option N)) (a : list N) := mkState (cap s) (i0 s) (tin s) (tout s) (size s) (blocked s) (signal s) b (notifs s) (polls s) (pp s) (items s) (cp s) a (pushed s) (popped s).
Definition set_pushed (s : state) (x : list N) := mkState (cap s) (i0 s) (tin s) (tout s) (size s) (blocked s) (signal s) (buf s) (notifs s) (polls s) (pp s) (items s) (cp s) (acc s) x (popped s).
Definition set_popped (s : state) (x : list (option N)) := mkState (cap s) (i0 s) (tin s) (tout s) (size s) (blocked s) (signal s) (buf s) (notifs s) (polls s) (pp s) (items s) (cp s) (acc s) (pushed s) x.

(* ---------- the ring ---------- *)
Fixpoint setN {A} (n : N) (x : A) (l : list A) : list A :=
  match l with
  | [] => []
  | y :: r => if n =? 0 then x :: r else y :: setN (N.pred n) x r
  end.

(* what memcpy() reads from slot pos *)
Definition slot (pos : N) (b : list (option N)) : option N :=
  match nthN pos b with Some x => x | None => None end.

(* ---------- the producer ---------- *)
(* the next push() call, or the end *)
Definition advance (s : state) : state :=
  match items s with
  | [] => set_pp s PDone
  | v :: r => set_items (set_pp s (PPush1 v)) r
  end.

(* push(v) returns r *)
Definition finish_push (s : state) (v : N) (r : bool) : state * list event :=
  (advance (set_pushed s (pushed s ++ [v])), [EvPush v r]).

Definition pstep (s : state) : state * list event :=
  match pp s with
  | PPush1 v =>
      if size s =? cap s then (advance s, [EvFull v])
      else (set_pp (set_tin s (wrap32 (tin s + 1))) (PPush2 v (tin s mod cap s)), [])
  | PPush2 v pos =>
      (set_pp (set_buf_acc s (setN pos (Some v) (buf s)) (acc s ++ [v])) (PPush3 v), [])
  | PPush3 v =>
      let s1 := set_size s (wrap32 (size s + 1)) in
      if size s =? 0 then (set_pp s1 (PPush4 v), []) else finish_push s1 v false
  | PPush4 v =>
      if blocked s then (set_pp s (PPush5 v), []) else finish_push s v false
  | PPush5 v =>
      let s1 := set_signal s true in
      if signal s then finish_push s1 v false
      else (set_pp (set_pushed s1 (pushed s ++ [v])) PNotify, [EvPush v true])
  | PNotify => (advance (set_notifs s (notifs s + 1)), [EvNotify])
  | PDone => (s, [])
  end.

(* ---------- the consumer ---------- *)
Definition pdone (s : state) : bool := match pp s with PDone => true | _ => false end.

Definition cstep (s : state) : state * list event :=
  match cp s with
  | CClr1 => (set_cp (set_blocked s false) CClr2, [])
  | CClr2 => (set_cp (set_signal s false) CPop1, [EvClear])
  | CPop1 => if size s =? 0 then (set_cp s CPop2, []) else (set_cp s CPop4, [])
  | CPop2 => (set_cp (set_blocked s true) CPop3, [])
  | CPop3 => if size s =? 0 then (set_cp s CIdle, [EvEmpty]) else (set_cp s CPop4, [])
  | CPop4 => (set_cp (set_tout (set_blocked s false) (wrap32 (tout s + 1))) (CPop5 (tout s mod cap s)), [])
  | CPop5 pos => (set_cp s (CPop6 (slot pos (buf s))), [])
  | CPop6 v => (set_cp (set_popped (set_size s (wrap32 (size s + (W32 - 1)))) (popped s ++ [v])) CPop1, [EvPop v])
  | CIdle =>
      if 0 <? notifs s then (set_cp (set_notifs s (notifs s - 1)) CClr1, [EvTake])
      else if 0 <? polls s then (set_cp (set_polls s (polls s - 1)) CPop1, [EvPoll])
      else if pdone s then (set_cp s CDone, [EvEnd])
      else (s, [])
  | CDone => (s, [])
  end.

(* ---------- the two processes under a schedule ---------- *)
Definition cdone (s : state) : bool := match cp s with CDone => true | _ => false end.

(* thread 0 = producer, thread 1 = consumer; an entry naming an ended thread (or no thread) is skipped.
   Returns the new state, the events and whether a step was really made. *)
Definition step (s : state) (t : N) : state * list event * bool :=
  if t =? 0 then (if pdone s then (s, [], false) else let '(s', e) := pstep s in (s', e, true))
  else if t =? 1 then (if cdone s then (s, [], false) else let '(s', e) := cstep s in (s', e, true))
  else (s, [], false).

Fixpoint exec (s : state) (sched : list N) : state * list event * N :=
  match sched with
  | [] => (s, [], 0)
  | t :: r =>
      let '(s1, e1, b) := step s t in
      let '(s2, e2, n) := exec s1 r in
      (s2, e1 ++ e2, if b then N.succ n else n)
  end.

Definition init (c i p : N) (its : list N) : state :=
  advance (mkState c i i i 0 false false (repeat None (N.to_nat c)) 0 p PDone its CClr1 [] [] []).

Definition reach (c i p : N) (its : list N) (sched : list N) : state :=
  fst (fst (exec (init c i p its) sched)).

Definition all_done (s : state) : bool := pdone s && cdone s.

(* past the end of the schedule: round-robin 0,1,0,1,.. until both ended; fuel = rounds, None = out of fuel *)
Fixpoint run_rr (fuel : nat) (s : state) : option (state * list event * N) :=
  if all_done s then Some (s, [], 0)
  else match fuel with
       | O => None
       | S f =>
           let '(s1, e1, n1) := exec s [0; 1] in
           match run_rr f s1 with
           | Some (s2, e2, n2) => Some (s2, e1 ++ e2, n1 + n2)
           | None => None
           end
       end.

(* a generous bound on the rounds still needed (see QueueProofs.v: rr_completes) *)
Definition rounds (s : state) : nat := N.to_nat (40 * (lenN (items s) + polls s + notifs s + size s + 3)).

Definition run_case (c i p : N) (its : list N) (sched : list N) : option (state * list event * N) :=
  let '(s1, e1, n1) := exec (init c i p its) sched in
  match run_rr (rounds s1) s1 with
  | Some (s2, e2, n2) => Some (s2, e1 ++ e2, n1 + n2)
  | None => None
  end.

(* ---------- a single-threaded pop loop (the harness's final drain; also the spec's "what is still queued") ---------- *)
(* run the consumer alone until its pop() call returns *)
Fixpoint cpop (fuel : nat) (s : state) : state * option (option N) :=
  match fuel with
  | O => (s, None)
  | S f =>
      let '(s', evs) := cstep s in
      match evs with
      | [EvPop v] => (s', Some v)
      | [EvEmpty] => (s', None)
      | _ => cpop f s'
      end
  end.
Definition pop1 (s : state) : state * option (option N) := cpop 6 (set_cp s CPop1).

Fixpoint drain (n : nat) (s : state) : list (option N) :=
  match n with
  | O => []
  | S k => match pop1 s with
           | (s', Some v) => v :: drain k s'
           | (_, None) => []
           end
  end.
Definition drain_all (s : state) : list (option N) := drain (N.to_nat (cap s + 2)) s.

(* ---------- specification vocabulary ---------- *)
(* the ring position of the j-th accepted item, as the code computes it: (unsigned int)(i0 + j) % theCapacity *)
Definition sidx (c i j : N) : N := wrap32 (i + j) mod c.
Definition slotidx (s : state) (j : N) : N := sidx (cap s) (i0 s) j.

Fixpoint rangeN (from : N) (n : nat) : list N :=
  match n with O => [] | S k => from :: rangeN (N.succ from) k end.

(* the ring contents between the last completed pop and the last copied-in item, oldest first *)
Definition queued (s : state) : list (option N) :=
  map (fun j => slot (slotidx s j) (buf s)) (rangeN (lenN (popped s)) (N.to_nat (lenN (acc s) - lenN (popped s)))).

(* the in-flight push() will answer "notify the reader" whatever happens next, provided the consumer stays idle *)
Definition will_notify (s : state) : bool :=
  match pp s with
  | PNotify => true
  | PPush4 _ => blocked s && negb (signal s)
  | PPush5 _ => negb (signal s)
  | _ => false
  end.

Definition pops_of (evs : list event) : list (option N) :=
  flat_map (fun e => match e with EvPop v => [v] | _ => [] end) evs.
Definition pushes_of (evs : list event) : list N :=
  flat_map (fun e => match e with EvPush v _ => [v] | _ => [] end) evs.
