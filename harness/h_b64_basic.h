// Basic-credential part of the C36 harness: src/auth/basic/Config.cc of the working tree is
// included textually, so decodeCleartext() (private) and decode() are compiled from it.
#ifndef VERIF_H_B64_BASIC_H
#define VERIF_H_B64_BASIC_H
// every standard header first: the access-specifier trick below must not reach libstdc++
#include "hcommon.h"
#include <sstream>
#include <iostream>
#include <fstream>
#include <iomanip>
#include <map>
#include <unordered_map>
#include <set>
#include <list>
#include <vector>
#include <deque>
#include <queue>
#include <stack>
#include <memory>
#include <functional>
#include <algorithm>
#include <optional>
#include <variant>
#include <chrono>
#include <random>
#include <regex>
#include <atomic>
#include <limits>
#include <utility>
#include <tuple>
#include <array>
#include <bitset>
#include <typeinfo>
#include <stdexcept>
#include <iterator>
#define private public
#define protected public
#include "auth/basic/Config.h"
#include "auth/basic/User.h"
#include "auth/basic/UserRequest.h"
#include "auth/User.h"
#include "auth/UserRequest.h"
#undef private
#undef protected
#include "../src/auth/basic/Config.cc"
#include "hcommon.h"

// the four symbols of main.cc (not linked: it has main()) that the rest of the squid objects reference
bool Chrooted = false;
void reconfigure(int) {}
void rotate_logs(int) {}
void shut_down(int) {}

static Auth::Basic::Config *theBasicConfig = nullptr;

static void basicSetup() {
    theBasicConfig = new Auth::Basic::Config;
    theBasicConfig->utf8 = false;
}

static std::string hexOrNull(const char *s) { return s ? tohex(s, strlen(s)) : std::string("null"); }

static std::string runBasic(bool caseSensitive, const std::string &hdr) {
    theBasicConfig->casesensitive = caseSensitive ? 1 : 0;
    // (a) the private helper on its own
    char *ct = theBasicConfig->decodeCleartext(hdr.c_str(), nullptr);
    const std::string cleartext = hexOrNull(ct);
    const bool haveCt = ct != nullptr;
    xfree(ct);
    // (b) the public entry point, which calls the helper and splits user from password
    Auth::UserRequest::Pointer ur = theBasicConfig->decode(hdr.c_str(), nullptr, nullptr);
    Auth::User::Pointer u = ur->user();
    std::string out;
    if (u == nullptr) {
        out = "null";
        if (haveCt) out += " BAD-HELPER-MISMATCH";
        return out;
    }
    auto *bu = dynamic_cast<Auth::Basic::User *>(u.getRaw());
    out = "user=" + hexOrNull(u->username()) + " pass=" + hexOrNull(bu ? bu->passwd : nullptr);
    if (!haveCt) out += " BAD-HELPER-MISMATCH";
    return out + " ct=" + cleartext;
}
#endif
