(* AdversarialProofs.v -- proofs about the bounds-checked decoder models (C39).

   Method: a Hoare-style postcondition [post r Q] that holds when [r] is [Ok a] with [Q a] or [Fail], and is False
   for [OOB] and [NoFuel]; every reader gets a specification under the invariant
       0 <= cursor, 0 <= remaining, cursor + remaining <= received length,
   and the specifications are chained through the message decoders. *)
Require Import SquidV.Bytes SquidV.gen.Adversarial_gen SquidV.gen.Udpbufs_gen SquidV.AdversarialModel.
From Coq Require Import ZArith Lia ZifyBool.
Local Open Scope Z_scope.

(* ------------------------------------------------------------------ postconditions *)
Definition post {A} (r : res A) (Q : A -> Prop) : Prop :=
  match r with Ok a => Q a | Fail => True | OOB => False | NoFuel => False end.

Definition safe {A} (r : res A) : Prop := r <> OOB /\ r <> NoFuel.

Lemma post_safe {A} (r : res A) Q : post r Q -> safe r.
Proof. destruct r; cbn [post]; intros H; split; congruence || contradiction. Qed.

Lemma safe_post {A} (r : res A) : safe r -> post r (fun _ => True).
Proof. destruct r; cbn [post]; intros [H1 H2]; congruence || exact I. Qed.

Lemma post_bind {A B} (r : res A) (f : A -> res B) (P : A -> Prop) (Q : B -> Prop) :
  post r P -> (forall a, P a -> post (f a) Q) -> post (bind r f) Q.
Proof. destruct r; cbn [post bind]; intros H HF; auto. Qed.

Lemma post_mono {A} (r : res A) (P Q : A -> Prop) : post r P -> (forall a, P a -> Q a) -> post r Q.
Proof. destruct r; cbn [post]; auto. Qed.

Lemma post_ok {A} (r : res A) Q a : post r Q -> r = Ok a -> Q a.
Proof. intros H E; subst; exact H. Qed.

(* all bytes of an object are bytes *)
Definition bytes_ok (b : buf) : Prop := forall i, 0 <= bget b i < 256.

Lemma post_rd b i : 0 <= i < bsize b -> post (rd b i) (fun v => v = bget b i).
Proof.
  intros H. unfold rd, in_obj.
  destruct ((0 <=? i) && (i <? bsize b)) eqn:E; cbn [post]; [reflexivity | lia].
Qed.

Lemma post_rd_byte b i : bytes_ok b -> 0 <= i < bsize b -> post (rd b i) (fun v => 0 <= v < 256).
Proof. intros HB H. eapply post_mono; [apply post_rd; exact H|]; cbv beta. intros a ->. apply HB. Qed.

Lemma post_idx cap i : 0 <= i < cap -> post (idx_ok cap i) (fun _ => True).
Proof. intros H. unfold idx_ok. destruct ((0 <=? i) && (i <? cap)) eqn:E; cbn [post]; [exact I | lia]. Qed.

Lemma post_be16 b p : bytes_ok b -> 0 <= p -> p + 1 < bsize b -> post (be16 b p) (fun v => 0 <= v < 65536).
Proof.
  intros HB H0 H1. unfold be16.
  eapply post_bind; [apply post_rd_byte; [exact HB | lia]|]; cbv beta. intros x Hx.
  eapply post_bind; [apply post_rd_byte; [exact HB | lia]|]; cbv beta. intros y Hy.
  cbn [post]. lia.
Qed.

Lemma post_be32 b p : bytes_ok b -> 0 <= p -> p + 3 < bsize b -> post (be32 b p) (fun v => 0 <= v < 4294967296).
Proof.
  intros HB H0 H1. unfold be32.
  eapply post_bind; [apply post_rd_byte; [exact HB | lia]|]; cbv beta. intros x Hx.
  eapply post_bind; [apply post_rd_byte; [exact HB | lia]|]; cbv beta. intros y Hy.
  eapply post_bind; [apply post_rd_byte; [exact HB | lia]|]; cbv beta. intros z Hz.
  eapply post_bind; [apply post_rd_byte; [exact HB | lia]|]; cbv beta. intros w Hw.
  cbn [post]. lia.
Qed.

Lemma post_rd_range b p n : 0 <= p -> p + n <= bsize b -> post (rd_range b p n) (fun _ => True).
Proof.
  intros H0 H1. unfold rd_range. destruct (n <=? 0) eqn:E; [exact I|].
  eapply post_bind; [apply post_rd; lia|]; cbv beta. intros x _.
  eapply post_bind; [apply post_rd; lia|]; cbv beta. intros y _. exact I.
Qed.

Lemma post_rd_bytes b n : forall p, 0 <= p -> p + Z.of_nat n <= bsize b ->
  post (rd_bytes b p n) (fun l => lenZ l = Z.of_nat n).
Proof.
  induction n as [|n IH]; intros p H0 H1; cbn [rd_bytes].
  - reflexivity.
  - eapply post_bind; [apply post_rd; lia|]; cbv beta. intros x _.
    eapply post_bind; [apply IH; lia|]; cbv beta. intros r Hr. cbn [post lenZ]. lia.
Qed.

Lemma post_int_bytes b n : forall p v, 0 <= p -> p + Z.of_nat n <= bsize b ->
  post (int_bytes b p n v) (fun _ => True).
Proof.
  induction n as [|n IH]; intros p v H0 H1; cbn [int_bytes].
  - exact I.
  - eapply post_bind; [apply post_rd; lia|]; cbv beta. intros x _. apply IH; lia.
Qed.

(* strlen stays inside the object when a NUL lies ahead *)
Lemma post_cstrlen_from b fuel : forall p acc q,
  0 <= p -> p <= q < bsize b -> bget b q = 0 -> (Z.of_nat fuel > q - p) ->
  post (cstrlen_from b fuel p acc) (fun n => acc <= n /\ p + (n - acc) <= q).
Proof.
  induction fuel as [|f IH]; intros p acc q H0 Hq Hz Hf; cbn [cstrlen_from].
  - lia.
  - eapply post_bind; [apply post_rd; lia|]; cbv beta. intros x ->.
    destruct (bget b p =? 0) eqn:E.
    + cbn [post]. lia.
    + assert (p <> q) by (intros ->; lia).
      eapply post_mono; [apply (IH (p + 1) (acc + 1) q); lia|]; cbv beta.
      intros n Hn. cbn beta iota in Hn. lia.
Qed.

Lemma post_cstrlen b p q : 0 <= p -> p <= q < bsize b -> bget b q = 0 ->
  post (cstrlen b p) (fun n => 0 <= n /\ p + n <= q).
Proof.
  intros H0 Hq Hz. unfold cstrlen.
  eapply post_mono; [apply (post_cstrlen_from b _ p 0 q); try assumption; lia|]; cbv beta.
  intros n Hn. cbn beta iota in Hn. lia.
Qed.

(* ================================================================== ASN.1 readers *)
Lemma land_127 x : 0 <= Z.land x 127 <= 127.
Proof.
  split; [apply Z.land_nonneg; right; lia|].
  destruct (Z.land x 127 <=? 127) eqn:E; [lia|].
  exfalso.
  assert (H : Z.land x 127 = Z.land (Z.land x 127) 127) by (rewrite <- Z.land_assoc; reflexivity).
  assert (Hn : 0 <= Z.land x 127) by (apply Z.land_nonneg; right; lia).
  assert (Hm : Z.land x 127 = (Z.land x 127) mod 128).
  { change 127 with (Z.ones 7). rewrite Z.land_ones by lia. rewrite Z.mod_mod by lia. reflexivity. }
  pose proof (Z.mod_pos_bound (Z.land x 127) 128). lia.
Qed.

Lemma post_rd_be b n : forall p acc, bytes_ok b -> 0 <= p -> p + Z.of_nat n <= bsize b -> 0 <= acc ->
  post (rd_be b p n acc) (fun v => 0 <= v < (acc + 1) * 256 ^ Z.of_nat n).
Proof.
  induction n as [|n IH]; intros p acc HB H0 H1 Ha; cbn [rd_be].
  - cbn [post]. change (256 ^ Z.of_nat 0) with 1. lia.
  - eapply post_bind; [apply post_rd_byte; [exact HB | lia]|]; cbv beta. intros x Hx.
    eapply post_mono; [apply IH; try assumption; lia|]; cbv beta. intros v Hv.
    assert (Hp : 256 ^ Z.of_nat (S n) = 256 * 256 ^ Z.of_nat n)
      by (rewrite Nat2Z.inj_succ, Z.pow_succ_r by lia; reflexivity).
    assert (Hq : 0 < 256 ^ Z.of_nat n) by (apply Z.pow_pos_nonneg; lia).
    rewrite Hp. nia.
Qed.

Lemma pow256_le n : (n <= 4)%nat -> 256 ^ Z.of_nat n <= 4294967296.
Proof.
  intros H. do 5 (destruct n as [|n]; [vm_compute; congruence|]). lia.
Qed.

(* bytes the length field starting with octet [x] occupies after that octet *)
Definition lenfield_extra (x : Z) : Z := if Z.land x 128 =? 0 then 0 else Z.land x 127.

(* the length field at [p] is read inside [p, hi) when it fits there; the length is a u_int *)
Lemma post_asn_parse_length b p hi :
  bytes_ok b -> 0 <= p -> hi <= bsize b -> p + 1 + lenfield_extra (bget b p) <= hi ->
  post (asn_parse_length b p) (fun '(p', alen) => p < p' <= hi /\ 0 <= alen < 4294967296).
Proof.
  intros HB H0 H1 H2. unfold asn_parse_length. unfold lenfield_extra in H2.
  pose proof (land_127 (bget b p)) as Hn0.
  eapply post_bind; [apply post_rd; destruct (Z.land (bget b p) 128 =? 0); lia|]; cbv beta. intros lb ->.
  pose proof (HB p) as Hlb.
  change asn_long_len with 128. change (255 - 128) with 127.
  destruct (Z.land (bget b p) 128 =? 0) eqn:E1; cbn [negb]; [cbn [post]; lia|].
  destruct (Z.land (bget b p) 127 =? 0) eqn:E2; [exact I|].
  change sizeof_int with 4.
  destruct (4 <? Z.land (bget b p) 127) eqn:E3; [exact I|].
  set (n := Z.land (bget b p) 127) in *.
  eapply post_bind; [apply post_rd_be; [exact HB | lia | rewrite Z2Nat.id by lia; lia | lia]|]; cbv beta.
  intros v Hv. cbn [post].
  assert (Hle : 256 ^ Z.of_nat (Z.to_nat n) <= 4294967296) by (apply pow256_le; lia).
  lia.
Qed.

(* The invariant of all readers: cursor [p], remaining length [dl], inside the received [len] bytes of an object
   that has at least one byte after them. *)
Definition inv (b : buf) (len p dl : Z) : Prop :=
  0 <= p /\ 0 <= dl /\ p + dl <= len /\ len + 1 <= bsize b /\ len < 2147483648.

Lemma u32_small z : 0 <= z < 4294967296 -> u32 z = z.
Proof. intros H. unfold u32. apply Z.mod_small. exact H. Qed.

(* asn_header_fits: when it says yes, identifier octet and length field lie inside the remaining bytes *)
Lemma post_asn_header_fits b len p dl :
  inv b len p dl ->
  post (asn_header_fits b p dl)
       (fun ok => ok = true -> 2 <= dl /\ p + 2 + lenfield_extra (bget b (p + 1)) <= p + dl).
Proof.
  intros (H0 & H1 & H2 & H3 & H4). unfold asn_header_fits, lenfield_extra.
  destruct (dl <? 2) eqn:E; [cbn [post]; discriminate|].
  eapply post_bind; [apply post_rd; lia|]; cbv beta. intros x ->.
  change asn_long_len with 128. change (255 - 128) with 127.
  destruct (Z.land (bget b (p + 1)) 128 =? 0) eqn:E1; cbn [negb post]; intros Hok; lia.
Qed.

(* common prologue of the five readers: guard, identifier octet, length field *)
Lemma post_reader_prologue b len p dl {A} (k : Z -> Z * Z -> res A) (Q : A -> Prop) :
  bytes_ok b -> inv b len p dl ->
  (forall t p' alen, p + 1 < p' <= p + dl -> 0 <= alen < 4294967296 -> post (k t (p', alen)) Q) ->
  post (do fits <- asn_header_fits b p dl; if negb fits then Fail else
        do t <- rd b p; do pa <- asn_parse_length b (p + 1); k t pa) Q.
Proof.
  intros HB HI HK. pose proof HI as (H0 & H1 & H2 & H3 & H4).
  eapply post_bind; [apply (post_asn_header_fits b len); exact HI|]; cbv beta.
  intros fits Hf. destruct fits; cbn [negb]; [|exact I].
  destruct (Hf eq_refl) as [Hd Hx].
  eapply post_bind; [apply post_rd; lia|]; cbv beta. intros t _.
  eapply post_bind; [apply (post_asn_parse_length b (p + 1) (p + dl)); [exact HB | lia | lia | lia]|]; cbv beta.
  intros [p' alen] [Hp Ha]. apply HK; lia.
Qed.

Lemma post_asn_parse_header b len p dl :
  bytes_ok b -> inv b len p dl ->
  post (asn_parse_header b p dl) (fun '(p', dl', t) => inv b len p' dl' /\ p < p' /\ p' + dl' <= p + dl).
Proof.
  intros HB HI. pose proof HI as (H0 & H1 & H2 & H3 & H4). unfold asn_parse_header.
  eapply post_bind; [apply (post_asn_header_fits b len); exact HI|]; cbv beta.
  intros fits Hf. destruct fits; cbn [negb]; [|exact I].
  destruct (Hf eq_refl) as [Hd Hx].
  eapply post_bind; [apply post_rd; lia|]; cbv beta. intros t _.
  destruct (Z.land t asn_extension_id =? asn_extension_id); [exact I|].
  eapply post_bind; [apply (post_asn_parse_length b (p + 1) (p + dl)); [exact HB | lia | lia | lia]|]; cbv beta.
  intros [p' alen] [Hp Ha].
  change asn_max_len with 524288.
  destruct ((u32 dl <? u32 (p' - p + alen)) || (524288 <? alen)) eqn:E; [exact I|].
  apply Bool.orb_false_iff in E. destruct E as [E1 E2].
  rewrite (u32_small dl) in E1 by lia.
  rewrite (u32_small (p' - p + alen)) in E1 by lia.
  cbn [post]. unfold inv. lia.
Qed.

Lemma post_asn_parse_int b len p dl :
  bytes_ok b -> inv b len p dl ->
  post (asn_parse_int b p dl) (fun '(p', dl', t, v) => inv b len p' dl' /\ p < p' /\ p' + dl' <= p + dl).
Proof.
  intros HB HI. pose proof HI as (H0 & H1 & H2 & H3 & H4). unfold asn_parse_int.
  apply (post_reader_prologue b len p dl); [exact HB | exact HI|].
  intros t p' alen Hp Ha.
  destruct (dl <? alen + (p' - p)) eqn:E1; [exact I|].
  change sizeof_int with 4.
  destruct (4 <? alen) eqn:E2; [exact I|].
  eapply post_bind; [apply post_rd; lia|]; cbv beta. intros b0 _.
  eapply post_bind; [apply post_int_bytes; lia|]; cbv beta. intros v _.
  cbn [post]. unfold inv. lia.
Qed.

Lemma post_asn_parse_unsigned_int b len p dl :
  bytes_ok b -> inv b len p dl ->
  post (asn_parse_unsigned_int b p dl) (fun '(p', dl', t, v) => inv b len p' dl' /\ p < p' /\ p' + dl' <= p + dl).
Proof.
  intros HB HI. pose proof HI as (H0 & H1 & H2 & H3 & H4). unfold asn_parse_unsigned_int.
  apply (post_reader_prologue b len p dl); [exact HB | exact HI|].
  intros t p' alen Hp Ha.
  destruct (dl <? alen + (p' - p)) eqn:E1; [exact I|].
  change sizeof_int with 4.
  destruct (4 + 1 <? alen) eqn:E2; [exact I|].
  eapply (post_bind _ _ (fun _ => True)).
  { destruct (alen =? 4 + 1); [|exact I].
    eapply post_bind; [apply post_rd; lia|]; cbv beta. intros x _. exact I. }
  intros bad _. destruct bad; [exact I|].
  eapply post_bind; [apply post_rd; lia|]; cbv beta. intros b0 _.
  eapply post_bind; [apply post_int_bytes; lia|]; cbv beta. intros v _.
  cbn [post]. unfold inv. lia.
Qed.

Lemma post_asn_parse_string keep b len p dl cap dcap :
  bytes_ok b -> inv b len p dl -> 0 <= cap <= dcap -> cap < 4294967296 ->
  post (asn_parse_string keep b p dl cap dcap)
       (fun '(p', dl', t, n, s) => inv b len p' dl' /\ p < p' /\ p' + dl' <= p + dl /\ 0 <= n <= cap /\
                                    (keep = true -> lenZ s = n)).
Proof.
  intros HB HI Hc Hc2. pose proof HI as (H0 & H1 & H2 & H3 & H4). unfold asn_parse_string.
  apply (post_reader_prologue b len p dl); [exact HB | exact HI|].
  intros t p' alen Hp Ha.
  destruct (dl <? alen + (p' - p)) eqn:E1; [exact I|].
  rewrite (u32_small cap) by lia.
  destruct (cap <? alen) eqn:E2; [exact I|].
  eapply (post_bind _ _ (fun _ => True)).
  { destruct (alen =? 0) eqn:E3; [exact I|]. apply post_idx. lia. }
  intros _ _.
  eapply post_bind; [apply post_rd_range; lia|]; cbv beta. intros _ _.
  eapply (post_bind _ _ (fun s => keep = true -> lenZ s = alen)).
  { destruct keep; [|cbn [post]; discriminate].
    eapply post_mono; [apply post_rd_bytes; lia|]; cbv beta. intros l Hl _. rewrite Hl. lia. }
  intros s Hs. cbn [post]. unfold inv. lia.
Qed.

(* sub-identifier loop: consumes at least one byte, never more than [length] *)
Lemma post_objid_sub b len fuel : forall p length sub,
  bytes_ok b -> 0 <= p -> 0 <= length -> p + length <= len -> len < bsize b -> (Z.of_nat fuel > length) ->
  post (objid_sub b fuel p length sub)
       (fun '(p', length', sub') => p < p' /\ 0 <= length' /\ p' + length' = p + length).
Proof.
  induction fuel as [|f IH]; intros p length sub HB H0 Hl H1 H2 Hf; cbn [objid_sub].
  - cbn [post]. lia.
  - destruct (length <=? 0) eqn:E; [exact I|].
    eapply post_bind; [apply post_rd; lia|]; cbv beta. intros x _.
    destruct (negb (Z.land x asn_bit8 =? 0)).
    + eapply post_mono; [apply IH; try assumption; lia|]; cbv beta.
      intros [[p' l'] s'] Hq. lia.
    + cbn [post]. lia.
Qed.

Lemma post_objid_loop b len ocap fuel : forall p length objlen oidx acc,
  bytes_ok b -> 0 <= p -> 0 <= length -> p + length <= len -> len < bsize b -> (Z.of_nat fuel > length) ->
  0 <= oidx <= ocap -> oidx + objlen <= ocap ->
  post (objid_loop b fuel p length objlen oidx ocap acc)
       (fun '(pe, n, acc') => p <= pe <= p + length /\ oidx <= n <= ocap).
Proof.
  induction fuel as [|f IH]; intros p length objlen oidx acc HB H0 Hl H1 H2 Hf Ho Hc; cbn [objid_loop].
  - lia.
  - destruct (0 <? length) eqn:E1; [|cbn [post]; lia].
    destruct (0 <? objlen) eqn:E2; [|cbn [post]; lia].
    eapply post_bind; [apply (post_objid_sub b len); try assumption; lia|]; cbv beta.
    intros [[p' l'] s'] (Hq1 & Hq2 & Hq3).
    destruct (max_subid <? s'); [exact I|].
    eapply post_bind; [apply post_idx; lia|]; cbv beta. intros _ _.
    eapply post_mono; [apply IH; try assumption; lia|]; cbv beta.
    intros [[pe n] acc'] Hq. lia.
Qed.

Lemma post_asn_parse_objid b len p dl objlen ocap :
  bytes_ok b -> inv b len p dl -> 2 <= ocap -> objlen <= ocap ->
  post (asn_parse_objid b p dl objlen ocap)
       (fun '(p', dl', t, ids, n) => inv b len p' dl' /\ p < p' /\ p' + dl' <= p + dl /\ 1 <= n <= ocap).
Proof.
  intros HB HI Hc Ho. pose proof HI as (H0 & H1 & H2 & H3 & H4). unfold asn_parse_objid.
  apply (post_reader_prologue b len p dl); [exact HB | exact HI|].
  intros t p' alen Hp Ha.
  destruct (dl <? alen + (p' - p)) eqn:E1; [exact I|].
  eapply (post_bind _ _ (fun _ => True)).
  { destruct (alen =? 0); [|exact I].
    eapply post_bind; [apply post_idx; lia|]; cbv beta. intros _ _. apply post_idx; lia. }
  intros _ _.
  eapply post_bind; [apply (post_objid_loop b len ocap); try assumption; lia|]; cbv beta.
  intros [[pe n] acc] (Hq1 & Hq2).
  eapply post_bind; [apply post_idx; lia|]; cbv beta. intros _ _.
  eapply post_bind; [apply post_idx; lia|]; cbv beta. intros _ _.
  destruct (match rev acc with [] => 0 | x :: _ => x end =? 43); cbn [post]; unfold inv; lia.
Qed.

(* ================================================================== SNMP message *)
Lemma post_snmp_pdu_decode b len p dl :
  bytes_ok b -> inv b len p dl ->
  post (snmp_pdu_decode b p dl) (fun '(p', dl', _, _, _, _) => inv b len p' dl').
Proof.
  intros HB HI. unfold snmp_pdu_decode.
  eapply post_bind; [apply (post_asn_parse_header b len); assumption|]; cbv beta.
  intros [[p1 d1] cmd] (I1 & _).
  eapply post_bind; [apply (post_asn_parse_int b len); assumption|]; cbv beta.
  intros [[[p2 d2] t2] v2] (I2 & _).
  eapply post_bind; [apply (post_asn_parse_int b len); assumption|]; cbv beta.
  intros [[[p3 d3] t3] v3] (I3 & _).
  eapply post_bind; [apply (post_asn_parse_int b len); assumption|]; cbv beta.
  intros [[[p4 d4] t4] v4] (I4 & _).
  cbn [post]. exact I4.
Qed.

Lemma max_name_len_val : max_name_len = 64. Proof. reflexivity. Qed.

(* one variable: the cursor stays inside the list, the remaining list length strictly decreases *)
Lemma post_varbind_one b len p all :
  bytes_ok b -> inv b len p all ->
  post (varbind_one b p all) (fun '(p', all', _) => inv b len p' all' /\ all' < all).
Proof.
  intros HB HI. unfold varbind_one.
  eapply post_bind; [apply (post_asn_parse_header b len); assumption|]; cbv beta.
  intros [[tmp this] t] (I1 & L1 & M1).
  destruct (negb (t =? asn_seq_con)); [exact I|].
  eapply post_bind; [apply (post_asn_parse_objid b len); [assumption | assumption | rewrite max_name_len_val; lia | lia]|]; cbv beta.
  intros [[[[p2 this2] t2] ids] nl] (I2 & L2 & M2 & N2).
  destruct (negb (t2 =? asn_object_id)); [exact I|].
  eapply post_bind; [apply (post_asn_parse_header b len); assumption|]; cbv beta.
  intros [[p3 d3] vt] (I3 & L3 & M3).
  assert (HA : inv b len p3 (all - (this + (tmp - p))) /\ all - (this + (tmp - p)) < all)
    by (unfold inv in *; lia).
  assert (HB' : forall q dq, inv b len q dq -> q + dq <= p2 + this2 ->
                 inv b len q (all - (this + (tmp - p))) /\ all - (this + (tmp - p)) < all)
    by (intros q dq Hq Hle; unfold inv in *; lia).
  destruct (vt =? asn_integer).
  { eapply post_bind; [apply (post_asn_parse_int b len); assumption|]; cbv beta.
    intros [[[q dq] tq] vq] (Iq & Lq & Mq). cbn [post]. apply (HB' q dq); assumption. }
  destruct (is_in vt [smi_counter32; smi_gauge32; smi_timeticks]).
  { eapply post_bind; [apply (post_asn_parse_unsigned_int b len); assumption|]; cbv beta.
    intros [[[q dq] tq] vq] (Iq & Lq & Mq). cbn [post]. apply (HB' q dq); assumption. }
  destruct (is_in vt [asn_octet_str; smi_ipaddress; smi_opaque]).
  { assert (Hthis2 : 0 <= this2 < 2147483648) by (unfold inv in *; lia).
    replace (if 0 <=? this2 then this2 else 0) with this2 by (destruct (0 <=? this2) eqn:E; lia).
    pose proof (post_asn_parse_string false b len p2 this2 this2 (this2 + 1) HB I2) as HS.
    destruct (asn_parse_string false b p2 this2 this2 (this2 + 1)) as [[[[[q dq] tq] n] s]| | |] eqn:ES.
    - destruct HS as (Iq & Lq & Mq & Nq & _); [lia | lia |].
      eapply post_bind; [apply post_idx; lia|]; cbv beta. intros _ _.
      cbn [post]. apply (HB' q dq); assumption.
    - eapply post_bind; [apply post_idx; lia|]; cbv beta. intros _ _. exact I.
    - apply HS; lia.
    - apply HS; lia. }
  destruct (vt =? asn_object_id).
  { eapply post_bind; [apply (post_asn_parse_objid b len); [assumption | assumption | rewrite max_name_len_val; lia | lia]|]; cbv beta.
    intros [[[[q dq] tq] ids2] n2] (Iq & Lq & Mq & Nq). cbn [post]. apply (HB' q dq); assumption. }
  destruct (is_in vt [asn_null; smi_nosuchinstance; smi_nosuchobject; smi_endofmibview]); [|exact I].
  cbn [post]. apply (HB' p3 d3); [assumption | lia].
Qed.

Lemma post_varbind_loop b len fuel : forall p all acc,
  bytes_ok b -> inv b len p all -> (Z.of_nat fuel > all) ->
  post (varbind_loop b fuel p all acc) (fun _ => True).
Proof.
  induction fuel as [|f IH]; intros p all acc HB HI Hf; cbn [varbind_loop].
  - unfold inv in HI. cbn [post]. lia.
  - destruct (0 <? all) eqn:E; [|exact I].
    eapply post_bind; [apply (post_varbind_one b len); assumption|]; cbv beta.
    intros [[p' all'] v] (I1 & L1).
    apply IH; [assumption | assumption | lia].
Qed.

Lemma post_snmp_var_decode b len p dl :
  bytes_ok b -> inv b len p dl -> post (snmp_var_decode b p dl) (fun _ => True).
Proof.
  intros HB HI. unfold snmp_var_decode.
  eapply post_bind; [apply (post_asn_parse_header b len); assumption|]; cbv beta.
  intros [[p1 d1] t] (I1 & _).
  destruct (negb (t =? asn_seq_con)); [exact I|].
  apply (post_varbind_loop b len); [assumption | assumption |].
  unfold inv in I1. rewrite Nat2Z.inj_succ, Z2Nat.id; lia.
Qed.

(* THE bounds theorem for the SNMP decoder: with one byte after the bytes it is asked to decode (asn_parse_int looks at
   the octet after an empty integer) no reader leaves the object and no loop budget is exhausted *)
Lemma snmp_msg_decode_safe b len :
  bytes_ok b -> 0 <= len -> len + 1 <= bsize b -> len < 2147483648 ->
  safe (snmp_msg_decode b len).
Proof.
  intros HB H0 H1 H2. apply (post_safe _ (fun _ => True)). unfold snmp_msg_decode.
  assert (HI : inv b len 0 len) by (unfold inv; lia).
  eapply post_bind; [apply (post_asn_parse_header b len); assumption|]; cbv beta.
  intros [[p1 d1] t] (I1 & _).
  destruct (negb (t =? asn_seq_con)); [exact I|].
  eapply post_bind; [apply (post_asn_parse_int b len); assumption|]; cbv beta.
  intros [[[p2 d2] t2] ver] (I2 & _).
  eapply post_bind; [apply (post_asn_parse_string true b len); [assumption | assumption | vm_compute; split; congruence | reflexivity]|]; cbv beta.
  intros [[[[p3 d3] t3] clen] comm] (I3 & _ & _ & N3 & _).
  destruct (clen =? snmp_comm_len0) eqn:E; [exact I|].
  eapply post_bind; [apply post_idx; change snmp_comm_cap with 128; change snmp_comm_len0 with 128 in *; lia|]; cbv beta. intros _ _.
  destruct (is_in 0 comm); [exact I|].
  eapply post_bind; [apply (post_snmp_pdu_decode b len); assumption|]; cbv beta.
  intros [[[[[p4 d4] cmd] rq] es] ei] I4.
  eapply post_bind; [apply (post_snmp_var_decode b len); assumption|]; cbv beta.
  intros [p5 vars] _. exact I.
Qed.

(* receive buffers built from byte lists *)
Definition is_byte (x : Z) : Prop := 0 <= x < 256.

Lemma nthZ_byte d : Forall is_byte d -> forall i, 0 <= nthZ d i < 256.
Proof.
  induction 1 as [|x r Hx Hr IH]; intros i; cbn [nthZ]; [lia|].
  destruct (i =? 0); [exact Hx | apply IH].
Qed.

Lemma recv_buf_bytes size stale d len :
  Forall is_byte d -> (forall i, is_byte (stale i)) -> bytes_ok (recv_buf size stale d len).
Proof.
  intros Hd Hs i. cbn [recv_buf bget]. destruct (i <? len); [apply nthZ_byte; exact Hd | apply Hs].
Qed.

Lemma lenZ_nonneg (l : list Z) : 0 <= lenZ l.
Proof. induction l; cbn [lenZ]; lia. Qed.

Lemma snmp_udp_safe size recvmax stale d :
  Forall is_byte d -> (forall i, is_byte (stale i)) ->
  Z.min (lenZ d) recvmax + 1 <= size -> size < 2147483648 ->
  snmp_udp size recvmax stale d <> Got OOB /\ snmp_udp size recvmax stale d <> Got NoFuel.
Proof.
  intros Hd Hs Hl Hsz. unfold snmp_udp.
  destruct (Z.min (lenZ d) recvmax <=? 0) eqn:E; [split; congruence|].
  set (b := recv_buf size _ d _).
  assert (HS : safe (snmp_msg_decode b (Z.min (lenZ d) recvmax))).
  { apply snmp_msg_decode_safe.
    - subst b. apply recv_buf_bytes; [exact Hd|]. destruct snmp_buf_zeroed; [intros i; unfold is_byte; lia | exact Hs].
    - lia.
    - subst b. cbn [recv_buf bsize]. lia.
    - lia. }
  destruct HS as [S1 S2]. split; intros HC; injection HC; intros HC'; [apply S1 | apply S2]; exact HC'.
Qed.

(* ------------------------------------------------------------------ the former over-read witness (regression) *)
(* a well-formed GET of exactly 4095 bytes: one OCTET STRING variable of 4050 bytes followed by the empty variable
   `30 00` in the last two bytes. Before /repo 71f8893 (asn_header_fits) the object identifier of that last variable was
   looked for at offsets 4095, 4096 of the 4096-byte buffer; now the reader refuses it without looking. *)
Definition snmp_witness : list Z :=
  [48; 130; 15; 251; 2; 1; 0; 4; 6; 112; 117; 98; 108; 105; 99; 160; 130; 15; 236; 2; 1; 1; 2; 1; 0; 2; 1; 0;
   48; 130; 15; 223; 48; 130; 15; 217; 6; 1; 43; 4; 130; 15; 210] ++ Z.iter 4050 (cons 65) [48; 0].

Definition is_byteb (x : Z) : bool := (0 <=? x) && (x <? 256).
Lemma Forall_is_byte d : forallb is_byteb d = true -> Forall is_byte d.
Proof.
  induction d as [|x r IH]; cbn [forallb]; intros H; [constructor|].
  apply andb_prop in H. destruct H as [Hx Hr]. constructor; [unfold is_byteb, is_byte in *; lia | apply IH; exact Hr].
Qed.

Lemma snmp_witness_refused stale :
  lenZ snmp_witness = snmp_request_size - snmp_recv_slack /\
  snmp_udp snmp_request_size (snmp_request_size - snmp_recv_slack) stale snmp_witness = Got Fail.
Proof. split; vm_compute; reflexivity. Qed.

(* on an object of exactly the datagram's size the decoder may still look one byte past the end: an INTEGER of length 0
   in the last two bytes (asn_parse_int tests the sign bit of the octet after the length field) *)
Lemma snmp_exact_needs_one_byte :
  snmp_exact [48; 2; 2; 0] = Got OOB.
Proof. vm_compute. reflexivity. Qed.

(* ================================================================== writes *)
Lemma post_wr b i v : 0 <= i < bsize b ->
  post (wr b i v) (fun b' => bsize b' = bsize b /\ forall j, bget b' j = if j =? i then v else bget b j).
Proof.
  intros H. unfold wr, in_obj. destruct ((0 <=? i) && (i <? bsize b)) eqn:E; cbn [post]; [|lia].
  split; [reflexivity | intros j; reflexivity].
Qed.

Lemma bytes_ok_upd b b' i v : bytes_ok b -> 0 <= v < 256 ->
  (forall j, bget b' j = if j =? i then v else bget b j) -> bytes_ok b'.
Proof. intros HB Hv H j. rewrite H. destruct (j =? i); [exact Hv | apply HB]. Qed.

Definition upost {A} (u : udp_out A) (Q : A -> Prop) : Prop := match u with Empty => True | Got r => post r Q end.

Lemma upost_safe {A} (u : udp_out A) Q : upost u Q -> u <> Got OOB /\ u <> Got NoFuel.
Proof.
  destruct u as [|r]; cbn [upost]; [split; congruence|].
  intros H. apply post_safe in H. destruct H as [H1 H2]. split; intros HC; injection HC; auto.
Qed.

(* ================================================================== ICP *)
Ltac icp_consts := unfold icp_hdr_size, icp_off_opcode, icp_off_version, icp_off_length, icp_off_reqnum, icp_off_flags,
  icp_off_pad, icp_sizeof_length, icp_query_prefix, icp_end, icp_invalid, icp_query, icp_hit, icp_miss, icp_err,
  icp_decho, icp_miss_nofetch, icp_denied, icp_version_2, icp_version_3 in *.

Lemma post_icp_header b len :
  bytes_ok b -> 0 <= len -> (icp_hdr_size <= len -> icp_hdr_size <= bsize b) ->
  post (icp_header b len) (fun h => 0 <= i_length h < 65536 /\ 0 <= i_opcode h < 256).
Proof.
  intros HB H0 H1. unfold icp_header.
  destruct (len <? icp_hdr_size) eqn:E.
  - cbn [post i_length i_opcode]. icp_consts. change (2 ^ (8 * 2)) with 65536.
    pose proof (Z.mod_pos_bound (len + 1) 65536). lia.
  - assert (Hs : icp_hdr_size <= bsize b) by (apply H1; lia). icp_consts.
    eapply post_bind; [apply post_rd; lia|]; cbv beta. intros _ _.
    eapply post_bind; [apply post_rd_byte; [exact HB | lia]|]; cbv beta. intros op Hop.
    eapply post_bind; [apply post_rd_byte; [exact HB | lia]|]; cbv beta. intros ver Hver.
    eapply post_bind; [apply post_be16; [exact HB | lia | lia]|]; cbv beta. intros l Hl.
    eapply post_bind; [apply post_be32; [exact HB | lia | lia]|]; cbv beta. intros rq _.
    eapply post_bind; [apply post_be32; [exact HB | lia | lia]|]; cbv beta. intros fl _.
    eapply post_bind; [apply post_be32; [exact HB | lia | lia]|]; cbv beta. intros pd _.
    cbn [post i_length i_opcode]. lia.
Qed.

Definition url_inside (len : Z) (u : option (Z * Z)) : Prop :=
  match u with Some (o, n) => icp_hdr_size <= o /\ 0 <= n /\ o + n + 1 = len | None => True end.

Lemma post_icp_get_url b h :
  0 <= i_length h <= bsize b -> post (icp_get_url b h) (url_inside (i_length h)).
Proof.
  intros Hl. unfold icp_get_url.
  set (uo := icp_hdr_size + (if i_opcode h =? icp_query then icp_query_prefix else 0)).
  assert (Huo : icp_hdr_size <= uo) by (subst uo; destruct (i_opcode h =? icp_query); icp_consts; lia).
  destruct (i_length h <=? uo) eqn:E1; [exact I|].
  assert (H20 : 0 <= icp_hdr_size) by (icp_consts; lia).
  eapply post_bind; [apply post_rd; lia|]; cbv beta. intros last ->.
  destruct (negb (bget b (i_length h - 1) =? 0)) eqn:E2; [exact I|].
  eapply post_bind; [apply (post_cstrlen b uo (i_length h - 1)); lia|]; cbv beta. intros n Hn.
  destruct (uo + n + 1 =? i_length h) eqn:E3; cbn [post url_inside]; [lia | exact I].
Qed.

Definition class_inside (len : Z) (c : icp_class) : Prop :=
  match c with IcpQuery u => url_inside len u | IcpReply u => url_inside len u | _ => True end.

Lemma post_icp_dispatch b len :
  bytes_ok b -> 0 <= len <= bsize b -> post (icp_dispatch b len) (class_inside len).
Proof.
  intros HB Hl. unfold icp_dispatch.
  destruct (len <=? 0) eqn:E0; [exact I|].
  eapply post_bind; [apply post_icp_header; [exact HB | lia | icp_consts; lia]|]; cbv beta.
  intros h (Hh1 & Hh2).
  destruct (negb (len =? i_length h)) eqn:E1; [exact I|].
  assert (Hlen : len = i_length h) by lia.
  eapply post_bind.
  { apply post_idx. unfold icp_get_opcode. destruct (icp_end <? i_opcode h) eqn:E; icp_consts; lia. }
  cbv beta. intros _ _.
  destruct (i_opcode h =? icp_query).
  { eapply post_bind; [apply post_icp_get_url; lia|]; cbv beta. intros u Hu.
    cbn [post class_inside]. rewrite Hlen. exact Hu. }
  destruct (is_in (i_opcode h) [icp_hit; icp_decho; icp_miss; icp_denied; icp_miss_nofetch]) eqn:E2.
  { eapply post_bind.
    { apply post_idx. unfold is_in in E2. cbn [existsb] in E2. icp_consts. lia. }
    cbv beta. intros _ _.
    eapply post_bind; [apply post_icp_get_url; lia|]; cbv beta. intros u Hu.
    cbn [post class_inside]. rewrite Hlen. exact Hu. }
  destruct (is_in (i_opcode h) [icp_invalid; icp_err]); exact I.
Qed.

(* THE bounds theorem for ICP: whatever is received and whatever the static buffer held before, icpHandleUdp and the
   functions it calls stay inside the buffer, and an extracted URL lies inside the received bytes *)
Lemma icp_udp_spec size recvmax stale d :
  Forall is_byte d -> (forall i, is_byte (stale i)) -> 0 <= recvmax < size ->
  upost (icp_udp size recvmax stale d) (class_inside (Z.min (lenZ d) recvmax)).
Proof.
  intros Hd Hs Hr. unfold icp_udp.
  set (len := Z.min (lenZ d) recvmax).
  destruct (len <=? 0) eqn:E0; [exact I|]. cbn [upost].
  set (b0 := recv_buf size stale d len).
  assert (HB0 : bytes_ok b0) by (apply recv_buf_bytes; assumption).
  assert (Hsz : bsize b0 = size) by reflexivity.
  assert (Hlen : 0 < len <= recvmax) by (subst len; lia).
  eapply (post_bind _ _ (fun _ => True)).
  { destruct (icp_hdr_size <=? len) eqn:E; [|exact I].
    eapply post_mono; [apply post_rd; icp_consts; lia|]. intros; exact I. }
  intros _ _.
  eapply (post_bind _ _ (fun b => bytes_ok b /\ bsize b = size)).
  { destruct icp_terminates; [|cbn [post]; auto].
    eapply post_mono; [apply post_wr; lia|]; cbv beta. intros b' (Hb1 & Hb2).
    split; [eapply bytes_ok_upd; [exact HB0 | | exact Hb2]; lia | lia]. }
  intros b (HB & Hbs).
  destruct (len <? icp_hdr_size) eqn:E1; [exact I|].
  eapply post_bind; [apply post_rd; icp_consts; lia|]; cbv beta. intros ver _.
  destruct ((ver =? icp_version_2) || (ver =? icp_version_3)); [|exact I].
  apply post_icp_dispatch; [exact HB | lia].
Qed.

Lemma icp_unit_safe size recvmax stale d :
  Forall is_byte d -> (forall i, is_byte (stale i)) -> 0 <= recvmax < size ->
  safe (icp_unit size recvmax stale d).
Proof.
  intros Hd Hs Hr. apply (post_safe _ (fun _ => True)). unfold icp_unit.
  set (len := Z.min (lenZ d) recvmax).
  pose proof (lenZ_nonneg d) as Hn.
  set (b0 := recv_buf size stale d len).
  assert (HB0 : bytes_ok b0) by (apply recv_buf_bytes; assumption).
  assert (Hsz : bsize b0 = size) by reflexivity.
  eapply post_bind; [apply post_wr; lia|]; cbv beta. intros b (Hb1 & Hb2).
  assert (HB : bytes_ok b) by (eapply bytes_ok_upd; [exact HB0 | | exact Hb2]; lia).
  eapply post_bind; [apply post_icp_header; [exact HB | lia | icp_consts; lia]|]; cbv beta.
  intros h (Hh1 & Hh2).
  destruct ((0 <? len) && (icp_hdr_size <=? len) && (len =? i_length h)) eqn:E; [|exact I].
  eapply post_bind; [apply post_icp_get_url; lia|]; cbv beta. intros u _. exact I.
Qed.

(* ================================================================== HTCP *)
Definition good (size : Z) (s : hst) : Prop := bytes_ok (hb s) /\ bsize (hb s) = size.
(* NUL bytes are never un-written (every write of the unpackers stores 0) *)
Definition ext (s s' : hst) : Prop := forall j, bget (hb s) j = 0 -> bget (hb s') j = 0.
Definition wrange (lo hi : Z) (s : hst) : Prop := Forall (fun i => lo <= i <= hi) (hw s).

Lemma ext_refl s : ext s s. Proof. intros j H; exact H. Qed.
Lemma ext_trans a b c : ext a b -> ext b c -> ext a c. Proof. intros H1 H2 j H; apply H2, H1, H. Qed.

Lemma post_hwr size lo hi s i :
  good size s -> wrange lo hi s -> 0 <= i < size -> lo <= i <= hi ->
  post (hwr s i) (fun s' => good size s' /\ wrange lo hi s' /\ ext s s' /\ bget (hb s') i = 0).
Proof.
  intros (HB & Hs) Hw Hi Hr. unfold hwr.
  eapply post_bind; [apply post_wr; lia|]; cbv beta. intros b' (Hb1 & Hb2).
  unfold good, wrange, ext. cbn [post hb hw]. split; [split | split; [|split]].
  - eapply bytes_ok_upd; [exact HB | | exact Hb2]; lia.
  - lia.
  - constructor; [exact Hr | exact Hw].
  - intros j Hj. rewrite Hb2. destruct (j =? i); [reflexivity | exact Hj].
  - rewrite Hb2. rewrite Z.eqb_refl. reflexivity.
Qed.

Lemma parse_uint16_cases b p sz :
  bytes_ok b -> 0 <= p -> p + sz <= bsize b ->
  parse_uint16 b p sz = Fail \/ exists l, parse_uint16 b p sz = Ok l /\ 0 <= l < 65536 /\ 2 <= sz.
Proof.
  intros HB H0 H1. unfold parse_uint16. destruct (sz <? 2) eqn:E; [left; reflexivity|].
  pose proof (post_be16 b p HB H0) as H. destruct (be16 b p) as [l| | |]; cbn [post] in H.
  - right. exists l. split; [reflexivity | split; [apply H; lia | lia]].
  - left; reflexivity.
  - exfalso. apply H. lia.
  - exfalso. apply H. lia.
Qed.

Definition spec_inside (lo hi : Z) (sp : htcp_spec) : Prop :=
  match sp_lens sp with
  | [ml; ul; vl; hl] =>
    lo <= sp_method sp /\ sp_method sp + ml <= hi /\ lo <= sp_uri sp /\ sp_uri sp + ul <= hi /\
    lo <= sp_version sp /\ sp_version sp + vl <= hi /\ lo <= sp_hdrs sp /\ sp_hdrs sp + hl <= hi /\
    0 <= sp_hdrs_sz sp /\ sp_hdrs sp + sp_hdrs_sz sp <= hi /\ 0 <= ml /\ 0 <= ul /\ 0 <= vl /\ 0 <= hl
  | _ => False
  end.

Definition opt_inside {A} (P : A -> Prop) (o : option A) : Prop := match o with Some a => P a | None => True end.

(* htcpUnpackSpecifier on [p, p+sz) of a buffer with at least one more byte after that range *)
Lemma post_htcp_unpack_specifier size s p sz :
  good size s -> wrange p (p + sz) s -> 0 <= p -> 0 <= sz -> p + sz < size ->
  post (htcp_unpack_specifier s p sz)
       (fun '(s', o) => good size s' /\ wrange p (p + sz) s' /\ ext s s' /\ opt_inside (spec_inside p (p + sz)) o).
Proof.
  intros HG HW H0 Hsz Hlt. unfold htcp_unpack_specifier.
  assert (HR : post (Ok (s, @None htcp_spec))
                 (fun '(s', o) => good size s' /\ wrange p (p + sz) s' /\ ext s s' /\ opt_inside (spec_inside p (p + sz)) o))
    by (cbn [post opt_inside]; split; [exact HG | split; [exact HW | split; [apply ext_refl | exact I]]]).
  destruct HG as (HB & HS).
  destruct (parse_uint16_cases (hb s) p sz HB H0) as [-> | (l1 & -> & Hl1 & Hs1)]; [lia | exact HR |].
  destruct (sz - 2 <? l1) eqn:E1; [exact HR|].
  destruct (parse_uint16_cases (hb s) (p + 2 + l1) (sz - 2 - l1) HB) as [-> | (l2 & -> & Hl2 & Hs2)]; [lia | lia | exact HR |].
  destruct (sz - 2 - l1 - 2 <? l2) eqn:E2; [exact HR|].
  eapply post_bind; [apply (post_hwr size p (p + sz)); [split; assumption | exact HW | lia | lia]|]; cbv beta.
  intros s1 ((HB1 & HS1) & HW1 & X1 & Z1).
  destruct (parse_uint16_cases (hb s1) (p + 2 + l1 + 2 + l2) (sz - 2 - l1 - 2 - l2) HB1) as [E | (l3 & E & Hl3 & Hs3)];
    [lia | lia | rewrite E | rewrite E].
  { cbn [post opt_inside]. split; [split; assumption | split; [assumption | split; [assumption | exact I]]]. }
  destruct (sz - 2 - l1 - 2 - l2 - 2 <? l3) eqn:E3;
    [cbn [post opt_inside]; split; [split; assumption | split; [assumption | split; [assumption | exact I]]]|].
  eapply post_bind; [apply (post_hwr size p (p + sz)); [split; assumption | exact HW1 | lia | lia]|]; cbv beta.
  intros s2 ((HB2 & HS2) & HW2 & X2 & Z2).
  destruct (parse_uint16_cases (hb s2) (p + 2 + l1 + 2 + l2 + 2 + l3) (sz - 2 - l1 - 2 - l2 - 2 - l3) HB2) as [E' | (l4 & E' & Hl4 & Hs4)];
    [lia | lia | rewrite E' | rewrite E'].
  { cbn [post opt_inside]. split; [split; assumption | split; [assumption | split; [eapply ext_trans; eassumption | exact I]]]. }
  destruct (sz - 2 - l1 - 2 - l2 - 2 - l3 - 2 <? l4) eqn:E4.
  { cbn [post opt_inside]. split; [split; assumption | split; [assumption | split; [eapply ext_trans; eassumption | exact I]]]. }
  eapply post_bind; [apply (post_hwr size p (p + sz)); [split; assumption | exact HW2 | lia | lia]|]; cbv beta.
  intros s3 ((HB3 & HS3) & HW3 & X3 & Z3).
  eapply post_bind; [apply (post_hwr size p (p + sz)); [split; assumption | exact HW3 | lia | lia]|]; cbv beta.
  intros s4 ((HB4 & HS4) & HW4 & X4 & Z4).
  (* the four terminators are in place in the final state *)
  assert (T1 : bget (hb s4) (p + 2 + l1) = 0) by (apply X4, X3, X2, Z1).
  assert (T2 : bget (hb s4) (p + 2 + l1 + 2 + l2) = 0) by (apply X4, X3, Z2).
  assert (T3 : bget (hb s4) (p + 2 + l1 + 2 + l2 + 2 + l3) = 0) by (apply X4, Z3).
  eapply post_bind; [apply (post_cstrlen (hb s4) (p + 2) (p + 2 + l1)); [lia | lia | exact T1]|]; cbv beta. intros ml Hml.
  eapply post_bind; [apply (post_cstrlen (hb s4) (p + 2 + l1 + 2) (p + 2 + l1 + 2 + l2)); [lia | lia | exact T2]|]; cbv beta. intros ul Hul.
  eapply post_bind; [apply (post_cstrlen (hb s4) (p + 2 + l1 + 2 + l2 + 2) (p + 2 + l1 + 2 + l2 + 2 + l3)); [lia | lia | exact T3]|]; cbv beta. intros vl Hvl.
  eapply post_bind; [apply (post_cstrlen (hb s4) (p + 2 + l1 + 2 + l2 + 2 + l3 + 2) (p + 2 + l1 + 2 + l2 + 2 + l3 + 2 + l4)); [lia | lia | exact Z4]|]; cbv beta. intros hl Hhl.
  cbn [post opt_inside]. split; [split; assumption | split; [assumption | split]].
  - eapply ext_trans; [exact X1|]. eapply ext_trans; [exact X2|]. eapply ext_trans; eassumption.
  - unfold spec_inside. cbn [sp_lens sp_method sp_uri sp_version sp_hdrs sp_hdrs_sz]. lia.
Qed.

Definition detail_inside (lo hi : Z) (d : htcp_detail) : Prop :=
  match d_lens d with
  | [a; e; c] =>
    lo <= d_resp d /\ d_resp d + a <= hi /\ 0 <= d_resp_sz d /\ d_resp d + d_resp_sz d <= hi /\
    lo <= d_entity d /\ d_entity d + e <= hi /\ 0 <= d_entity_sz d /\ d_entity d + d_entity_sz d <= hi /\
    lo <= d_cache d /\ d_cache d + c <= hi /\ 0 <= d_cache_sz d /\ d_cache d + d_cache_sz d <= hi /\
    0 <= a /\ 0 <= e /\ 0 <= c
  | _ => False
  end.

Lemma post_htcp_unpack_detail size s p sz :
  good size s -> wrange p (p + sz) s -> 0 <= p -> 0 <= sz -> p + sz < size ->
  post (htcp_unpack_detail s p sz)
       (fun '(s', o) => good size s' /\ wrange p (p + sz) s' /\ ext s s' /\ opt_inside (detail_inside p (p + sz)) o).
Proof.
  intros HG HW H0 Hsz Hlt. unfold htcp_unpack_detail.
  assert (HR : post (Ok (s, @None htcp_detail))
                 (fun '(s', o) => good size s' /\ wrange p (p + sz) s' /\ ext s s' /\ opt_inside (detail_inside p (p + sz)) o))
    by (cbn [post opt_inside]; split; [exact HG | split; [exact HW | split; [apply ext_refl | exact I]]]).
  destruct HG as (HB & HS).
  destruct (parse_uint16_cases (hb s) p sz HB H0) as [-> | (l1 & -> & Hl1 & Hs1)]; [lia | exact HR |].
  destruct (sz - 2 <? l1) eqn:E1; [exact HR|].
  destruct (parse_uint16_cases (hb s) (p + 2 + l1) (sz - 2 - l1) HB) as [-> | (l2 & -> & Hl2 & Hs2)]; [lia | lia | exact HR |].
  destruct (sz - 2 - l1 - 2 <? l2) eqn:E2; [exact HR|].
  eapply post_bind; [apply (post_hwr size p (p + sz)); [split; assumption | exact HW | lia | lia]|]; cbv beta.
  intros s1 ((HB1 & HS1) & HW1 & X1 & Z1).
  destruct (parse_uint16_cases (hb s1) (p + 2 + l1 + 2 + l2) (sz - 2 - l1 - 2 - l2) HB1) as [E | (l3 & E & Hl3 & Hs3)];
    [lia | lia | rewrite E | rewrite E].
  { cbn [post opt_inside]. split; [split; assumption | split; [assumption | split; [assumption | exact I]]]. }
  destruct (sz - 2 - l1 - 2 - l2 - 2 <? l3) eqn:E3;
    [cbn [post opt_inside]; split; [split; assumption | split; [assumption | split; [assumption | exact I]]]|].
  eapply post_bind; [apply (post_hwr size p (p + sz)); [split; assumption | exact HW1 | lia | lia]|]; cbv beta.
  intros s2 ((HB2 & HS2) & HW2 & X2 & Z2).
  eapply post_bind; [apply (post_hwr size p (p + sz)); [split; assumption | exact HW2 | lia | lia]|]; cbv beta.
  intros s3 ((HB3 & HS3) & HW3 & X3 & Z3).
  assert (T1 : bget (hb s3) (p + 2 + l1) = 0) by (apply X3, X2, Z1).
  assert (T2 : bget (hb s3) (p + 2 + l1 + 2 + l2) = 0) by (apply X3, Z2).
  eapply post_bind; [apply (post_cstrlen (hb s3) (p + 2) (p + 2 + l1)); [lia | lia | exact T1]|]; cbv beta. intros a Ha.
  eapply post_bind; [apply (post_cstrlen (hb s3) (p + 2 + l1 + 2) (p + 2 + l1 + 2 + l2)); [lia | lia | exact T2]|]; cbv beta. intros e He.
  eapply post_bind; [apply (post_cstrlen (hb s3) (p + 2 + l1 + 2 + l2 + 2) (p + 2 + l1 + 2 + l2 + 2 + l3)); [lia | lia | exact Z3]|]; cbv beta. intros c Hc.
  cbn [post opt_inside]. split; [split; assumption | split; [assumption | split]].
  - eapply ext_trans; [exact X1|]. eapply ext_trans; eassumption.
  - unfold detail_inside. cbn [d_lens d_resp d_resp_sz d_entity d_entity_sz d_cache d_cache_sz]. lia.
Qed.

(* what htcpHandleMsg hands on lies inside the received bytes *)
Definition hclass_inside (len : Z) (c : htcp_class) : Prop :=
  match c with
  | HtcpTstReq sp => opt_inside (spec_inside 0 len) sp
  | HtcpClr (Some sp) => opt_inside (spec_inside 0 len) sp
  | HtcpTstRsp (Some d) => opt_inside (detail_inside 0 len) d
  | _ => True
  end.

Ltac htcp_consts := unfold htcp_hdr_size, htcp_dhdr_size, htcp_dhdr_squid_size, htcp_off_major, htcp_off_minor,
  htcp_op_end, htcp_op_tst, htcp_op_clr, htcp_rr_request, htcp_n_queried in *.

Lemma spec_inside_mono lo hi lo' hi' sp : lo' <= lo -> hi <= hi' -> spec_inside lo hi sp -> spec_inside lo' hi' sp.
Proof. unfold spec_inside. destruct (sp_lens sp) as [|a [|b [|c [|d [|? ?]]]]]; try tauto. lia. Qed.

Lemma detail_inside_mono lo hi lo' hi' d : lo' <= lo -> hi <= hi' -> detail_inside lo hi d -> detail_inside lo' hi' d.
Proof. unfold detail_inside. destruct (d_lens d) as [|a [|b [|c [|? ?]]]]; try tauto. lia. Qed.

Lemma wrange_mono lo hi lo' hi' s : lo' <= lo -> hi <= hi' -> wrange lo hi s -> wrange lo' hi' s.
Proof. unfold wrange. intros H1 H2 H. eapply Forall_impl; [|exact H]. cbv beta. intros; lia. Qed.

Lemma opt_inside_mono {A} (P Q : A -> Prop) o : (forall a, P a -> Q a) -> opt_inside P o -> opt_inside Q o.
Proof. destruct o; cbn [opt_inside]; auto. Qed.

Lemma tbl_nonneg t : forallb (fun y => 0 <=? y) t = true -> forall i, 0 <= tbl t i.
Proof.
  unfold tbl. induction t as [|x r IH]; cbn [forallb nthZ]; intros H i; [lia|].
  apply andb_prop in H. destruct H as [Hx Hr]. destruct (i =? 0); [lia | apply IH; exact Hr].
Qed.

(* THE bounds theorem for HTCP: for a message of [sz] received bytes in a buffer with at least one more byte,
   htcpHandleMsg and the unpackers it calls read and write only inside the buffer -- in fact only inside the received
   bytes and the byte after them -- whatever the sender wrote and whatever queries are outstanding *)
Lemma post_htcp_handle_msg pending size s sz :
  good size s -> hw s = [] -> 0 <= sz < size ->
  post (htcp_handle_msg pending s sz)
       (fun r => good size (hr_state r) /\ wrange 0 sz (hr_state r) /\ hclass_inside sz (hr_class r)).
Proof.
  intros HG HW Hsz. unfold htcp_handle_msg.
  assert (HW0 : forall lo hi, wrange lo hi s) by (intros; unfold wrange; rewrite HW; constructor).
  assert (HD : forall o c, c = HtcpDropped \/ c = HtcpNoOp \/ c = HtcpTstRsp None \/ c = HtcpClr None ->
             post (Ok (mkhres o c s)) (fun r => good size (hr_state r) /\ wrange 0 sz (hr_state r) /\ hclass_inside sz (hr_class r))).
  { intros o c Hc. cbn [post hr_state hr_class]. split; [exact HG | split; [apply HW0|]].
    destruct Hc as [-> | [-> | [-> | ->]]]; exact I. }
  destruct (HG) as (HB & HS).
  destruct ((sz <? 0) || (sz <? htcp_hdr_size)) eqn:E0; [apply HD; auto|].
  htcp_consts.
  eapply post_bind; [apply post_rd; lia|]; cbv beta. intros _ _.
  eapply post_bind; [apply post_be16; [exact HB | lia | lia]|]; cbv beta. intros hlen Hhlen.
  eapply post_bind; [apply post_rd; lia|]; cbv beta. intros major _.
  eapply post_bind; [apply post_rd; lia|]; cbv beta. intros minor _.
  destruct (negb (sz =? hlen)); [apply HD; auto|].
  destruct (negb (major =? 0)); [apply HD; auto|].
  destruct (sz - 4 <? 8) eqn:E1; [apply HD; auto|].
  eapply post_bind.
  { apply post_rd. destruct (minor =? 0); [destruct (8 <=? sz - 4) eqn:E|]; lia. }
  cbv beta. intros _ _.
  eapply post_bind; [apply post_be16; [exact HB | lia | lia]|]; cbv beta. intros dlen Hdlen.
  eapply post_bind; [apply post_rd; lia|]; cbv beta. intros b2 _.
  eapply post_bind; [apply post_rd; lia|]; cbv beta. intros b3 _.
  eapply post_bind; [apply post_be32; [exact HB | lia | lia]|]; cbv beta. intros msg_id Hmsg.
  set (opcode := tbl (if minor =? 0 then htcp_old_opcode else htcp_new_opcode) b2).
  set (f1 := tbl (if minor =? 0 then htcp_old_f1 else htcp_new_f1) b3).
  set (rr := tbl (if minor =? 0 then htcp_old_rr else htcp_new_rr) b3).
  destruct (5 <=? opcode) eqn:E2; [apply HD; auto|].
  assert (Hop : 0 <= opcode).
  { subst opcode. destruct (minor =? 0); apply tbl_nonneg; vm_compute; reflexivity. }
  eapply post_bind; [apply post_idx; lia|]; cbv beta. intros _ _.
  destruct (dlen <? 8) eqn:E3; [apply HD; auto|].
  destruct (sz - 4 <? dlen) eqn:E4; [apply HD; auto|].
  assert (Hspec : forall q qsz, 4 + 8 <= q -> 0 <= qsz -> q + qsz <= sz ->
            post (htcp_unpack_specifier s q qsz)
                 (fun '(s', o) => good size s' /\ wrange 0 sz s' /\ opt_inside (spec_inside 0 sz) o)).
  { intros q qsz Hq1 Hq2 Hq3.
    eapply post_mono; [apply (post_htcp_unpack_specifier size s q qsz); [exact HG | apply HW0 | lia | lia | lia]|].
    intros [s' o] (G1 & W1 & _ & O1). split; [exact G1 | split].
    - eapply wrange_mono; [| |exact W1]; lia.
    - eapply opt_inside_mono; [|exact O1]. intros a. apply spec_inside_mono; lia. }
  assert (Hdet : forall q qsz, 4 + 8 <= q -> 0 <= qsz -> q + qsz <= sz ->
            post (htcp_unpack_detail s q qsz)
                 (fun '(s', o) => good size s' /\ wrange 0 sz s' /\ opt_inside (detail_inside 0 sz) o)).
  { intros q qsz Hq1 Hq2 Hq3.
    eapply post_mono; [apply (post_htcp_unpack_detail size s q qsz); [exact HG | apply HW0 | lia | lia | lia]|].
    intros [s' o] (G1 & W1 & _ & O1). split; [exact G1 | split].
    - eapply wrange_mono; [| |exact W1]; lia.
    - eapply opt_inside_mono; [|exact O1]. intros a. apply detail_inside_mono; lia. }
  destruct (opcode =? 1).
  - destruct (rr =? 0).
    + destruct (dlen - 8 =? 0); [apply HD; auto|].
      destruct (f1 =? 0); [apply HD; auto|].
      eapply post_bind; [apply (Hspec (4 + 8) (dlen - 8)); lia|]; cbv beta.
      intros [s' sp] (G1 & W1 & O1). cbn [post hr_state hr_class hclass_inside]. auto.
    + eapply post_bind.
      { apply post_idx. pose proof (Z.mod_pos_bound msg_id 8192). lia. }
      cbv beta. intros _ _.
      destruct (negb (pending msg_id)); [apply HD; auto|].
      destruct (f1 =? 1); [apply HD; auto|].
      eapply post_bind; [apply (Hdet (4 + 8) (dlen - 8)); lia|]; cbv beta.
      intros [s' d] (G1 & W1 & O1). cbn [post hr_state hr_class hclass_inside]. auto.
  - destruct (opcode =? 4); [|apply HD; auto].
    destruct (dlen - 8 <? 2) eqn:E5; [apply HD; auto|].
    eapply post_bind; [apply post_rd; lia|]; cbv beta. intros _ _.
    eapply post_bind; [apply (Hspec (4 + 8 + 2) (dlen - 8 - 2)); lia|]; cbv beta.
    intros [s' sp] (G1 & W1 & O1). cbn [post hr_state hr_class hclass_inside]. auto.
Qed.

Lemma recv_state_good size stale d len :
  Forall is_byte d -> (forall i, is_byte (stale i)) -> good size (mkhst (recv_buf size stale d len) []).
Proof. intros Hd Hs. split; [apply recv_buf_bytes; assumption | reflexivity]. Qed.

Lemma htcp_udp_spec pending size recvmax stale d :
  Forall is_byte d -> (forall i, is_byte (stale i)) -> 0 <= recvmax < size ->
  post (htcp_udp pending size recvmax stale d)
       (fun r => wrange 0 (Z.min (lenZ d) recvmax) (hr_state r) /\ hclass_inside (Z.min (lenZ d) recvmax) (hr_class r)).
Proof.
  intros Hd Hs Hr. unfold htcp_udp. pose proof (lenZ_nonneg d) as Hn.
  eapply post_mono; [apply (post_htcp_handle_msg pending size); [apply recv_state_good; assumption | reflexivity | lia]|].
  intros r (_ & H2 & H3). exact (conj H2 H3).
Qed.

Lemma htcp_spec_unit_spec size recvmax stale d :
  Forall is_byte d -> (forall i, is_byte (stale i)) -> 0 <= recvmax < size ->
  post (htcp_spec_unit size recvmax stale d)
       (fun '(s, o) => wrange 0 (Z.min (lenZ d) recvmax) s /\ opt_inside (spec_inside 0 (Z.min (lenZ d) recvmax)) o).
Proof.
  intros Hd Hs Hr. unfold htcp_spec_unit. pose proof (lenZ_nonneg d) as Hn.
  eapply post_mono; [apply (post_htcp_unpack_specifier size); [apply recv_state_good; assumption | constructor | lia | lia | lia]|].
  intros [s o] (_ & H2 & _ & H4). exact (conj H2 H4).
Qed.

Lemma htcp_detail_unit_spec size recvmax stale d :
  Forall is_byte d -> (forall i, is_byte (stale i)) -> 0 <= recvmax < size ->
  post (htcp_detail_unit size recvmax stale d)
       (fun '(s, o) => wrange 0 (Z.min (lenZ d) recvmax) s /\ opt_inside (detail_inside 0 (Z.min (lenZ d) recvmax)) o).
Proof.
  intros Hd Hs Hr. unfold htcp_detail_unit. pose proof (lenZ_nonneg d) as Hn.
  eapply post_mono; [apply (post_htcp_unpack_detail size); [apply recv_state_good; assumption | constructor | lia | lia | lia]|].
  intros [s o] (_ & H2 & _ & H4). exact (conj H2 H4).
Qed.

(* ================================================================== statements used by Properties_C39.v *)
Lemma nthZ_nth_error (l : list Z) : forall i, 0 <= i ->
  (i < lenZ l -> nth_error l (Z.to_nat i) = Some (nthZ l i)) /\ (lenZ l <= i -> nth_error l (Z.to_nat i) = None).
Proof.
  induction l as [|x r IH]; intros i Hi; cbn [lenZ nthZ].
  - split; [lia|]. intros _. destruct (Z.to_nat i); reflexivity.
  - pose proof (lenZ_nonneg r) as Hn. destruct (i =? 0) eqn:E0.
    + assert (i = 0) by lia. subst i. split; [reflexivity | lia].
    + replace (Z.to_nat i) with (S (Z.to_nat (i - 1))) by lia. cbn [nth_error].
      destruct (IH (i - 1)) as [I1 I2]; [lia|]. split; intros H; [apply I1 | apply I2]; lia.
Qed.

Lemma rd_list_is_nth_error (l : list Z) (i : Z) :
  rd (buf_of_list l) i = if i <? 0 then OOB else match nth_error l (Z.to_nat i) with Some x => Ok x | None => OOB end.
Proof.
  unfold rd, in_obj, buf_of_list. cbn [bsize bget].
  destruct (Z.ltb_spec i 0) as [Hneg | Hpos].
  - destruct (Z.leb_spec 0 i); [lia | reflexivity].
  - destruct (nthZ_nth_error l i Hpos) as [I1 I2].
    destruct (Z.ltb_spec i (lenZ l)) as [Hin | Hout].
    + rewrite I1 by exact Hin. destruct (Z.leb_spec 0 i); [reflexivity | lia].
    + rewrite I2 by exact Hout. destruct (Z.leb_spec 0 i); reflexivity.
Qed.

Lemma icp_in_bounds stale d :
  Forall is_byte d -> (forall i, is_byte (stale i)) ->
  icp_udp icp_bufsize (icp_bufsize - icp_recv_slack) stale d <> Got OOB /\
  icp_udp icp_bufsize (icp_bufsize - icp_recv_slack) stale d <> Got NoFuel.
Proof.
  intros Hd Hs. eapply upost_safe. apply icp_udp_spec; [exact Hd | exact Hs | vm_compute; split; congruence].
Qed.

Lemma icp_url_inside_datagram stale d c :
  Forall is_byte d -> (forall i, is_byte (stale i)) ->
  icp_udp icp_bufsize (icp_bufsize - icp_recv_slack) stale d = Got (Ok c) ->
  class_inside (Z.min (lenZ d) (icp_bufsize - icp_recv_slack)) c.
Proof.
  intros Hd Hs E.
  pose proof (icp_udp_spec icp_bufsize (icp_bufsize - icp_recv_slack) stale d Hd Hs) as H.
  rewrite E in H. apply H. vm_compute; split; congruence.
Qed.

Lemma htcp_in_bounds pending stale d :
  Forall is_byte d -> (forall i, is_byte (stale i)) ->
  safe (htcp_udp pending htcp_bufsize (htcp_bufsize - htcp_recv_slack) stale d).
Proof.
  intros Hd Hs. eapply post_safe. apply htcp_udp_spec; [exact Hd | exact Hs | vm_compute; split; congruence].
Qed.

Lemma htcp_inside_datagram pending stale d r :
  Forall is_byte d -> (forall i, is_byte (stale i)) ->
  htcp_udp pending htcp_bufsize (htcp_bufsize - htcp_recv_slack) stale d = Ok r ->
  wrange 0 (Z.min (lenZ d) (htcp_bufsize - htcp_recv_slack)) (hr_state r) /\
  hclass_inside (Z.min (lenZ d) (htcp_bufsize - htcp_recv_slack)) (hr_class r).
Proof.
  intros Hd Hs E.
  pose proof (htcp_udp_spec pending htcp_bufsize (htcp_bufsize - htcp_recv_slack) stale d Hd Hs) as H.
  rewrite E in H. apply H. vm_compute; split; congruence.
Qed.

Lemma htcp_unpackers_in_bounds stale d :
  Forall is_byte d -> (forall i, is_byte (stale i)) ->
  safe (htcp_spec_unit htcp_bufsize (htcp_bufsize - htcp_recv_slack) stale d) /\
  safe (htcp_detail_unit htcp_bufsize (htcp_bufsize - htcp_recv_slack) stale d).
Proof.
  intros Hd Hs. split; eapply post_safe;
    [apply htcp_spec_unit_spec | apply htcp_detail_unit_spec]; try assumption; vm_compute; split; congruence.
Qed.

Lemma snmp_in_bounds stale d :
  Forall is_byte d -> (forall i, is_byte (stale i)) ->
  snmp_udp snmp_request_size (snmp_request_size - snmp_recv_slack) stale d <> Got OOB /\
  snmp_udp snmp_request_size (snmp_request_size - snmp_recv_slack) stale d <> Got NoFuel.
Proof.
  intros Hd Hs. apply snmp_udp_safe; [exact Hd | exact Hs | | vm_compute; reflexivity].
  assert (H : snmp_request_size - snmp_recv_slack + 1 <= snmp_request_size) by (vm_compute; congruence).
  lia.
Qed.

Lemma icp_unit_in_bounds stale d :
  Forall is_byte d -> (forall i, is_byte (stale i)) ->
  safe (icp_unit icp_bufsize (icp_bufsize - icp_recv_slack) stale d).
Proof. intros Hd Hs. apply icp_unit_safe; [exact Hd | exact Hs | vm_compute; split; congruence]. Qed.
