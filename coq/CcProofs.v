(* CcProofs.v — proofs about CcModel (C29). *)
Require Import SquidV.Bytes SquidV.HopModel SquidV.HopProofs SquidV.TokModel SquidV.Int64Proofs.
Require Import SquidV.gen.CcNames_gen SquidV.CcModel.
Require Import ZifyBool ZifyN ZifyNat.
Local Open Scope N_scope.

(* ====================================================================== *)
(* Part A. the parse loop is a fold over the (item, tail) pairs of the strListGetItem iteration,
   never runs out of fuel, and the items are HopModel.list_items *)

(* what scan_item consumed *)
Lemma scan_item_split del : forall l q acc it rest,
  scan_item del q l acc = (it, rest) ->
  exists used, l = used ++ rest /\ it = rev acc ++ used.
Proof.
  fix IH 1. intros l q acc it rest H. destruct l as [|c r].
  - cbn in H. injection H as <- <-. exists []. split; [reflexivity| now rewrite app_nil_r].
  - cbn [scan_item] in H. destruct q.
    + destruct (c =? 34) eqn:E34.
      * apply IH in H. destruct H as (u & -> & ->). exists (c :: u). cbn [rev app]. split; [reflexivity| now rewrite <- app_assoc].
      * destruct (c =? 92) eqn:E92.
        -- destruct r as [|d r'].
           ++ injection H as <- <-. exists [c]. cbn [rev app]. split; reflexivity.
           ++ apply IH in H. destruct H as (u & -> & ->). exists (c :: d :: u). cbn [rev app].
              rewrite <- !app_assoc. split; reflexivity.
        -- apply IH in H. destruct H as (u & -> & ->). exists (c :: u). cbn [rev app]. split; [reflexivity| now rewrite <- app_assoc].
    + destruct (c =? 34) eqn:E34.
      * apply IH in H. destruct H as (u & -> & ->). exists (c :: u). cbn [rev app]. split; [reflexivity| now rewrite <- app_assoc].
      * destruct ((c =? del) || (c =? 44)) eqn:Ed.
        -- injection H as <- <-. exists []. split; [reflexivity| now rewrite app_nil_r].
        -- apply IH in H. destruct H as (u & -> & ->). exists (c :: u). cbn [rev app]. split; [reflexivity| now rewrite <- app_assoc].
Qed.

Lemma drop_while_length p l : (length (drop_while p l) <= length l)%nat.
Proof. induction l as [|c r IH]; cbn [drop_while length]; [lia|]. destruct (p c); cbn [length]; lia. Qed.

Lemma rtrim_nil : rtrim [] = [].
Proof. reflexivity. Qed.

(* the (item, tail) pairs *)
Fixpoint cc_pairs (fuel : nat) (l : bytes) : list (bytes * bytes) :=
  match fuel with
  | O => []
  | S f =>
      let l1 := drop_while (is_delim2 44) l in
      let '(raw, rest) := scan_item 44 false l1 [] in
      match rtrim raw with
      | [] => []
      | it => (it, l1) :: cc_pairs f rest
      end
  end.

Definition step_pair (st : cc) (p : bytes * bytes) : cc := cc_step st (fst p) (snd p).

Lemma cc_loop_fold : forall fuel l st, (length l < fuel)%nat ->
  cc_loop fuel l st = Some (fold_left step_pair (cc_pairs fuel l) st).
Proof.
  induction fuel as [|f IH]; intros l st Hlen; [lia|].
  cbn [cc_loop cc_pairs].
  pose proof (drop_while_length (is_delim2 44) l) as Hd.
  destruct (scan_item 44 false (drop_while (is_delim2 44) l) []) as [raw rest] eqn:Es.
  destruct (scan_item_split _ _ _ _ _ _ Es) as (used & Hl1 & Hraw). cbn [rev app] in Hraw. subst used.
  destruct (rtrim raw) as [|i0 it] eqn:Er; [reflexivity|].
  cbn [fold_left]. unfold step_pair at 2. cbn [fst snd].
  apply IH.
  assert (raw <> []) by (intros ->; discriminate).
  apply (f_equal (@length N)) in Hl1. rewrite app_length in Hl1.
  destruct raw; [contradiction|]. cbn [length] in Hl1. lia.
Qed.

Lemma cc_pairs_items : forall fuel l, map fst (cc_pairs fuel l) = items_fuel fuel 44 l.
Proof.
  induction fuel as [|f IH]; intros l; [reflexivity|].
  cbn [cc_pairs items_fuel].
  destruct (scan_item 44 false (drop_while (is_delim2 44) l) []) as [raw rest].
  destruct (rtrim raw) as [|i0 it]; [reflexivity|]. cbn [map fst]. now rewrite IH.
Qed.

Lemma cc_items_items : forall fuel l, cc_items fuel l = items_fuel fuel 44 l.
Proof.
  induction fuel as [|f IH]; intros l; [reflexivity|].
  cbn [cc_items items_fuel].
  destruct (scan_item 44 false (drop_while (is_delim2 44) l) []) as [raw rest].
  destruct (rtrim raw) as [|i0 it]; [reflexivity|]. now rewrite IH.
Qed.

Definition pairs_of (v : bytes) : list (bytes * bytes) := cc_pairs (S (length (c_str v))) (c_str v).

Lemma cc_parse_from_fold st v : cc_parse_from st v = Some (fold_left step_pair (pairs_of v) st).
Proof. unfold cc_parse_from, pairs_of. apply cc_loop_fold. lia. Qed.

Lemma pairs_of_items v : map fst (pairs_of v) = list_items 44 v.
Proof.
  unfold pairs_of, list_items. rewrite cc_pairs_items.
  (* list_items uses fuel S (length v); both fuels exceed the length of c_str v *)
  assert (G : forall f1 f2 l, (length l < f1)%nat -> (length l < f2)%nat -> items_fuel f1 44 l = items_fuel f2 44 l).
  { induction f1 as [|f1 IH]; intros f2 l H1 H2; [lia|]. destruct f2 as [|f2]; [lia|].
    cbn [items_fuel].
    pose proof (drop_while_length (is_delim2 44) l) as Hd.
    destruct (scan_item 44 false (drop_while (is_delim2 44) l) []) as [raw rest] eqn:Es.
    destruct (scan_item_split _ _ _ _ _ _ Es) as (used & Hl1 & Hraw). cbn [rev app] in Hraw. subst used.
    destruct (rtrim raw) as [|i0 it] eqn:Er; [reflexivity|].
    f_equal. assert (raw <> []) by (intros ->; discriminate).
    apply (f_equal (@length N)) in Hl1. rewrite app_length in Hl1.
    destruct raw; [contradiction|]. cbn [length] in Hl1. apply IH; lia. }
  apply G; [lia|].
  unfold c_str. pose proof (span_app (fun c => negb (c =? 0)) v) as Hs.
  apply (f_equal (@length N)) in Hs. rewrite app_length in Hs. lia.
Qed.

(* ====================================================================== *)
(* Part B. shape of the (item, tail) pairs, and locality of the reads past the item *)

Definition no_nul (l : bytes) : Prop := forallb (fun c => negb (c =? 0)) l = true.
Definition ends_nonspace (it : bytes) : Prop := exists b c, it = b ++ [c] /\ is_xspace c = false.
Definition comma_or_end (rest : bytes) : Prop := rest = [] \/ exists r, rest = 44 :: r.

(* tail = it ++ (white space) ++ (end of value | ',' ...) *)
Definition wf_pair (p : bytes * bytes) : Prop :=
  let '(it, tail) := p in
  ends_nonspace it /\ is_delim2 44 (hdz it) = false /\
  exists ws rest, tail = it ++ ws ++ rest /\ forallb is_xspace ws = true /\ comma_or_end rest /\ no_nul tail.

Lemma drop_while_split p l :
  exists a, l = a ++ drop_while p l /\ forallb p a = true /\
            match drop_while p l with [] => True | c :: _ => p c = false end.
Proof.
  induction l as [|c r IH]; cbn [drop_while].
  - exists []. repeat split.
  - destruct (p c) eqn:E.
    + destruct IH as (a & H1 & H2 & H3). exists (c :: a). cbn [app forallb]. rewrite E, H2. split; [now f_equal|]. split; [reflexivity|exact H3].
    + exists []. cbn. rewrite E. repeat split.
Qed.

Lemma forallb_rev {A} (p : A -> bool) l : forallb p (rev l) = forallb p l.
Proof.
  induction l as [|x l IH]; [reflexivity|]. cbn [rev forallb]. rewrite forallb_app, IH. cbn [forallb].
  destruct (p x), (forallb p l); reflexivity.
Qed.

Lemma rtrim_split l :
  exists ws, l = rtrim l ++ ws /\ forallb is_xspace ws = true /\ (rtrim l = [] \/ ends_nonspace (rtrim l)).
Proof.
  unfold rtrim. destruct (drop_while_split is_xspace (rev l)) as (a & H1 & H2 & H3).
  exists (rev a). split.
  - rewrite <- rev_app_distr, <- H1. now rewrite rev_involutive.
  - split; [now rewrite forallb_rev|].
    destruct (drop_while is_xspace (rev l)) as [|c r]; [now left|]. right.
    exists (rev r), c. cbn [rev]. split; [reflexivity|exact H3].
Qed.

Lemma scan_item_rest : forall l q acc it rest,
  scan_item 44 q l acc = (it, rest) -> comma_or_end rest.
Proof.
  fix IH 1. intros l q acc it rest H. destruct l as [|c r].
  - cbn in H. injection H as <- <-. now left.
  - cbn [scan_item] in H. destruct q.
    + destruct (c =? 34); [exact (IH _ _ _ _ _ H)|].
      destruct (c =? 92).
      * destruct r as [|d r']; [injection H as <- <-; now left| exact (IH _ _ _ _ _ H)].
      * exact (IH _ _ _ _ _ H).
    + destruct (c =? 34); [exact (IH _ _ _ _ _ H)|].
      destruct ((c =? 44) || (c =? 44)) eqn:Ed.
      * injection H as <- <-. right. exists r. f_equal. lia.
      * exact (IH _ _ _ _ _ H).
Qed.

Lemma no_nul_app a b : no_nul (a ++ b) <-> no_nul a /\ no_nul b.
Proof. unfold no_nul. rewrite forallb_app, andb_true_iff. tauto. Qed.

Lemma drop_while_head p l : match drop_while p l with [] => True | c :: _ => p c = false end.
Proof. destruct (drop_while_split p l) as (a & _ & _ & H). exact H. Qed.

Lemma cc_pairs_wf : forall fuel l, no_nul l -> Forall wf_pair (cc_pairs fuel l).
Proof.
  induction fuel as [|f IH]; intros l Hn; [constructor|].
  cbn [cc_pairs].
  destruct (drop_while_split (is_delim2 44) l) as (pre & Hl & _ & Hhd).
  set (l1 := drop_while (is_delim2 44) l) in *.
  assert (Hn1 : no_nul l1) by (rewrite Hl in Hn; apply no_nul_app in Hn; tauto).
  destruct (scan_item 44 false l1 []) as [raw rest] eqn:Es.
  destruct (scan_item_split _ _ _ _ _ _ Es) as (used & Hl1 & Hraw). cbn [rev app] in Hraw. subst used.
  pose proof (scan_item_rest _ _ _ _ _ Es) as Hrest.
  destruct (rtrim_split raw) as (ws & Hr & Hws & Hends).
  destruct (rtrim raw) as [|i0 it] eqn:Er; [constructor|].
  constructor.
  - unfold wf_pair. destruct Hends as [Hc|Hends]; [discriminate|].
    split; [exact Hends|]. split.
    { rewrite Hl1, Hr in Hhd. cbn [app hdz] in *. exact Hhd. }
    exists ws, rest. split; [|split; [exact Hws|split; [exact Hrest|exact Hn1]]].
    rewrite Hl1, Hr at 1. now rewrite <- app_assoc.
  - apply IH. rewrite Hl1 in Hn1. apply no_nul_app in Hn1. tauto.
Qed.

Lemma c_str_no_nul v : no_nul (c_str v).
Proof. unfold c_str, no_nul. apply span_all. Qed.

Lemma pairs_of_wf v : Forall wf_pair (pairs_of v).
Proof. apply cc_pairs_wf, c_str_no_nul. Qed.

(* ---- B1: strtol never reads a digit past the item ---- *)
Lemma c_string_no_nul l : no_nul l -> c_string l = l.
Proof.
  unfold no_nul. induction l as [|c r IH]; intros H; [reflexivity|].
  cbn [forallb] in H. apply andb_prop in H. destruct H as [Hc Hr].
  cbn [c_string]. destruct (c =? 0); [discriminate|]. now rewrite IH.
Qed.

Lemma digit_of_10_nondigit c : is_digit c = false -> digit_of 10 c = None.
Proof.
  intros H. unfold digit_of, digit_raw. rewrite H.
  destruct (is_upper c) eqn:Eu; [unfold is_upper in Eu; destruct (Z.of_N c - 55 >=? 10)%Z eqn:E; [reflexivity|lia]|].
  destruct (is_lower c) eqn:El; [unfold is_lower in El; destruct (Z.of_N c - 87 >=? 10)%Z eqn:E; [reflexivity|lia]|].
  reflexivity.
Qed.

Definition nondigit_head (y : bytes) : Prop := match y with [] => True | d :: _ => is_digit d = false end.

Lemma digit_run_app x y : nondigit_head y -> digit_run 10 (x ++ y) = digit_run 10 x.
Proof.
  intros Hy. induction x as [|c r IH]; cbn [app digit_run].
  - destruct y as [|d y']; [reflexivity|]. cbn [digit_run]. now rewrite (digit_of_10_nondigit d Hy).
  - destruct (digit_of 10 c); [now rewrite IH|reflexivity].
Qed.

Lemma xspace_nondigit c : is_xspace c = true -> is_digit c = false.
Proof. unfold is_xspace, is_digit. lia. Qed.

Lemma skip_space_app : forall x y n, (exists c, In c x /\ is_c_space c = false) ->
  skip_space (x ++ y) n = (fst (skip_space x n) ++ y, snd (skip_space x n)) /\ fst (skip_space x n) <> [].
Proof.
  induction x as [|c r IH]; intros y n (d & Hin & Hd); [destruct Hin|].
  cbn [app skip_space]. destruct (is_c_space c) eqn:E.
  - destruct Hin as [->|Hin]; [congruence|]. apply IH. now exists d.
  - cbn [fst snd app]. split; [reflexivity|discriminate].
Qed.

Lemma skip_space_all : forall ws rest n, forallb is_xspace ws = true -> comma_or_end rest ->
  fst (skip_space (ws ++ rest) n) = rest.
Proof.
  induction ws as [|c r IH]; intros rest n Hws Hrest; cbn [app].
  - destruct Hrest as [->|(r & ->)]; reflexivity.
  - cbn [forallb] in Hws. apply andb_prop in Hws. destruct Hws as [Hc Hr]. cbn [skip_space].
    change (is_c_space c) with (is_xspace c). rewrite Hc. now apply IH.
Qed.

Definition after_item (more : bytes) : Prop :=
  exists ws rest, more = ws ++ rest /\ forallb is_xspace ws = true /\ comma_or_end rest.

Lemma after_item_nondigit more : after_item more -> nondigit_head more.
Proof.
  intros (ws & rest & -> & Hws & Hrest). destruct ws as [|c r]; cbn [app].
  - destruct Hrest as [->|(r & ->)]; [exact I|reflexivity].
  - cbn [forallb] in Hws. apply andb_prop in Hws. apply xspace_nondigit. tauto.
Qed.

Lemma strtoll10_local arg more :
  no_nul (arg ++ more) -> (arg = [] \/ ends_nonspace arg) -> after_item more ->
  strtoll10 (arg ++ more) = strtoll10 arg.
Proof.
  intros Hn Harg Hmore.
  pose proof (after_item_nondigit more Hmore) as Hnd.
  assert (Hna : no_nul arg) by (apply no_nul_app in Hn; tauto).
  unfold strtoll10. rewrite (c_string_no_nul _ Hn), (c_string_no_nul _ Hna).
  destruct Harg as [->|(b & c & -> & Hc)].
  - cbn [app skip_space]. destruct Hmore as (ws & rest & -> & Hws & Hrest).
    pose proof (skip_space_all ws rest 0 Hws Hrest) as Hs.
    destruct (skip_space (ws ++ rest) 0) as [l1 n1]. cbn [fst] in Hs. subst l1.
    destruct Hrest as [->|(r & ->)]; reflexivity.
  - destruct (skip_space_app (b ++ [c]) more 0) as [Hs Hne].
    { exists c. split; [apply in_or_app; right; now left| exact Hc]. }
    rewrite Hs. destruct (skip_space (b ++ [c]) 0) as [l1 n1]. cbn [fst snd] in *.
    destruct l1 as [|h t]; [contradiction|]. cbn [app].
    assert (G : forall t0 k, (let ds := digit_run 10 (t0 ++ more) in
                match ds with [] => (0%Z, 0, false) | _ => k ds end) =
               (let ds := digit_run 10 t0 in match ds with [] => (0%Z, 0, false) | _ => k ds end)).
    { intros t0 k. cbn zeta. now rewrite (digit_run_app t0 more Hnd). }
    destruct h as [|p]; [cbn zeta; now rewrite (digit_run_app (0 :: t) more Hnd)|].
    destruct (Pos.eq_dec p 45) as [->|N45].
    { cbn zeta. now rewrite (digit_run_app t more Hnd). }
    destruct (Pos.eq_dec p 43) as [->|N43].
    { cbn zeta. now rewrite (digit_run_app t more Hnd). }
    assert (E : forall (X : Type) (a b c0 : X),
               match Npos p with 45 => a | 43 => b | _ => c0 end = c0).
    { intros X a0 b0 c0. destruct p as [p|p|]; try reflexivity;
      repeat (destruct p as [p|p|]; try reflexivity); congruence. }
    change ((N.pos p :: t) ++ more) with (N.pos p :: (t ++ more)).
    cbn zeta.
    replace (match N.pos p :: t ++ more with
             | 45 :: r => (true, r, N.succ n1) | 43 :: r => (false, r, N.succ n1)
             | _ => (false, N.pos p :: t ++ more, n1) end) with (false, N.pos p :: t ++ more, n1)
      by (destruct p as [p|p|]; try reflexivity; repeat (destruct p as [p|p|]; try reflexivity); congruence).
    replace (match N.pos p :: t with
             | 45 :: r => (true, r, N.succ n1) | 43 :: r => (false, r, N.succ n1)
             | _ => (false, N.pos p :: t, n1) end) with (false, N.pos p :: t, n1)
      by (destruct p as [p|p|]; try reflexivity; repeat (destruct p as [p|p|]; try reflexivity); congruence).
    change (N.pos p :: t ++ more) with ((N.pos p :: t) ++ more).
    now rewrite (digit_run_app (N.pos p :: t) more Hnd).
Qed.

Lemma parse_int_local arg more :
  no_nul (arg ++ more) -> (arg = [] \/ ends_nonspace arg) -> after_item more ->
  parse_int (arg ++ more) = parse_int arg.
Proof.
  intros Hn Harg Hmore. unfold parse_int.
  rewrite (strtoll10_local arg more Hn Harg Hmore).
  assert (Hna : no_nul arg) by (apply no_nul_app in Hn; tauto).
  rewrite (c_string_no_nul _ Hn), (c_string_no_nul _ Hna).
  destruct arg as [|a0 ar]; [|reflexivity].
  cbn [app]. destruct (strtoll10 []) as [[v n] e] eqn:Es. cbn in Es. injection Es as <- <- <-.
  cbn. destruct more as [|m0 mr]; [reflexivity|].
  pose proof (after_item_nondigit _ Hmore) as Hnd. cbn in Hnd. now rewrite Hnd.
Qed.
