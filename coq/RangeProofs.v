(* RangeProofs.v — proofs for C28 (Range header parsing and canonicalisation). *)
Require Import SquidV.Bytes SquidV.TokModel SquidV.HopModel SquidV.HopProofs SquidV.RangeModel.
Require Import ZifyBool ZifyN.
Local Open Scope Z_scope.

(* ================= specification side ================= *)
(* a requested byte-range-spec *)
Inductive rspec := RSuffix (n : Z) | RFrom (a : Z) | RRange (a b : Z).

Definition dec_value (ds : bytes) : Z := fold_left (fun a c => a * 10 + (Z.of_N c - 48)) ds 0.
(* 1*DIGIT whose value fits int64_t *)
Definition pos_value (ds : bytes) : option Z :=
  match ds with
  | [] => None
  | _ => if forallb is_digit ds && (dec_value ds <=? int64_max) then Some (dec_value ds) else None
  end.

(* byte-range-spec = first-byte-pos "-" [last-byte-pos] (last >= first); suffix-byte-range-spec = "-" suffix-length *)
Definition spec_of_text (el : bytes) : option rspec :=
  match el with
  | [] => None
  | c :: r =>
      if (c =? 45)%N then match pos_value r with Some n => Some (RSuffix n) | None => None end
      else
        let '(a, rest) := span (fun c => negb (c =? 45)%N) el in
        match rest with
        | [] => None
        | _ :: b =>
            match pos_value a with
            | None => None
            | Some x =>
                match b with
                | [] => Some (RFrom x)
                | _ => match pos_value b with
                       | Some y => if y <? x then None else Some (RRange x y)
                       | None => None
                       end
                end
            end
        end
  end.

(* the bytes of a clen-byte representation a spec selects *)
Definition wants (clen : Z) (s : rspec) (p : Z) : Prop :=
  0 <= p < clen /\
  match s with
  | RSuffix n => clen - n <= p
  | RFrom a => a <= p
  | RRange a b => a <= p <= b
  end.

(* Squid's in-memory form of a parsed spec: (offset, length), -1 = unknown *)
Definition repr (s : rspec) : Z * Z :=
  match s with
  | RSuffix n => (-1, n)
  | RFrom a => (a, -1)
  | RRange a b => if b <? int64_max then (a, b + 1 - a) else (a, -1)
  end.

Fixpoint all_some {A} (l : list (option A)) : option (list A) :=
  match l with
  | [] => Some []
  | None :: _ => None
  | Some x :: r => match all_some r with Some xs => Some (x :: xs) | None => None end
  end.

(* list syntax: comma separated, elements trimmed of Squid's white space, empty elements skipped *)
Definition trim_x (l : bytes) : bytes := rev (drop_while is_xspace (rev (drop_while is_xspace l))).
Definition elements (l : bytes) : list bytes := filter nonempty (map trim_x (split_on 44 l [])).

(* the specs a Range header value requests; None = the header is to be ignored *)
Definition header_specs (value : bytes) : option (list rspec) :=
  let s := c_str value in
  if ci_eqb (takeN 6 s) bytes_eq then
    match all_some (map spec_of_text (elements (dropN 6 s))) with
    | Some (x :: l) => Some (x :: l)
    | _ => None
    end
  else None.

(* ================= decimal digits and strtoll ================= *)
Lemma digit_of_10 c : digit_of 10 c = if is_digit c then Some (Z.of_N c - 48) else None.
Proof.
  unfold digit_of, digit_raw, is_upper, is_lower.
  destruct (is_digit c) eqn:Ed.
  - unfold is_digit in Ed. destruct (Z.of_N c - 48 >=? 10) eqn:E; [lia|reflexivity].
  - unfold is_digit in Ed.
    destruct ((65 <=? c)%N && (c <=? 90)%N) eqn:E1.
    { destruct (Z.of_N c - 55 >=? 10) eqn:E; [reflexivity|lia]. }
    destruct ((97 <=? c)%N && (c <=? 122)%N) eqn:E2.
    { destruct (Z.of_N c - 87 >=? 10) eqn:E; [reflexivity|lia]. }
    reflexivity.
Qed.

Definition dval (c : N) : Z := Z.of_N c - 48.

Lemma digit_run_span l : digit_run 10 l = map dval (fst (span is_digit l)).
Proof.
  induction l as [|c r IH]; cbn [digit_run span]; [reflexivity|].
  rewrite digit_of_10. destruct (is_digit c); [|reflexivity].
  destruct (span is_digit r) as [a b]. cbn [fst map] in *. now rewrite IH.
Qed.

Lemma digits_value_map ds acc :
  digits_value 10 (map dval ds) acc = fold_left (fun a c => a * 10 + (Z.of_N c - 48)) ds acc.
Proof.
  revert acc. induction ds as [|c ds IH]; intros acc; [reflexivity|].
  cbn [map]. unfold digits_value in *. cbn [fold_left]. apply IH.
Qed.

Lemma lenN_map {A B} (f : A -> B) l : lenN (map f l) = lenN l.
Proof. induction l as [|x l IH]; cbn [map lenN]; [reflexivity| now rewrite IH]. Qed.

Lemma dec_value_nonneg_acc ds : forall a, 0 <= a -> forallb is_digit ds = true ->
  0 <= fold_left (fun a c => a * 10 + (Z.of_N c - 48)) ds a.
Proof.
  induction ds as [|c ds IH]; intros a Ha Hd; cbn [fold_left]; [exact Ha|].
  cbn [forallb] in Hd. apply andb_prop in Hd as [Hc Hd]. apply IH; [|exact Hd].
  unfold is_digit in Hc. lia.
Qed.
Lemma dec_value_nonneg ds : forallb is_digit ds = true -> 0 <= dec_value ds.
Proof. apply dec_value_nonneg_acc. lia. Qed.

Lemma sign_split (l1 : bytes) (n1 : N) :
  (match l1 with
   | 45%N :: r => (true, r, N.succ n1)
   | 43%N :: r => (false, r, N.succ n1)
   | _ => (false, l1, n1)
   end) =
  match l1 with
  | c :: r => if (c =? 45)%N then (true, r, N.succ n1)
              else if (c =? 43)%N then (false, r, N.succ n1) else (false, l1, n1)
  | [] => (false, l1, n1)
  end.
Proof.
  destruct l1 as [|c r]; [reflexivity|]. destruct c as [|p]; [reflexivity|].
  do 7 (try (destruct p as [p|p|])); reflexivity.
Qed.

(* what follows a byte position in the C string never starts with a digit *)
Definition stops (tail : bytes) : Prop := match tail with [] => True | c :: _ => is_digit c = false end.

Lemma c_string_digits s tail : forallb is_digit s = true -> c_string (s ++ tail) = s ++ c_string tail.
Proof.
  induction s as [|c s IH]; intros H; cbn [app c_string]; [reflexivity|].
  cbn [forallb] in H. apply andb_prop in H as [Hc Hs].
  assert ((c =? 0)%N = false) as -> by (unfold is_digit in Hc; lia). now rewrite (IH Hs).
Qed.

Lemma stops_c_string tail : stops tail -> stops (c_string tail).
Proof.
  destruct tail as [|c r]; cbn [c_string stops]; [trivial|]. intros H. destruct (c =? 0)%N; [exact I|exact H].
Qed.

Lemma span_digits_app s tail : forallb is_digit s = true -> stops tail -> span is_digit (s ++ tail) = (s, tail).
Proof.
  intros Hs Ht. induction s as [|c s IH]; cbn [app span].
  - destruct tail as [|x r]; [reflexivity|]. cbn [span]. cbn [stops] in Ht. now rewrite Ht.
  - cbn [forallb] in Hs. apply andb_prop in Hs as [Hc Hs]. now rewrite Hc, (IH Hs).
Qed.

(* httpHeaderParseOffset on 1*DIGIT followed by a non-digit *)
Lemma parse_offset_digits s tail : s <> [] -> forallb is_digit s = true -> stops tail ->
  parse_offset (s ++ tail) = if dec_value s >? two63 - 1 then None else Some (dec_value s, lenN s).
Proof.
  intros Hne Hd Ht. unfold parse_offset, strtoll10. rewrite (c_string_digits s tail Hd).
  destruct s as [|c r]; [congruence|].
  pose proof Hd as Hd'. cbn [forallb] in Hd'. apply andb_prop in Hd' as [Hc Hr].
  assert (Hsp : is_c_space c = false) by (unfold is_digit in Hc; unfold is_c_space; lia).
  set (l := (c :: r) ++ c_string tail).
  assert (Hsk : skip_space l 0%N = (l, 0%N)) by (unfold l; cbn [app skip_space]; now rewrite Hsp).
  rewrite Hsk, sign_split. unfold l. cbn [app].
  assert ((c =? 45)%N = false) as -> by (unfold is_digit in Hc; lia).
  assert ((c =? 43)%N = false) as -> by (unfold is_digit in Hc; lia).
  rewrite digit_run_span.
  change (c :: r ++ c_string tail) with ((c :: r) ++ c_string tail).
  rewrite (span_digits_app (c :: r) (c_string tail) Hd (stops_c_string tail Ht)). cbn [fst].
  change (map dval (c :: r)) with (dval c :: map dval r).
  change (dval c :: map dval r) with (map dval (c :: r)).
  rewrite digits_value_map, lenN_map. fold (dec_value (c :: r)). rewrite N.add_0_l. cbn [map].
  destruct (dec_value (c :: r) >? two63 - 1) eqn:E; [reflexivity|].
  destruct (lenN (c :: r) =? 0)%N eqn:En; [cbn [lenN] in En; lia|reflexivity].
Qed.

(* ParseBytePos *)
Lemma parse_byte_pos_spec s tail : stops tail -> parse_byte_pos s tail = pos_value s.
Proof.
  intros Ht. unfold parse_byte_pos, pos_value. destruct s as [|c r]; [reflexivity|].
  destruct (forallb is_digit (c :: r)) eqn:Hd; [|reflexivity].
  rewrite (parse_offset_digits (c :: r) tail ltac:(discriminate) Hd Ht).
  unfold int64_max. cbn [andb].
  destruct (dec_value (c :: r) >? two63 - 1) eqn:E1; destruct (dec_value (c :: r) <=? two63 - 1) eqn:E2; try lia; [reflexivity|].
  now rewrite N.eqb_refl.
Qed.

Lemma pos_value_range ds v : pos_value ds = Some v -> 0 <= v <= int64_max /\ forallb is_digit ds = true /\ ds <> [].
Proof.
  unfold pos_value. destruct ds as [|c r]; [discriminate|].
  destruct (forallb is_digit (c :: r)) eqn:Hd; [|discriminate]. cbn [andb].
  destruct (dec_value (c :: r) <=? int64_max) eqn:E; [|discriminate]. intros [= <-].
  pose proof (dec_value_nonneg _ Hd). repeat split; try lia; discriminate.
Qed.

(* ================= HttpHdrRangeSpec::parseInit ================= *)
Lemma wrap64_small x : - two63 <= x <= int64_max -> wrap64 x = x.
Proof. unfold wrap64, int64_max, two63, two64. intros H. rewrite Z.mod_small by lia. lia. Qed.

Lemma rng_size_i64_ok s e : 0 <= s -> s < e -> e <= int64_max -> rng_size_i64 (s, e) = (e - s, false).
Proof.
  intros Hs Hse He. unfold rng_size_i64, rng_size, sub64, to_u64, u64_to_i64, fits64. cbn [fst snd].
  destruct (e >? s) eqn:E; [|lia].
  rewrite (wrap64_small (e - s)) by (unfold int64_max, two63 in *; lia).
  rewrite Z.mod_small by (unfold int64_max, two63, two64 in *; lia).
  rewrite (wrap64_small (e - s)) by (unfold int64_max, two63 in *; lia).
  f_equal. unfold int64_max, two63 in *. lia.
Qed.

Lemma rng_size_i64_empty s e : e <= s -> rng_size_i64 (s, e) = (0, false).
Proof.
  intros H. unfold rng_size_i64, rng_size. cbn [fst snd]. destruct (e >? s) eqn:E; [lia|]. reflexivity.
Qed.

Lemma span_nodash_digits a : forallb is_digit a = true -> forallb (fun c => negb (c =? 45)%N) a = true.
Proof.
  intros H. apply forallb_forall. intros c Hc. rewrite forallb_forall in H. specialize (H c Hc).
  unfold is_digit in H. lia.
Qed.

Theorem spec_parse_spec field :
  spec_parse field = (match spec_of_text field with Some s => Some (repr s) | None => None end, false).
Proof.
  unfold spec_parse, spec_of_text.
  destruct field as [|c r]; [reflexivity|].
  destruct (lenN (c :: r) <? 2)%N eqn:Elen.
  { (* one character: neither "-" nor a digit string is a spec *)
    destruct r as [|d r']; [|cbn [lenN] in Elen; lia].
    destruct (c =? 45)%N eqn:E45; [reflexivity|].
    cbn [span]. rewrite E45. reflexivity. }
  destruct (c =? 45)%N eqn:E45.
  - apply N.eqb_eq in E45. subst c.
    rewrite (parse_byte_pos_spec r [] I).
    destruct (pos_value r) as [n|] eqn:En; [|reflexivity].
    apply pos_value_range in En. unfold known_spec, unknown_pos.
    destruct (n >? -1) eqn:E; [reflexivity|lia].
  - destruct (span (fun c0 => negb (c0 =? 45)%N) (c :: r)) as [a rest] eqn:Esp.
    destruct rest as [|d b]; [reflexivity|].
    assert (Hd : d = 45%N).
    { pose proof (span_stop (fun c0 => negb (c0 =? 45)%N) (c :: r)) as Hs. rewrite Esp in Hs. cbn [snd] in Hs. lia. }
    subst d.
    rewrite (parse_byte_pos_spec a (45%N :: b) ltac:(reflexivity)).
    destruct (pos_value a) as [x|] eqn:Ea; [|reflexivity].
    apply pos_value_range in Ea. destruct Ea as (Hx & _ & _). unfold known_spec, unknown_pos.
    destruct (x >? -1) eqn:Ex; [|lia]. cbn [negb].
    destruct b as [|e b']; [reflexivity|].
    rewrite (parse_byte_pos_spec (e :: b') [] I).
    destruct (pos_value (e :: b')) as [y|] eqn:Eb; [|reflexivity].
    apply pos_value_range in Eb. destruct Eb as (Hy & _ & _).
    destruct (y >? -1) eqn:Ey; [|lia]. cbn [negb].
    destruct (y <? x) eqn:Eyx; [reflexivity|].
    unfold repr. destruct (y <? int64_max) eqn:Emax; [|reflexivity].
    unfold add64, fits64. rewrite (wrap64_small (y + 1)) by (unfold int64_max, two63 in *; lia).
    rewrite (rng_size_i64_ok x (y + 1)) by lia.
    f_equal. unfold int64_max, two63 in *. lia.
Qed.

(* ================= strListGetItem on text without DQUOTE = comma split + trim ================= *)
Definition noq (l : bytes) : bool := forallb (fun c => negb (c =? 34)%N) l.

Lemma delim2_all c : is_delim2 44 c = is_xspace c || (c =? 44)%N.
Proof. unfold is_delim2, is_xspace. lia. Qed.

Lemma scan_noq l acc :
  noq l = true ->
  scan_item 44 false l acc =
  (rev acc ++ fst (span (fun c => negb (c =? 44)%N) l), snd (span (fun c => negb (c =? 44)%N) l)).
Proof.
  revert acc. induction l as [|c r IH]; intros acc Hs; cbn [scan_item span].
  - cbn. now rewrite app_nil_r.
  - cbn [noq forallb] in Hs. apply andb_prop in Hs. destruct Hs as [Hc Hr].
    destruct (c =? 34)%N eqn:E34; [cbn in Hc; discriminate|].
    replace ((c =? 44)%N || (c =? 44)%N) with (c =? 44)%N by (destruct (c =? 44)%N; reflexivity).
    destruct (c =? 44)%N eqn:E44; cbn [negb].
    + cbn. now rewrite app_nil_r.
    + rewrite IH by exact Hr. destruct (span _ r) as [a b]. cbn [fst snd rev].
      now rewrite <- app_assoc.
Qed.

Lemma noq_app a b : noq (a ++ b) = noq a && noq b.
Proof. unfold noq. apply forallb_app. Qed.
Lemma noq_span_fst p l : noq l = true -> noq (fst (span p l)) = true.
Proof. intros H. rewrite (span_parts p l), noq_app in H. now apply andb_prop in H. Qed.
Lemma noq_span_snd p l : noq l = true -> noq (snd (span p l)) = true.
Proof. intros H. rewrite (span_parts p l), noq_app in H. now apply andb_prop in H. Qed.
Lemma noq_drop p l : noq l = true -> noq (drop_while p l) = true.
Proof.
  induction l as [|c r IH]; intros H; cbn [drop_while]; [reflexivity|].
  destruct (p c); [|exact H]. apply IH. cbn [noq forallb] in H. now apply andb_prop in H.
Qed.

Lemma elements_drop1 c r : (is_xspace c || (c =? 44)%N) = true -> elements (c :: r) = elements r.
Proof.
  intros H. unfold elements. cbn [split_on].
  destruct (c =? 44)%N eqn:E.
  - cbn [rev map filter]. unfold trim_x at 1. cbn. reflexivity.
  - cbn [orb] in H. rewrite orb_false_r in H.
    rewrite (split_on_acc 44 r [c]). destruct (split_on 44 r []) as [|a t] eqn:Es; [reflexivity|].
    cbn [rev app map]. f_equal. f_equal.
    unfold trim_x. cbn [drop_while]. now rewrite H.
Qed.

Lemma elements_drop l : elements (drop_while (is_delim2 44) l) = elements l.
Proof.
  induction l as [|c r IH]; cbn [drop_while]; [reflexivity|].
  destruct (is_delim2 44 c) eqn:E; [|reflexivity].
  rewrite IH. symmetry. apply elements_drop1. now rewrite <- delim2_all.
Qed.

Lemma trim_first_nonx c a :
  is_xspace c = false -> trim_x (c :: a) = rev (drop_while is_xspace (rev (c :: a))).
Proof. intros H. unfold trim_x. cbn [drop_while]. now rewrite H. Qed.

Lemma rtrim_keeps_head c a : is_xspace c = false -> rev (drop_while is_xspace (rev (c :: a))) <> [].
Proof.
  intros H Hn. assert (E : drop_while is_xspace (rev (c :: a)) = []) by (now rewrite <- (rev_involutive (drop_while _ _)), Hn).
  cbn [rev] in E.
  assert (G : forall l, drop_while is_xspace (l ++ [c]) <> []).
  { induction l as [|x l IH]; cbn [app drop_while]; [now rewrite H|]. destruct (is_xspace x); [exact IH|discriminate]. }
  exact (G _ E).
Qed.

Lemma drop_while_len p (l : bytes) : (length (drop_while p l) <= length l)%nat.
Proof. induction l as [|c r IHl]; cbn [drop_while length]; [lia|]. destruct (p c); cbn [length]; lia. Qed.

Lemma drop_while_head p (l : bytes) : match drop_while p l with [] => True | c :: _ => p c = false end.
Proof. induction l as [|c r IHl]; cbn [drop_while]; [exact I|]. destruct (p c) eqn:E; [exact IHl|exact E]. Qed.

Lemma items_step_x f l :
  noq l = true -> (length l <= f)%nat ->
  items_fuel (S f) 44 l = elements l.
Proof.
  revert l. induction f as [|f IH]; intros l Hs Hlen.
  - destruct l; [|cbn in Hlen; lia]. reflexivity.
  - rewrite items_fuel_S. cbn zeta.
    rewrite <- (elements_drop l).
    pose proof (noq_drop (is_delim2 44) l Hs) as Hs1.
    pose proof (drop_while_len (is_delim2 44) l) as Hl1.
    pose proof (drop_while_head (is_delim2 44) l) as Hhead.
    set (l1 := drop_while (is_delim2 44) l) in *. clearbody l1.
    rewrite (scan_noq l1 [] Hs1). cbn [rev app].
    destruct l1 as [|c r].
    { reflexivity. }
    pose proof (span_parts (fun c => negb (c =? 44)%N) (c :: r)) as Hparts.
    pose proof (span_fst_all (fun c => negb (c =? 44)%N) (c :: r)) as Hall.
    pose proof (span_stop (fun c => negb (c =? 44)%N) (c :: r)) as Hstop.
    pose proof (noq_span_snd (fun c => negb (c =? 44)%N) (c :: r) Hs1) as Hsb.
    assert (Hc44 : (c =? 44)%N = false /\ is_xspace c = false).
    { rewrite (delim2_all c) in Hhead. destruct (is_xspace c); destruct (c =? 44)%N; cbn in Hhead; try discriminate; tauto. }
    destruct Hc44 as [Hc44 Hcx].
    cbn [span] in *. rewrite Hc44 in *. cbn [negb] in *.
    destruct (span (fun c0 => negb (c0 =? 44)%N) r) as [a b] eqn:Esp. cbn [fst snd] in *.
    unfold rtrim.
    destruct (rev (drop_while is_xspace (rev (c :: a)))) as [|i0 it] eqn:Eit.
    { exfalso. exact (rtrim_keeps_head c a Hcx Eit). }
    assert (Hlenb : (length b <= f)%nat).
    { apply (f_equal (@length N)) in Hparts. cbn [length] in Hparts. rewrite app_length in Hparts. cbn [length] in *. lia. }
    rewrite (IH b Hsb Hlenb).
    rewrite Hparts. destruct b as [|k b'].
    + rewrite app_nil_r. unfold elements. rewrite (split_no_comma (c :: a) Hall). cbn [map].
      rewrite (trim_first_nonx c a Hcx), Eit. cbn [filter nonempty]. reflexivity.
    + assert (Hk : k = 44%N) by (destruct (k =? 44)%N eqn:Ek; [lia|discriminate]). subst k.
      rewrite (elements_drop1 44%N b' ltac:(reflexivity)).
      change (elements ((c :: a) ++ 44%N :: b')) with
        (filter nonempty (map trim_x (split_on 44 ((c :: a) ++ 44%N :: b') []))).
      rewrite (split_on_app_comma (c :: a) b' Hall). cbn [map].
      rewrite (trim_first_nonx c a Hcx), Eit. cbn [filter nonempty]. reflexivity.
Qed.

Definition nonul (l : bytes) : bool := forallb (fun c => negb (c =? 0)%N) l.

Lemma c_str_nonul l : nonul l = true -> c_str l = l.
Proof.
  unfold c_str. intros H. assert (E : span (fun c => negb (c =? 0)%N) l = (l, [])).
  { induction l as [|c r IH]; cbn [span]; [reflexivity|]. cbn [nonul forallb] in H. apply andb_prop in H as [Hc Hr].
    now rewrite Hc, (IH Hr). }
  now rewrite E.
Qed.

Lemma c_str_is_nonul l : nonul (c_str l) = true.
Proof. unfold c_str, nonul. apply span_all. Qed.

Lemma nonul_dropN n l : nonul l = true -> nonul (dropN n l) = true.
Proof.
  revert n. induction l as [|c r IH]; intros n H; cbn [dropN]; [reflexivity|].
  destruct (n =? 0)%N; [exact H|]. apply IH. cbn [nonul forallb] in H. now apply andb_prop in H.
Qed.

Theorem list_items_noq l : nonul l = true -> noq l = true -> list_items 44 l = elements l.
Proof.
  intros Hz Hq. unfold list_items. rewrite (c_str_nonul l Hz). apply items_step_x; [exact Hq|lia].
Qed.

(* ================= text with a DQUOTE: some item / element contains it ================= *)
Lemma scan_props n : forall l q acc, (length l <= n)%nat ->
  fst (scan_item 44 q l acc) ++ snd (scan_item 44 q l acc) = rev acc ++ l /\
  (length (snd (scan_item 44 q l acc)) <= length l)%nat.
Proof.
  induction n as [|n IH]; intros l q acc Hlen.
  - destruct l; [|cbn in Hlen; lia]. cbn. split; [reflexivity|lia].
  - destruct l as [|c r]; [cbn; split; [reflexivity|lia]|].
    cbn [length] in Hlen. assert (Hr : (length r <= n)%nat) by lia.
    cbn [scan_item]. destruct q.
    + destruct (c =? 34)%N.
      { destruct (IH r false (c :: acc) Hr) as [H1 H2]. rewrite H1. cbn [rev length]. rewrite <- app_assoc. split; [reflexivity|lia]. }
      destruct (c =? 92)%N.
      { destruct r as [|d r'].
        - cbn [fst snd rev app length]. rewrite app_nil_r. split; [reflexivity|lia].
        - cbn [length] in Hr. destruct (IH r' true (d :: c :: acc) ltac:(lia)) as [H1 H2]. rewrite H1.
          cbn [rev length]. rewrite <- !app_assoc. split; [reflexivity|lia]. }
      destruct (IH r true (c :: acc) Hr) as [H1 H2]. rewrite H1. cbn [rev length]. rewrite <- app_assoc. split; [reflexivity|lia].
    + destruct (c =? 34)%N.
      { destruct (IH r true (c :: acc) Hr) as [H1 H2]. rewrite H1. cbn [rev length]. rewrite <- app_assoc. split; [reflexivity|lia]. }
      destruct ((c =? 44)%N || (c =? 44)%N).
      { cbn [fst snd length]. split; [reflexivity|lia]. }
      destruct (IH r false (c :: acc) Hr) as [H1 H2]. rewrite H1. cbn [rev length]. rewrite <- app_assoc. split; [reflexivity|lia].
Qed.

Lemma scan_first c r : (c =? 44)%N = false ->
  (length (snd (scan_item 44 false (c :: r) [])) <= length r)%nat.
Proof.
  intros H. cbn [scan_item]. rewrite H. cbn [orb].
  destruct (c =? 34)%N; apply (scan_props (length r)); lia.
Qed.

Lemma drop_while_keeps (p : N -> bool) x m : In x m -> p x = false -> In x (drop_while p m).
Proof.
  induction m as [|y m IH]; intros Hin Hp; [contradiction|]. cbn [drop_while].
  destruct (p y) eqn:E; [|exact Hin]. destruct Hin as [<-|Hin]; [congruence|]. now apply IH.
Qed.

Lemma rtrim_keeps x l : In x l -> is_xspace x = false -> In x (rtrim l).
Proof.
  intros Hin Hp. unfold rtrim. apply (proj1 (in_rev _ x)). apply drop_while_keeps; [|exact Hp].
  apply (proj1 (in_rev _ x)). exact Hin.
Qed.

Lemma trim_x_keeps x l : In x l -> is_xspace x = false -> In x (trim_x l).
Proof.
  intros Hin Hp. unfold trim_x. apply (proj1 (in_rev _ x)). apply drop_while_keeps; [|exact Hp].
  apply (proj1 (in_rev _ x)). now apply drop_while_keeps.
Qed.

Lemma items_quote f : forall l, In 34%N l -> (length l <= f)%nat ->
  exists it, In it (items_fuel (S f) 44 l) /\ In 34%N it.
Proof.
  induction f as [|f IH]; intros l Hin Hlen.
  { destruct l; [contradiction|cbn in Hlen; lia]. }
  rewrite items_fuel_S. cbn zeta.
  pose proof (drop_while_keeps (is_delim2 44) 34%N l Hin eq_refl) as Hin1.
  pose proof (drop_while_len (is_delim2 44) l) as Hl1.
  pose proof (drop_while_head (is_delim2 44) l) as Hhead.
  set (l1 := drop_while (is_delim2 44) l) in *. clearbody l1.
  destruct l1 as [|c r]; [contradiction|].
  rewrite (delim2_all c) in Hhead. apply orb_false_elim in Hhead as [Hcx Hc44].
  pose proof (scan_props (length (c :: r)) (c :: r) false [] ltac:(lia)) as [Happ _].
  pose proof (scan_first c r Hc44) as Hrest.
  destruct (scan_item 44 false (c :: r) []) as [item rest]. cbn [fst snd rev app] in *.
  assert (Hitem : exists item', item = c :: item').
  { destruct item as [|i0 item'].
    - cbn [app] in Happ. subst rest. cbn [length] in Hrest. lia.
    - cbn [app] in Happ. injection Happ as -> _. now exists item'. }
  destruct Hitem as (item' & ->).
  unfold rtrim. destruct (rev (drop_while is_xspace (rev (c :: item')))) as [|i0 it] eqn:Eit.
  { exfalso. exact (rtrim_keeps_head c item' Hcx Eit). }
  rewrite <- Happ in Hin1. apply in_app_or in Hin1. destruct Hin1 as [Hi|Hr].
  - exists (i0 :: it). split; [now left|]. rewrite <- Eit. apply (rtrim_keeps 34%N (c :: item') Hi eq_refl).
  - cbn [length] in Hlen, Hl1. destruct (IH rest Hr ltac:(lia)) as (x & Hx & Hq).
    exists x. split; [now right|exact Hq].
Qed.

Lemma split_on_in d x : forall l cur, In x (rev cur ++ l) -> x <> d ->
  exists piece, In piece (split_on d l cur) /\ In x piece.
Proof.
  induction l as [|c r IH]; intros cur Hin Hd; cbn [split_on].
  - rewrite app_nil_r in Hin. exists (rev cur). split; [now left|exact Hin].
  - destruct (c =? d)%N eqn:E.
    + apply N.eqb_eq in E. subst c. apply in_app_or in Hin. destruct Hin as [Hc|[Hx|Hr]].
      * exists (rev cur). split; [now left|exact Hc].
      * congruence.
      * destruct (IH [] Hr Hd) as (pc & Hp & Hxp). exists pc. split; [now right|exact Hxp].
    + apply IH; [|exact Hd]. cbn [rev]. rewrite <- app_assoc. exact Hin.
Qed.

Lemma elements_quote l : In 34%N l -> exists el, In el (elements l) /\ In 34%N el.
Proof.
  intros Hin. destruct (split_on_in 44%N 34%N l [] Hin ltac:(discriminate)) as (pc & Hp & Hx).
  exists (trim_x pc). pose proof (trim_x_keeps 34%N pc Hx eq_refl) as Hk. split; [|exact Hk].
  unfold elements. apply filter_In. split; [now apply in_map|].
  destruct (trim_x pc); [contradiction|reflexivity].
Qed.

Lemma pos_value_bad x ds : In x ds -> is_digit x = false -> pos_value ds = None.
Proof.
  intros Hin Hd. unfold pos_value. destruct ds as [|c r]; [reflexivity|].
  assert (forallb is_digit (c :: r) = false) as ->; [|reflexivity].
  destruct (forallb is_digit (c :: r)) eqn:E; [|reflexivity]. rewrite forallb_forall in E. rewrite (E x Hin) in Hd. discriminate.
Qed.

Lemma spec_of_text_quote el : In 34%N el -> spec_of_text el = None.
Proof.
  intros Hin. unfold spec_of_text. destruct el as [|c r]; [reflexivity|].
  destruct (c =? 45)%N eqn:E45.
  - destruct Hin as [Hc|Hr]; [subst c; discriminate|]. now rewrite (pos_value_bad 34%N r Hr eq_refl).
  - pose proof (span_app (fun c0 => negb (c0 =? 45)%N) (c :: r)) as Happ.
    pose proof (span_stop (fun c0 => negb (c0 =? 45)%N) (c :: r)) as Hstop.
    destruct (span (fun c0 => negb (c0 =? 45)%N) (c :: r)) as [a rest]. cbn [fst snd] in *.
    destruct rest as [|d b]; [reflexivity|].
    rewrite <- Happ in Hin. apply in_app_or in Hin. destruct Hin as [Ha|Hb].
    + now rewrite (pos_value_bad 34%N a Ha eq_refl).
    + destruct Hb as [Hd|Hb]; [subst d; discriminate|].
      destruct (pos_value a); [|reflexivity]. destruct b as [|e b']; [contradiction|].
      now rewrite (pos_value_bad 34%N (e :: b') Hb eq_refl).
Qed.

Lemma all_some_none {A B} (f : A -> option B) l x : In x l -> f x = None -> all_some (map f l) = None.
Proof.
  induction l as [|y l IH]; intros Hin Hf; [contradiction|]. cbn [map all_some].
  destruct Hin as [->|Hin]; [now rewrite Hf|]. destruct (f y); [|reflexivity]. now rewrite (IH Hin Hf).
Qed.

Lemma noq_or_quote l : noq l = true \/ In 34%N l.
Proof.
  induction l as [|c r IH]; [now left|]. cbn [noq forallb]. destruct (c =? 34)%N eqn:E.
  - right. left. apply N.eqb_eq in E. now subst.
  - destruct IH as [H|H]; [left; exact H|right; now right].
Qed.

(* whatever the text, Squid's item loop and the comma split agree on validity and on the specs *)
Theorem items_vs_elements l : nonul l = true ->
  all_some (map spec_of_text (list_items 44 l)) = all_some (map spec_of_text (elements l)).
Proof.
  intros Hz. destruct (noq_or_quote l) as [Hq|Hq].
  - now rewrite (list_items_noq l Hz Hq).
  - assert (H1 : all_some (map spec_of_text (list_items 44 l)) = None).
    { unfold list_items. rewrite (c_str_nonul l Hz).
      destruct (items_quote (length l) l Hq ltac:(lia)) as (it & Hin & H34).
      exact (all_some_none spec_of_text _ it Hin (spec_of_text_quote it H34)). }
    destruct (elements_quote l Hq) as (el & Hin & H34).
    now rewrite H1, (all_some_none spec_of_text _ el Hin (spec_of_text_quote el H34)).
Qed.

(* ================= HttpHdrRange::parseInit ================= *)
Lemma parse_items_spec items : forall acc,
  parse_items items acc false =
  (match all_some (map spec_of_text items) with Some l => rev acc ++ map repr l | None => [] end, false).
Proof.
  induction items as [|it r IH]; intros acc; cbn [parse_items map all_some].
  - now rewrite app_nil_r.
  - rewrite (spec_parse_spec it). destruct (spec_of_text it) as [s|]; [|reflexivity].
    cbn [orb]. rewrite IH. destruct (all_some (map spec_of_text r)) as [l|]; [|reflexivity].
    cbn [rev map]. now rewrite <- app_assoc.
Qed.

Theorem range_parse_spec value :
  range_parse value = (match header_specs value with Some l => Some (map repr l) | None => None end, false).
Proof.
  unfold range_parse, header_specs.
  pose proof (c_str_is_nonul value) as Hz. set (s := c_str value) in *. clearbody s.
  destruct s as [|c0 s']; [reflexivity|].
  destruct (ci_eqb (takeN 6 (c0 :: s')) bytes_eq); [|reflexivity]. cbn [negb].
  rewrite parse_items_spec. cbn [rev app].
  rewrite (items_vs_elements _ (nonul_dropN 6 _ Hz)).
  destruct (all_some (map spec_of_text (elements (dropN 6 (c0 :: s'))))) as [[|x l]|]; reflexivity.
Qed.

(* ================= canonize ================= *)
Definition valid_spec (s : rspec) : Prop :=
  match s with
  | RSuffix n => 0 <= n <= int64_max
  | RFrom a => 0 <= a <= int64_max
  | RRange a b => 0 <= a <= b /\ b <= int64_max
  end.

Lemma spec_of_text_valid el s : spec_of_text el = Some s -> valid_spec s.
Proof.
  unfold spec_of_text. destruct el as [|c r]; [discriminate|].
  destruct (c =? 45)%N.
  - destruct (pos_value r) as [n|] eqn:E; [|discriminate]. intros [= <-]. apply pos_value_range in E. cbn [valid_spec]. lia.
  - destruct (span _ (c :: r)) as [a rest]. destruct rest as [|d b]; [discriminate|].
    destruct (pos_value a) as [x|] eqn:Ea; [|discriminate]. apply pos_value_range in Ea.
    destruct b as [|e b']; [intros [= <-]; cbn [valid_spec]; lia|].
    destruct (pos_value (e :: b')) as [y|] eqn:Eb; [|discriminate]. apply pos_value_range in Eb.
    destruct (y <? x) eqn:E; [discriminate|]. intros [= <-]. cbn [valid_spec]. lia.
Qed.

Lemma add64_ok a b : - two63 <= a + b <= int64_max -> add64 a b = (a + b, false).
Proof. intros H. unfold add64, fits64. rewrite (wrap64_small _ H). f_equal. unfold int64_max in *. lia. Qed.
Lemma sub64_ok a b : - two63 <= a - b <= int64_max -> sub64 a b = (a - b, false).
Proof. intros H. unfold sub64, fits64. rewrite (wrap64_small _ H). f_equal. unfold int64_max in *. lia. Qed.

Lemma rng_size_i64_gen s e : 0 <= s -> e <= int64_max ->
  rng_size_i64 (s, e) = (if e >? s then e - s else 0, false).
Proof.
  intros Hs He. destruct (e >? s) eqn:E; [apply rng_size_i64_ok; lia|apply rng_size_i64_empty; lia].
Qed.

Definition in_canon (c : Z * Z) (p : Z) : Prop := fst c <= p < fst c + snd c.

(* one spec: canonize keeps it iff it selects a byte, and then the canonical range is exactly its byte set *)
Theorem spec_canonize_spec clen s : valid_spec s -> -1 <= clen <= int64_max ->
  let '(c, good, ub) := spec_canonize clen (repr s) in
  ub = false /\
  (good = true -> 0 <= fst c /\ 0 < snd c /\ fst c + snd c <= clen /\ forall p, in_canon c p <-> wants clen s p) /\
  (good = false -> forall p, ~ wants clen s p).
Proof.
  intros Hv Hc. unfold spec_canonize, in_canon, wants.
  assert (H63 : two63 = 9223372036854775808) by reflexivity.
  destruct s as [n|a|a b]; cbn [valid_spec] in Hv; cbn [repr].
  - (* suffix *)
    change (known_spec (-1)) with false. cbn [negb].
    rewrite (sub64_ok clen n) by (unfold int64_max in *; lia).
    unfold rng_intersection. cbn [fst snd].
    assert (Hk : known_spec n = true) by (unfold known_spec, unknown_pos; lia). rewrite Hk.
    assert (Hk2 : known_spec (Z.max 0 (clen - n)) = true) by (unfold known_spec, unknown_pos; lia). rewrite Hk2.
    rewrite (add64_ok (Z.max 0 (clen - n)) n) by (unfold int64_max in *; lia).
    rewrite rng_size_i64_gen by (unfold int64_max in *; lia). cbn [negb orb fst snd].
    split; [reflexivity|].
    destruct (Z.min clen (Z.max 0 (clen - n) + n) >? Z.max 0 (Z.max 0 (clen - n))) eqn:E.
    + split; [|intros Hg; exfalso; lia]. intros _. repeat split; try lia.
    + split; [intros Hg; exfalso; lia|]. intros _ p. lia.
  - (* first-byte-pos only *)
    assert (Hk : known_spec a = true) by (unfold known_spec, unknown_pos; lia). rewrite Hk.
    change (known_spec (-1)) with false. cbn [negb].
    unfold rng_intersection. cbn [fst snd].
    rewrite rng_size_i64_gen by (unfold int64_max in *; lia).
    set (l1 := if Z.min clen clen >? Z.max 0 a then Z.min clen clen - Z.max 0 a else 0).
    assert (Hl1 : 0 <= l1 /\ a + l1 <= int64_max) by (unfold l1, int64_max in *; destruct (Z.min clen clen >? Z.max 0 a) eqn:E; lia).
    assert (Hk1 : known_spec l1 = true) by (unfold known_spec, unknown_pos; lia). rewrite Hk1, Hk.
    rewrite (add64_ok a l1) by (unfold int64_max in *; lia).
    rewrite rng_size_i64_gen by (unfold int64_max in *; lia). cbn [negb orb fst snd].
    split; [reflexivity|]. unfold l1.
    destruct (Z.min clen clen >? Z.max 0 a) eqn:E1;
      destruct (Z.min clen (a + _) >? Z.max 0 a) eqn:E2.
    + split; [|intros Hg; exfalso; lia]. intros _. repeat split; try lia.
    + split; [intros Hg; exfalso; lia|]. intros _ p. lia.
    + split; [|intros Hg; exfalso; lia]. intros _. repeat split; try lia.
    + split; [intros Hg; exfalso; lia|]. intros _ p. lia.
  - (* first-last *)
    destruct (b <? int64_max) eqn:Eb.
    + assert (Hk : known_spec a = true) by (unfold known_spec, unknown_pos; lia). rewrite Hk.
      assert (Hk1 : known_spec (b + 1 - a) = true) by (unfold known_spec, unknown_pos; lia). rewrite Hk1.
      cbn [negb]. rewrite Hk1, Hk.
      rewrite (add64_ok a (b + 1 - a)) by (unfold int64_max in *; lia).
      unfold rng_intersection. cbn [fst snd].
      rewrite rng_size_i64_gen by (unfold int64_max in *; lia). cbn [negb orb fst snd].
      split; [reflexivity|].
      destruct (Z.min clen (a + (b + 1 - a)) >? Z.max 0 a) eqn:E.
      * split; [|intros Hg; exfalso; lia]. intros _. repeat split; try lia.
      * split; [intros Hg; exfalso; lia|]. intros _ p. lia.
    + (* last-byte-pos = INT64_MAX: kept open-ended *)
      assert (Hb : b = int64_max) by lia.
      assert (Hk : known_spec a = true) by (unfold known_spec, unknown_pos; lia). rewrite Hk.
      change (known_spec (-1)) with false. cbn [negb].
      unfold rng_intersection. cbn [fst snd].
      rewrite rng_size_i64_gen by (unfold int64_max in *; lia).
      set (l1 := if Z.min clen clen >? Z.max 0 a then Z.min clen clen - Z.max 0 a else 0).
      assert (Hl1 : 0 <= l1 /\ a + l1 <= int64_max) by (unfold l1, int64_max in *; destruct (Z.min clen clen >? Z.max 0 a) eqn:E; lia).
      assert (Hk1 : known_spec l1 = true) by (unfold known_spec, unknown_pos; lia). rewrite Hk1, Hk.
      rewrite (add64_ok a l1) by (unfold int64_max in *; lia).
      rewrite rng_size_i64_gen by (unfold int64_max in *; lia). cbn [negb orb fst snd].
      split; [reflexivity|]. unfold l1.
      destruct (Z.min clen clen >? Z.max 0 a) eqn:E1;
        destruct (Z.min clen (a + _) >? Z.max 0 a) eqn:E2.
      * split; [|intros Hg; exfalso; lia]. intros _. repeat split; try lia.
      * split; [intros Hg; exfalso; lia|]. intros _ p. lia.
      * split; [|intros Hg; exfalso; lia]. intros _. repeat split; try lia.
      * split; [intros Hg; exfalso; lia|]. intros _ p. lia.
Qed.

(* ================= the list of specs ================= *)
(* cs is, in order, one exact canonical range per spec that selects at least one byte *)
Inductive canon_of (clen : Z) : list rspec -> list (Z * Z) -> Prop :=
| co_nil : canon_of clen [] []
| co_keep s r c cs :
    0 <= fst c -> 0 < snd c -> fst c + snd c <= clen -> (forall p, in_canon c p <-> wants clen s p) ->
    canon_of clen r cs -> canon_of clen (s :: r) (c :: cs)
| co_drop s r cs : (forall p, ~ wants clen s p) -> canon_of clen r cs -> canon_of clen (s :: r) cs.

Lemma canon_specs_spec clen specs : Forall valid_spec specs -> -1 <= clen <= int64_max ->
  exists cs, canon_specs clen (map repr specs) = (cs, false) /\ canon_of clen specs cs.
Proof.
  intros Hv Hc. induction Hv as [|s r Hs Hr IH]; cbn [map canon_specs].
  - exists []. split; [reflexivity|constructor].
  - destruct IH as (cs & Ecs & Hcs). rewrite Ecs.
    pose proof (spec_canonize_spec clen s Hs Hc) as H.
    destruct (spec_canonize clen (repr s)) as [[c good] ub]. destruct H as (-> & Hg & Hb).
    destruct good.
    + destruct (Hg eq_refl) as (H1 & H2 & H3 & H4). exists (c :: cs). split; [reflexivity|]. now constructor.
    + exists cs. split; [reflexivity|]. apply co_drop; [exact (Hb eq_refl)|exact Hcs].
Qed.

Lemma canon_of_within clen specs cs : canon_of clen specs cs ->
  Forall (fun c => 0 <= fst c /\ 0 < snd c /\ fst c + snd c <= clen) cs.
Proof. induction 1; [constructor|constructor; [repeat split; assumption|assumption]|assumption]. Qed.

Lemma canon_of_union clen specs cs : canon_of clen specs cs ->
  forall p, (exists c, In c cs /\ in_canon c p) <-> (exists s, In s specs /\ wants clen s p).
Proof.
  induction 1 as [|s r c cs H1 H2 H3 H4 Hr IH|s r cs Hn Hr IH]; intros p.
  - split; intros (x & [] & _).
  - split.
    + intros (x & [<-|Hin] & Hp).
      * exists s. split; [now left|now apply H4].
      * destruct (proj1 (IH p) (ex_intro _ x (conj Hin Hp))) as (s' & Hs' & Hw). exists s'. split; [now right|exact Hw].
    + intros (x & [<-|Hin] & Hp).
      * exists c. split; [now left|now apply H4].
      * destruct (proj2 (IH p) (ex_intro _ x (conj Hin Hp))) as (c' & Hc' & Hw). exists c'. split; [now right|exact Hw].
  - split.
    + intros Hx. destruct (proj1 (IH p) Hx) as (s' & Hs' & Hw). exists s'. split; [now right|exact Hw].
    + intros (x & [<-|Hin] & Hp); [exfalso; exact (Hn p Hp)|]. apply IH. now exists x.
Qed.

Lemma all_some_Forall {A B} (f : A -> option B) l xs : all_some (map f l) = Some xs -> Forall2 (fun x y => f x = Some y) l xs.
Proof.
  revert xs. induction l as [|x l IH]; intros xs; cbn [map all_some].
  - intros [= <-]. constructor.
  - destruct (f x) as [y|] eqn:E; [|discriminate]. destruct (all_some (map f l)) as [ys|]; [|discriminate].
    intros [= <-]. constructor; [exact E|now apply IH].
Qed.

Lemma header_specs_valid value specs : header_specs value = Some specs -> Forall valid_spec specs /\ specs <> [].
Proof.
  unfold header_specs. destruct (ci_eqb _ _); [|discriminate].
  destruct (all_some _) as [[|x l]|] eqn:E; try discriminate. intros [= <-]. split; [|discriminate].
  apply all_some_Forall in E. remember (x :: l) as xs. clear Heqxs. induction E as [|el s els ss Hs _ IH]; constructor; [|exact IH].
  exact (spec_of_text_valid el s Hs).
Qed.

(* ================= the property ================= *)
Theorem range_run_spec value clen : -1 <= clen <= int64_max ->
  match header_specs value with
  | None => range_run value clen = (None, false)
  | Some specs =>
      exists cs, range_run value clen = (Some (map repr specs, (match cs with [] => false | _ => true end, cs)), false) /\
                 canon_of clen specs cs
  end.
Proof.
  intros Hc. unfold range_run. rewrite range_parse_spec.
  destruct (header_specs value) as [specs|] eqn:Eh; [|reflexivity].
  destruct (header_specs_valid value specs Eh) as [Hv _].
  destruct (canon_specs_spec clen specs Hv Hc) as (cs & Ecs & Hcs).
  exists cs. split; [|exact Hcs]. unfold range_canonize. now rewrite Ecs.
Qed.

(* an invalid element anywhere in the list makes the header ignored *)
Theorem invalid_spec_ignores_header value clen el :
  ci_eqb (takeN 6 (c_str value)) bytes_eq = true ->
  In el (elements (dropN 6 (c_str value))) -> spec_of_text el = None ->
  range_run value clen = (None, false).
Proof.
  intros Hb Hin Hn. unfold range_run. rewrite range_parse_spec. unfold header_specs. rewrite Hb.
  now rewrite (all_some_none spec_of_text _ el Hin Hn).
Qed.

Theorem range_no_overflow value clen : -1 <= clen <= int64_max -> snd (range_run value clen) = false.
Proof.
  intros Hc. pose proof (range_run_spec value clen Hc) as H.
  destruct (header_specs value); [destruct H as (cs & -> & _)|rewrite H]; reflexivity.
Qed.

(* ================= what spec_of_text means, as a grammar ================= *)
Lemma span_digits_dash d1 rest : forallb is_digit d1 = true ->
  span (fun c => negb (c =? 45)%N) (d1 ++ 45%N :: rest) = (d1, 45%N :: rest).
Proof.
  induction d1 as [|x d1 IH]; intros H; cbn [app span]; [reflexivity|].
  cbn [forallb] in H. apply andb_prop in H as [Hx Hd].
  assert ((x =? 45)%N = false) as -> by (unfold is_digit in Hx; lia). cbn [negb]. now rewrite (IH Hd).
Qed.

Lemma spec_of_text_digits_led d1 rest a : pos_value d1 = Some a ->
  spec_of_text (d1 ++ 45%N :: rest) =
  match rest with
  | [] => Some (RFrom a)
  | _ => match pos_value rest with Some y => if y <? a then None else Some (RRange a y) | None => None end
  end.
Proof.
  intros Ha. destruct (pos_value_range d1 a Ha) as (_ & Hd & _).
  destruct d1 as [|c r]; [discriminate|].
  assert (Hc : (c =? 45)%N = false).
  { cbn [forallb] in Hd. apply andb_prop in Hd as [Hc _]. unfold is_digit in Hc. lia. }
  unfold spec_of_text. cbn [app]. rewrite Hc.
  change (c :: r ++ 45%N :: rest) with ((c :: r) ++ 45%N :: rest).
  now rewrite (span_digits_dash (c :: r) rest Hd), Ha.
Qed.

Theorem spec_of_text_meaning el s :
  spec_of_text el = Some s <->
  (exists ds n, el = 45%N :: ds /\ pos_value ds = Some n /\ s = RSuffix n) \/
  (exists d1 a, el = d1 ++ [45%N] /\ pos_value d1 = Some a /\ s = RFrom a) \/
  (exists d1 d2 a b, el = d1 ++ 45%N :: d2 /\ pos_value d1 = Some a /\ pos_value d2 = Some b /\ a <= b /\ s = RRange a b).
Proof.
  split.
  - unfold spec_of_text. destruct el as [|c r]; [discriminate|].
    destruct (c =? 45)%N eqn:E45.
    + apply N.eqb_eq in E45. subst c. destruct (pos_value r) as [n|] eqn:E; [|discriminate]. intros [= <-].
      left. now exists r, n.
    + pose proof (span_app (fun c0 => negb (c0 =? 45)%N) (c :: r)) as Happ.
      pose proof (span_stop (fun c0 => negb (c0 =? 45)%N) (c :: r)) as Hstop.
      destruct (span (fun c0 => negb (c0 =? 45)%N) (c :: r)) as [a rest]. cbn [fst snd] in *.
      destruct rest as [|d b]; [discriminate|]. assert (d = 45%N) by lia. subst d.
      destruct (pos_value a) as [x|] eqn:Ea; [|discriminate].
      destruct b as [|e b'].
      * intros [= <-]. right. left. exists a, x. now rewrite Happ.
      * destruct (pos_value (e :: b')) as [y|] eqn:Eb; [|discriminate].
        destruct (y <? x) eqn:Eyx; [discriminate|]. intros [= <-]. right. right.
        exists a, (e :: b'), x, y. rewrite Happ. repeat split; try assumption; lia.
  - intros [(ds & n & -> & Hn & ->)|[(d1 & a & -> & Ha & ->)|(d1 & d2 & a & b & -> & Ha & Hb & Hab & ->)]].
    + unfold spec_of_text. now rewrite N.eqb_refl, Hn.
    + now rewrite (spec_of_text_digits_led d1 [] a Ha).
    + rewrite (spec_of_text_digits_led d1 d2 a Ha). destruct (pos_value_range d2 b Hb) as (_ & _ & Hne2).
      destruct d2 as [|e d2']; [congruence|]. rewrite Hb. destruct (b <? a) eqn:E; [lia|reflexivity].
Qed.

Theorem pos_value_meaning ds v :
  pos_value ds = Some v <-> ds <> [] /\ forallb is_digit ds = true /\ v = dec_value ds /\ v <= int64_max.
Proof.
  unfold pos_value. split.
  - destruct ds as [|c r]; [discriminate|]. destruct (forallb is_digit (c :: r)); [|discriminate]. cbn [andb].
    destruct (dec_value (c :: r) <=? int64_max) eqn:E; [|discriminate]. intros [= <-].
    repeat split; try lia; discriminate.
  - intros (Hne & Hd & -> & Hm). destruct ds as [|c r]; [congruence|]. rewrite Hd. cbn [andb].
    destruct (dec_value (c :: r) <=? int64_max) eqn:E; [reflexivity|lia].
Qed.

(* the headline form: within the representation, non-empty, and covering exactly the requested bytes *)
Theorem range_canon_exact value clen specs : -1 <= clen <= int64_max -> header_specs value = Some specs ->
  exists cs, range_run value clen = (Some (map repr specs, (match cs with [] => false | _ => true end, cs)), false) /\
    Forall (fun c => 0 <= fst c /\ 0 < snd c /\ fst c + snd c <= clen) cs /\
    (forall p, (exists c, In c cs /\ in_canon c p) <-> (exists s, In s specs /\ wants clen s p)).
Proof.
  intros Hc Hh. pose proof (range_run_spec value clen Hc) as H. rewrite Hh in H. destruct H as (cs & Hr & Hcs).
  exists cs. split; [exact Hr|]. split; [exact (canon_of_within _ _ _ Hcs)|exact (canon_of_union _ _ _ Hcs)].
Qed.
