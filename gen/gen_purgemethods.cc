// Table generator for C20 (purge area): per-method attributes of src/http/RequestMethod.cc
// (shouldInvalidate, purgesOthers, respMaybeCacheable) and the images HttpRequestMethod(const SBuf&)
// compares against, as the code defines them *now*.
#include "squid.h"
#include <iostream>
#include <cstring>
#include <strings.h>
#include "sbuf/SBuf.h"
#include "http/MethodType.h"
#include "http/RequestMethod.h"
#include "SquidConfig.h"

static void bytesOf(const SBuf &b) {
    std::cout << "[";
    for (SBuf::size_type i = 0; i < b.length(); ++i)
        std::cout << (i ? ";" : "") << static_cast<unsigned>(static_cast<unsigned char>(b[i]));
    std::cout << "]";
}
static const char *B(bool b) { return b ? "true" : "false"; }

int main() {
    std::cout << "@@FILE PurgeMethods_gen.v\n"
              "(* generated from /repo by gen/gen_purgemethods.cc -- do not edit *)\n"
              "Require Import SquidV.Bytes.\nLocal Open Scope N_scope.\n"
              "(* (id, image, (shouldInvalidate, purgesOthers, respMaybeCacheable)) for ids METHOD_NONE .. METHOD_ENUM_END-1 *)\n"
              "Definition pg_methods : list (N * bytes * (bool * bool * bool)) := [\n";
    for (int m = Http::METHOD_NONE; m < Http::METHOD_ENUM_END; ++m) {
        const HttpRequestMethod hm(static_cast<Http::MethodType>(m));
        std::cout << (m > 0 ? ";\n" : "") << "  (" << m << ", ";
        bytesOf(hm.image());
        std::cout << ", (" << B(hm.shouldInvalidate()) << ", " << B(hm.purgesOthers()) << ", " << B(hm.respMaybeCacheable()) << "))";
    }
    std::cout << "].\n";
#define ID(n, v) std::cout << "Definition " n " : N := " << static_cast<long>(v) << ".\n"
    ID("pg_METHOD_NONE", Http::METHOD_NONE); ID("pg_METHOD_GET", Http::METHOD_GET); ID("pg_METHOD_HEAD", Http::METHOD_HEAD);
    ID("pg_METHOD_POST", Http::METHOD_POST); ID("pg_METHOD_PUT", Http::METHOD_PUT); ID("pg_METHOD_DELETE", Http::METHOD_DELETE);
    ID("pg_METHOD_CONNECT", Http::METHOD_CONNECT); ID("pg_METHOD_PURGE", Http::METHOD_PURGE);
    ID("pg_METHOD_OTHER", Http::METHOD_OTHER); ID("pg_METHOD_ENUM_END", Http::METHOD_ENUM_END);
    // SBuf::caseCmp is strncasecmp: the per-byte folding it applies (C locale)
    std::cout << "Definition pg_casefold_tbl : list N := [";
    for (int c = 0; c < 256; ++c) {
        // find the canonical representative: smallest byte d that compares equal to c
        int rep = c;
        for (int d = 0; d < 256; ++d) {
            const char a[2] = {static_cast<char>(c), 'x'}, b[2] = {static_cast<char>(d), 'x'};
            if (c && d && SBuf(a, 1).caseCmp(SBuf(b, 1)) == 0) { rep = d; break; }
        }
        std::cout << (c ? ";" : "") << rep;
    }
    std::cout << "].\n";
    // a method that is not in the table is METHOD_OTHER whatever relaxed_header_parser says; the default of that
    // switch decides whether mixed-case spellings of known methods are known
    std::cout << "Definition pg_probe_post_lower_is_post_relaxed : bool := ";
    Config.onoff.relaxed_header_parser = 1;
    std::cout << B(HttpRequestMethod(SBuf("post")).id() == Http::METHOD_POST) << ".\n";
    std::cout << "Definition pg_probe_post_lower_is_post_strict : bool := ";
    Config.onoff.relaxed_header_parser = 0;
    std::cout << B(HttpRequestMethod(SBuf("post")).id() == Http::METHOD_POST) << ".\n";
    return 0;
}
