(* RwlockProofs.v — proofs about RwlockModel.v (C54).

   Method: every program counter carries nine 0/1 weights; the invariant says
   that each atomic field equals the sum of one weight over all processes, that
   at most one process is "first writer", and a Dekker-style clause relating the
   exclusive-committed writer to the processes counted in readLevel. One step of
   one process changes the sums by (weight after - weight before), so
   preservation is linear arithmetic per program counter. *)
Require Import SquidV.Bytes SquidV.RwlockModel.
Require Import ZifyBool ZifyN ZifyNat.
Local Open Scope Z_scope.

Definition b2z (b : bool) : Z := if b then 1 else 0.

(* ---------- weights ---------- *)
Record W := mkW {
  rl : Z;   (* has incremented readLevel and not yet decremented it *)
  rd : Z;   (* has incremented readers and not yet decremented it *)
  wl : Z;   (* has incremented writeLevel and not yet decremented it *)
  fw : Z;   (* its writeLevel++ returned 0 ("first writer") and it has not yet decremented *)
  wr : Z;   (* has stored writing = true and not yet writing = false *)
  ap : Z;   (* has stored appending = true and not yet appending = false *)
  up : Z;   (* has set `updating` (test_and_set returned false) and not yet cleared it *)
  xc : Z;   (* committed to exclusivity: saw readLevel == 0, not appending, still claims exclusive access *)
  rc : Z    (* counted in readLevel and NOT in the undecided/failing part of lockShared (LS2, LS3, LS5) *)
}.

Definition wmode (m : mode) : W :=
  match m with           (* rl rd wl fw wr ap up xc rc *)
  | MIdle    => mkW 0 0 0 0 0 0 0 0 0
  | MShared  => mkW 1 1 0 0 0 0 0 0 1
  | MHeaders => mkW 1 1 0 0 0 0 1 0 1
  | MExcl    => mkW 0 0 1 1 1 0 0 1 0
  | MAppend  => mkW 0 0 1 1 1 1 0 0 0
  | MBusy    => mkW 0 0 1 1 1 0 0 0 0
  end.

Definition us_wl (k : usk) : Z := match k with UsSxWin | UsSxLose => 1 | _ => 0 end.
Definition us_fw (k : usk) : Z := match k with UsSxWin => 1 | _ => 0 end.
Definition ux_r (k : uxk) : Z := match k with UxSw => 1 | UxPlain => 0 end.

Definition wt (p : pc) : W :=
  match p with                 (* rl rd wl fw wr ap up xc rc *)
  | Ready m | Done m => wmode m
  | Crashed     => mkW 0 0 0 0 0 0 0 0 0
  | LS1 _       => mkW 0 0 0 0 0 0 0 0 0
  | LS2 _       => mkW 1 0 0 0 0 0 0 0 0
  | LS3 _       => mkW 1 0 0 0 0 0 0 0 0
  | LS4 _       => mkW 1 0 0 0 0 0 0 0 1
  | LS5 _       => mkW 1 0 0 0 0 0 0 0 0
  | LH1         => mkW 1 1 0 0 0 0 0 0 1
  | US1 k       => mkW 1 1 (us_wl k) (us_fw k) 0 0 0 0 1
  | US2 k       => mkW 1 1 (us_wl k) (us_fw k) 0 0 0 0 1
  | US3 k       => mkW 1 0 (us_wl k) (us_fw k) 0 0 0 0 1
  | LX1         => mkW 0 0 0 0 0 0 0 0 0
  | LX2         => mkW 0 0 1 0 0 0 0 0 0
  | FX1 _       => mkW 0 0 1 1 0 0 0 0 0
  | FX2 _       => mkW 0 0 1 1 0 0 0 0 0
  | FX3 _       => mkW 0 0 1 1 0 0 0 0 0
  | FX4 _       => mkW 0 0 1 1 0 0 0 1 0
  | FX5 _       => mkW 0 0 1 1 0 0 0 0 0
  | UX1 k a     => mkW (ux_r k) (ux_r k) 1 1 1 (b2z a) 0 0 (ux_r k)
  | UX2 k a     => mkW (ux_r k) (ux_r k) 1 1 1 (b2z a) 0 0 (ux_r k)
  | UX3 k       => mkW (ux_r k) (ux_r k) 1 1 1 0 0 0 (ux_r k)
  | UX4 k       => mkW (ux_r k) (ux_r k) 1 1 0 0 0 0 (ux_r k)
  | UH1         => mkW 1 1 0 0 0 0 1 0 1
  | UH2         => mkW 1 1 0 0 0 0 1 0 1
  | SW1 a       => mkW 0 0 1 1 1 (b2z a) 0 0 0
  | SW2 a       => mkW 0 0 1 1 1 (b2z a) 0 0 0
  | SW3 a       => mkW 1 0 1 1 1 (b2z a) 0 0 1
  | SX1         => mkW 1 1 0 0 0 0 0 0 1
  | SX2         => mkW 1 1 0 0 0 0 0 0 1
  | SX3         => mkW 0 0 1 0 0 0 0 0 0
  | SA1         => mkW 0 0 1 1 1 0 0 0 0
  | SA2         => mkW 0 0 1 1 1 0 0 0 0
  | SP1         => mkW 0 0 1 1 1 1 0 0 0
  | SP2         => mkW 0 0 1 1 1 1 0 0 0
  | SP3         => mkW 0 0 1 1 1 1 0 0 0
  | SP4         => mkW 0 0 1 1 1 0 0 0 0
  end.

Definition cr (p : pc) : Z := match p with Crashed => 1 | _ => 0 end.

Definition sumf (f : pc -> Z) (l : list thread) : Z :=
  fold_right (fun th a => f (fst th) + a) 0 l.

Definition Srl := sumf (fun p => rl (wt p)).
Definition Srd := sumf (fun p => rd (wt p)).
Definition Swl := sumf (fun p => wl (wt p)).
Definition Sfw := sumf (fun p => fw (wt p)).
Definition Swr := sumf (fun p => wr (wt p)).
Definition Sap := sumf (fun p => ap (wt p)).
Definition Sup := sumf (fun p => up (wt p)).
Definition Sxc := sumf (fun p => xc (wt p)).
Definition Src := sumf (fun p => rc (wt p)).
Definition Scr := sumf cr.

(* ---------- the inductive invariant ---------- *)
Record Inv (st : state) : Prop := mkInv {
  inv_rl : readLevel (sh st) = Srl (ths st);            (* "number of users reading (or trying to)" *)
  inv_wl : writeLevel (sh st) = Swl (ths st);           (* "number of users writing (or trying to write)" *)
  inv_rd : readers (sh st) = Srd (ths st);              (* "number of reading users" *)
  inv_wr : b2z (writing (sh st)) = Swr (ths st);        (* "there is a writing user (there can be at most 1)" *)
  inv_ap : b2z (appending (sh st)) = Sap (ths st);      (* "the writer has promised to only append" *)
  inv_up : b2z (updating (sh st)) = Sup (ths st);       (* "a reader is updating metadata/headers" *)
  inv_fw : Sfw (ths st) <= 1;                           (* at most one first writer *)
  inv_dk : Sxc (ths st) = 0 \/ Src (ths st) = 0;        (* exclusive-committed writer => nobody decided to read *)
  inv_cr : Scr (ths st) = 0                             (* no assertion has failed *)
}.

(* ---------- list plumbing ---------- *)
Lemma sumf_app : forall f l1 l2, sumf f (l1 ++ l2) = sumf f l1 + sumf f l2.
Proof. induction l1 as [|a l1 IH]; intros; simpl; [lia | rewrite IH; lia]. Qed.

Lemma sumf_cons : forall f p scr l, sumf f ((p, scr) :: l) = f p + sumf f l.
Proof. reflexivity. Qed.

Lemma nthN_split : forall (A : Type) (l : list A) (n : N) (x : A),
  nthN n l = Some x ->
  exists l1 l2, l = l1 ++ x :: l2 /\ (forall y, updN n y l = l1 ++ y :: l2) /\ lenN l1 = n.
Proof.
  induction l as [|a l IH]; intros n x H; simpl in H; [discriminate|].
  destruct (N.eqb_spec n 0%N) as [E|E].
  - inversion H; subst. exists [], l. repeat split; auto.
  - destruct (IH _ _ H) as (l1 & l2 & E1 & E2 & E3).
    exists (a :: l1), l2. repeat split.
    + simpl. rewrite E1. reflexivity.
    + intro y. simpl. destruct (N.eqb_spec n 0%N); [contradiction|]. rewrite E2. reflexivity.
    + simpl. rewrite E3. lia.
Qed.

Lemma nthN_app_mid : forall (A : Type) (l1 l2 : list A) (x : A), nthN (lenN l1) (l1 ++ x :: l2) = Some x.
Proof.
  induction l1 as [|a l1 IH]; intros; simpl; [reflexivity|].
  destruct (N.eqb_spec (N.succ (lenN l1)) 0%N); [lia|]. rewrite N.pred_succ. apply IH.
Qed.

(* ---------- pointwise facts about the weights, lifted to sums ---------- *)
Ltac pc_cases p :=
  destruct p as [m|m| |k|k|k|k|k| |k|k|k| | |k|k|k|k|k|k a|k a|k|k| | |a|a|a| | | | | | | | | ];
  try (destruct m); try (destruct k); try (destruct a).

Lemma rest_facts : forall l,
  0 <= Srl l /\ 0 <= Srd l /\ 0 <= Swl l /\ 0 <= Sfw l /\ 0 <= Swr l /\ 0 <= Sap l /\ 0 <= Sup l /\
  0 <= Sxc l /\ 0 <= Src l /\ 0 <= Scr l /\
  Sxc l + Sap l <= Sfw l /\ Sfw l <= Swl l /\ Swr l <= Sfw l /\ Src l <= Srl l /\ Srd l <= Srl l /\ Sup l <= Srd l.
Proof.
  unfold Srl, Srd, Swl, Sfw, Swr, Sap, Sup, Sxc, Src, Scr.
  induction l as [|[p scr] l IH]; [simpl; lia|].
  rewrite !sumf_cons.
  pc_cases p; cbn [wt wmode rl rd wl fw wr ap up xc rc cr us_wl us_fw ux_r b2z]; lia.
Qed.
