(* PurgeModel.v — invalidation of cached responses by unsafe requests (C20).
   Transcribed from
     src/clients/Client.cc      sameUrlHosts, purgeEntriesByHeader, Client::maybePurgeOthers
     src/client_side_reply.cc   purgeEntriesByUrl, clientReplyContext::purgeAllCached (called by processMiss for
                                METHOD_OTHER before the request is forwarded)
     src/http/RequestMethod.cc  HttpRequestMethod(const SBuf&), shouldInvalidate/purgesOthers/respMaybeCacheable
                                (attribute table regenerated: gen/PurgeMethods_gen.v)
     src/anyp/Uri.cc            urlIsRelative, Uri::addRelativePath, Uri::path(), Uri::absolutePath(), Uri::absolute()
                                with their `mutable` result caches, Uri::touch(), Uri::Encode (PathChars regenerated:
                                gen/PurgeUri_gen.v)
     src/HttpRequest.cc         effectiveRequestUri
     src/store_key_md5.cc       storeKeyPublic: key = digest(method id byte, url) — modelled as the pair itself
     src/store/Controller.cc    evictIfFound — modelled on a store that is a list of keys
   Executable definitions only. C strings are byte lists cut at the first NUL (cstr). *)
Require Import SquidV.Bytes.
Require Import SquidV.gen.PurgeMethods_gen SquidV.gen.PurgeUri_gen.
Local Open Scope N_scope.

(* ---------- C strings ---------- *)
Fixpoint cstr (l : bytes) : bytes :=
  match l with [] => [] | c :: r => if c =? 0 then [] else c :: cstr r end.
(* *p for a pointer into a NUL-terminated string: the terminator reads as 0 *)
Definition hd0 (l : bytes) : N := match l with [] => 0 | c :: _ => c end.
Definition nonempty (l : bytes) : bool := match l with [] => false | _ => true end.

Definition SLASH : N := 47.
Definition COLON : N := 58.

(* ---------- methods (src/http/RequestMethod.cc) ---------- *)
Definition attrs := (bool * bool * bool)%type.     (* shouldInvalidate, purgesOthers, respMaybeCacheable *)
Fixpoint attrs_of (tbl : list (N * bytes * attrs)) (id : N) : attrs :=
  match tbl with
  | [] => (false, false, false)
  | (i, _, a) :: r => if i =? id then a else attrs_of r id
  end.
Definition should_invalidate (id : N) : bool := fst (fst (attrs_of pg_methods id)).
Definition purges_others (id : N) : bool := snd (fst (attrs_of pg_methods id)).
Definition resp_maybe_cacheable (id : N) : bool := snd (attrs_of pg_methods id).

(* SBuf::caseCmp(S) == 0: same length and bytes equal after strncasecmp's folding *)
Definition casefold (c : N) : N := tbl_get c pg_casefold_tbl c.
Fixpoint case_eqb (a b : bytes) : bool :=
  match a, b with
  | [], [] => true
  | x :: a', y :: b' => (casefold x =? casefold y) && case_eqb a' b'
  | _, _ => false
  end.

(* HttpRequestMethod::HttpRequestMethod(const SBuf &s): linear search over ids METHOD_NONE+1 .. METHOD_ENUM_END-1
   (for METHOD_OTHER the image compared is the "METHOD_OTHER" placeholder); relaxed = Config.onoff.relaxed_header_parser *)
Fixpoint method_search (relaxed : bool) (tbl : list (N * bytes * attrs)) (s : bytes) : N :=
  match tbl with
  | [] => pg_METHOD_OTHER
  | (i, img, _) :: r =>
      if (i =? pg_METHOD_NONE) then method_search relaxed r s
      else if case_eqb img s then
        if relaxed then i
        else if list_eqb img s then i else method_search relaxed r s
      else method_search relaxed r s
  end.
Definition method_of_image (relaxed : bool) (s : bytes) : N :=
  match s with [] => pg_METHOD_NONE | _ => method_search relaxed pg_methods s end.

(* ---------- AnyP::Uri, the part the purge code touches ---------- *)
Record uri := mkUri {
  u_front : bytes;        (* what absolute() emits before absolutePath(): scheme ":" "//" [userinfo "@"] authority,
                             or scheme ":" host ":" for URNs; never changed by the purge code *)
  u_httpx : bool;         (* scheme is http or https (path() then defaults to "/") *)
  u_urn : bool;           (* scheme is urn *)
  u_path : bytes;         (* path_ *)
  u_abs_cache : bytes;    (* mutable absolute_ *)
  u_abspath_cache : bytes (* mutable absolutePath_ *)
}.

(* Uri::Encode(buf, ignore): every byte outside `ignore` becomes what appendf("%%%02X") prints for it *)
Fixpoint uri_encode (ignore : cset) (l : bytes) : bytes :=
  match l with
  | [] => []
  | c :: r => if ignore c then c :: uri_encode ignore r else tbl_get [] pg_encoded_tbl c ++ uri_encode ignore r
  end.

Definition encode_path (l : bytes) : bytes := uri_encode pg_PathChars l.     (* Encode(l, PathChars()) *)

Definition uri_path (u : uri) : bytes :=
  if negb (nonempty (u_path u)) && u_httpx u then pg_SlashPath else u_path u.

(* Uri::absolutePath(): Encode(path(), pathAndQueryChars), computed once, then served from absolutePath_;
   the set (regenerated: pg_AbsPathChars) is PathChars plus the query delimiter *)
Definition uri_absolute_path (u : uri) : bytes * uri :=
  if nonempty (u_abspath_cache u) then (u_abspath_cache u, u)
  else let v := uri_encode pg_AbsPathChars (uri_path u) in      (* PathChars plus '?': path_ holds path and query *)
       (v, mkUri (u_front u) (u_httpx u) (u_urn u) (u_path u) (u_abs_cache u) v).

(* Uri::absolute(): computed once, then served from absolute_ *)
Definition uri_absolute (u : uri) : bytes * uri :=
  if nonempty (u_abs_cache u) then (u_abs_cache u, u)
  else let '(ap, u1) := uri_absolute_path u in
       let v := u_front u1 ++ ap in
       (v, mkUri (u_front u1) (u_httpx u1) (u_urn u1) (u_path u1) v (u_abspath_cache u1)).

(* Uri::touch() *)
Definition uri_touch (u : uri) : uri := mkUri (u_front u) (u_httpx u) (u_urn u) (u_path u) [] [].
(* Uri::path(const char *p) {path_=p; touch();} *)
Definition uri_set_path (p : bytes) (u : uri) : uri := mkUri (u_front u) (u_httpx u) (u_urn u) p [] [].

(* path_.rfind('/') then chop(0, lastSlashPos+1): the prefix up to and including the last '/' *)
Fixpoint upto_last_slash (p : bytes) : option bytes :=
  match p with
  | [] => None
  | c :: r =>
      match upto_last_slash r with
      | Some q => Some (c :: q)
      | None => if c =? SLASH then Some [c] else None
      end
  end.

(* Uri::addRelativePath(relUrl): URNs are returned untouched; otherwise the path is merged and touch() clears the
   cached absolute_ / absolutePath_ (since the repair "Uri::addRelativePath() left stale cached absolute forms behind") *)
Definition uri_add_relative_path (rel : bytes) (u : uri) : uri :=
  if u_urn u then u
  else
    let p := match upto_last_slash (u_path u) with
             | None => [SLASH] ++ rel
             | Some q => q ++ rel
             end in
    mkUri (u_front u) (u_httpx u) (u_urn u) p [] [].

(* urlIsRelative *)
Fixpoint first_segment_has_no_colon (u : bytes) : bool :=
  match u with
  | [] => true
  | c :: r => if (c =? SLASH) || (c =? 63) || (c =? 35) then true
              else if c =? COLON then false else first_segment_has_no_colon r
  end.
Definition url_is_relative (u : bytes) : bool :=
  match u with
  | [] => true
  | c :: _ => if c =? SLASH then true else first_segment_has_no_colon u
  end.

(* ---------- sameUrlHosts (src/clients/Client.cc) ---------- *)
(* strchr(url, ':'): the suffix starting at the first ':' *)
Fixpoint from_colon (u : bytes) : option bytes :=
  match u with
  | [] => None
  | c :: r => if c =? COLON then Some u else from_colon r
  end.
(* do { ++host1; ++host2; } while ( *host1 == '/' && *host2 == '/' ); the state after the first increment is (a, b) *)
Fixpoint skip_scheme_slashes (a b : bytes) : bytes * bytes :=
  match a, b with
  | x :: a', y :: b' => if (x =? SLASH) && (y =? SLASH) then skip_scheme_slashes a' b' else (a, b)
  | _, _ => (a, b)
  end.
(* while ( *host1 && *host1 != '/' && *host1 == *host2 ) { ++host1; ++host2; } return *host1 == *host2; *)
Fixpoint host_walk (a b : bytes) : bool :=
  match a with
  | [] => hd0 b =? 0
  | x :: a' =>
      if x =? SLASH then hd0 b =? SLASH
      else match b with
           | y :: b' => if x =? y then host_walk a' b' else false
           | [] => false        (* x <> 0 = *host2 *)
           end
  end.
Definition same_url_hosts (url1 url2 : bytes) : bool :=
  match from_colon url1, from_colon url2 with
  | Some (_ :: a), Some (_ :: b) =>
      let '(h1, h2) := skip_scheme_slashes a b in
      match h1 with
      | [] => false                 (* no host *)
      | _ => host_walk h1 h2
      end
  | _, _ => false                   (* no URL scheme *)
  end.

(* ---------- requests, replies, keys ---------- *)
Record request := mkReq {
  rq_method : N;               (* request->method.id() *)
  rq_authority_form : bool;    (* url.getScheme() == PROTO_AUTHORITY_FORM *)
  rq_authority_port : bytes;   (* url.authority(true) *)
  rq_url : uri
}.
Record reply := mkRep {
  rp_status : N;                         (* theFinalReply->sline.status() *)
  rp_location : option bytes;            (* header.getStr(LOCATION): value of the first such field, or null *)
  rp_content_location : option bytes     (* header.getStr(CONTENT_LOCATION) *)
}.

Definition key := (N * bytes)%type.      (* storeKeyPublic(url, method): digest of (method id, url) *)
Definition key_eqb (a b : key) : bool := (fst a =? fst b) && list_eqb (snd a) (snd b).

(* HttpRequest::effectiveRequestUri(); returns the request with the Uri caches as they are afterwards *)
Definition effective_request_uri (rq : request) : bytes * request :=
  if (rq_method rq =? pg_METHOD_CONNECT) || rq_authority_form rq then (rq_authority_port rq, rq)
  else let '(a, u') := uri_absolute (rq_url rq) in
       (a, mkReq (rq_method rq) (rq_authority_form rq) (rq_authority_port rq) u').

(* purgeEntriesByUrl: one key per method id whose responses may be cached, in id order *)
Fixpoint cacheable_ids (tbl : list (N * bytes * attrs)) : list N :=
  match tbl with
  | [] => []
  | (i, _, (_, _, c)) :: r => if c then i :: cacheable_ids r else cacheable_ids r
  end.
Definition purge_entries_by_url (url : bytes) : list key :=
  map (fun m => (m, url)) (cacheable_ids pg_methods).

(* purgeEntriesByHeader(req, reqUrl, rep, hdr) with hdrUrl = the header value (None = no such header) *)
Definition purge_entries_by_header (rq : request) (reqUrl : bytes) (hdr : option bytes) : list key :=
  match hdr with
  | None => []
  | Some raw =>
      let h := cstr raw in
      if url_is_relative h then
        if rq_method rq =? pg_METHOD_CONNECT then purge_entries_by_url h
        else if u_urn (rq_url rq) then purge_entries_by_url (fst (uri_absolute (rq_url rq)))
        else
          let tmp := rq_url rq in                                (* AnyP::Uri tmpUrl = req->url; copies the caches *)
          let tmp' := if hd0 h =? SLASH then uri_set_path h tmp  (* tmpUrl.path(hdrUrl) *)
                      else uri_add_relative_path h tmp in        (* tmpUrl.addRelativePath(hdrUrl) *)
          purge_entries_by_url (fst (uri_absolute tmp'))
      else if negb (same_url_hosts reqUrl h) then []
      else purge_entries_by_url h
  end.

(* Client::maybePurgeOthers() *)
Definition STATUS_LIMIT : N := 400.
Definition maybe_purge_others (rq : request) (rp : reply) : list key :=
  if negb (purges_others (rq_method rq)) then []
  else if STATUS_LIMIT <=? rp_status rp then []
  else
    let '(reqUrl0, rq1) := effective_request_uri rq in
    let reqUrl := cstr reqUrl0 in                                (* tmp.c_str() *)
    purge_entries_by_url reqUrl
    ++ purge_entries_by_header rq1 reqUrl (rp_location rp)
    ++ purge_entries_by_header rq1 reqUrl (rp_content_location rp).

(* clientReplyContext::processMiss: "Check if its an 'OTHER' request. Purge all cached entries if so and continue." *)
Definition process_miss_purge (rq : request) : list key :=
  if rq_method rq =? pg_METHOD_OTHER then purge_entries_by_url (cstr (fst (effective_request_uri rq))) else [].

(* all keys handed to Store::Root().evictIfFound() by one forwarded request/reply exchange *)
Definition evicted_keys (rq : request) (rp : reply) : list key :=
  process_miss_purge rq ++ maybe_purge_others (snd (effective_request_uri rq)) rp.

(* ---------- the store, as far as this property sees it ---------- *)
(* Store::Controller::evictIfFound(key): afterwards no store (local table, shared memory, disks, transients)
   answers a lookup for that key *)
Definition store := list key.
Definition evict_if_found (k : key) (s : store) : store := filter (fun e => negb (key_eqb e k)) s.
Definition evict_all (ks : list key) (s : store) : store := fold_left (fun st k => evict_if_found k st) ks s.
Definition store_has (s : store) (k : key) : bool := existsb (key_eqb k) s.

(* ---------- scenario glue used by the correspondence run ---------- *)
(* a forward-proxy request  METHOD scheme://authority path  as Uri::parse leaves it (http/https, fresh caches) *)
Definition request_of (relaxed : bool) (meth scheme authority path : bytes) : request :=
  mkReq (method_of_image relaxed meth) false authority
        (mkUri (scheme ++ [COLON; SLASH; SLASH] ++ authority) true false path [] []).

(* which of the candidate URLs (cached before under GET) have to be fetched again after the exchange *)
Definition refetched (rq : request) (rp : reply) (cands : list bytes) : list bool :=
  let s := evict_all (evicted_keys rq rp) (map (fun c => (pg_METHOD_GET, c)) cands) in
  map (fun c => negb (store_has s (pg_METHOD_GET, c))) cands.
