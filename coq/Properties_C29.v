(* Properties_C29.v — C29: Cache-Control directives parse and re-serialise faithfully.
   Statements only; proofs live in CcProofs.v. *)
Require Import SquidV.Bytes SquidV.HopModel SquidV.HopProofs SquidV.TokModel SquidV.Int64Proofs.
Require Import SquidV.gen.CcNames_gen SquidV.CcModel SquidV.CcProofs.
Local Open Scope N_scope.

(* the parse loop never runs out of fuel and is a left fold of the loop body over the (element, tail)
   pairs whose elements are exactly the strListGetItem(',') elements of the value *)
Theorem C29_parse_is_fold_over_list_elements : forall st v,
  cc_parse_from st v = Some (fold_left step_pair (pairs_of v) st) /\
  map fst (pairs_of v) = list_items 44 v.
Proof. exact (fun st v => conj (cc_parse_from_fold st v) (pairs_of_items v)). Qed.
Print Assumptions C29_parse_is_fold_over_list_elements.
