(* Extraction of the EventScheduler/EventLoop model (C59). ExtrOcamlBasic only. *)
Require Import ExtrOcamlBasic.
Require Import SquidV.Bytes SquidV.EventModel.
Extraction "m_event.ml" ev_init ev_step ev_run ev_run_trace ev_time_remaining ev_check_events ev_cancel ev_insert.
