(* handlers for the pipetunnel area (C05 pipeline, C06 tunnel).
   pipe.run <pf> <id:body:keep:len:miss,...> <gate 0|1> <events...>
       events: r[/H<id>|/B<n>]*   bytes arrived (request heads / body bytes, in stream order)
               d<id>              the client stream of request <id> delivers its next element
               w                  the pending socket write completed
       after the listed events the model's fair scheduler (drain) finishes the run.
       prints  resp=<id>*<bytes>,... closed=<0|1> early=<ids admitted after the read events, misses only> crash=<0|1>
   tun.run <racy -|c2s|s2c> <early hex> <events...>
       events: sC:<hex> sS:<hex> (peer sends)  fC fS (peer FIN)  rC:<n> rS:<n> (read completes)  wC wS (write completes)
               eC eS (read error)  xC xS (close handler)  z (settle: run pending I/O to quiescence)
       prints  c2s=<len>:<adler32> s2c=<len>:<adler32> ceof=<0|1> seof=<0|1> crash=<0|1> *)
let split_on c s = List.filter (fun x -> x <> "") (String.split_on_char c s)
let nat_of_int (i : int) : nat = let rec go k acc = if k = 0 then acc else go (k - 1) (S acc) in go i O
let sub_from s k = String.sub s k (String.length s - k)

let parse_req (s : string) : (req * bool) =
  match String.split_on_char ':' s with
  | [id; body; keep; len; miss] ->
    let idn = n_of_string id in
    ({ rq_id = idn; rq_body = n_of_string body; rq_keep = (keep = "1"); rq_resp = mk_resp idn (n_of_string len) }, miss = "1")
  | _ -> failwith "req"

let parse_pev (tbl : (string * req) list) (s : string) : pev =
  match s.[0] with
  | 'w' -> EWrote
  | 'd' -> EData (n_of_string (sub_from s 1))
  | 'r' ->
    let items = List.map (fun it ->
        match it.[0] with
        | 'H' -> IHead (List.assoc (sub_from it 1) tbl)
        | 'B' -> IBody (n_of_string (sub_from it 1))
        | _ -> failwith "item") (split_on '/' (sub_from s 1)) in
    ERead items
  | _ -> failwith "pev"

let adler (l : n list) : int =
  let a = ref 1 and b = ref 0 in
  List.iter (fun x -> a := (!a + int_of_n x) mod 65521; b := (!b + !a) mod 65521) l;
  !b * 65536 + !a
let dirsum (l : n list) : string = Printf.sprintf "%d:%d" (List.length l) (adler l)

let side_of = function "C" -> Cl | "S" -> Sv | _ -> failwith "side"
let parse_tev (s : string) : tev list =
  let x () = side_of (String.sub s 1 1) in
  let arg () = sub_from s 3 in
  match s.[0] with
  | 's' -> [TSend (x (), bytes_of_hex (arg ()))]
  | 'f' -> [TFin (x ())]
  | 'r' -> [TRead (x (), n_of_string (arg ()))]
  | 'w' -> [TWrote (x ())]
  | 'e' -> [TReadErr (x ())]
  | 'x' -> [TClosed (x ())]
  | _ -> failwith "tev"

let () =
  reg "pipe.run" (fun (pf :: reqs :: gate :: evs) ->
      flush stdout;
      let pfn = n_of_string pf in
      let rl = List.map parse_req (split_on ',' reqs) in
      let tbl = List.map (fun (r, _) -> (string_of_n r.rq_id, r)) rl in
      let events = List.map (parse_pev tbl) evs in
      let reads = List.filter (function ERead _ -> true | _ -> false) events in
      let c_early = prun pfn reads conn0 in
      let early = List.filter (fun i -> List.exists (fun (r, m) -> m && r.rq_id = i) rl) (pipe_ids c_early) in
      let c1 = prun pfn events conn0 in
      let total = List.fold_left (fun a (r, _) -> a + 2 * List.length r.rq_resp + 4) 8 rl in
      let c2 = drain (nat_of_int total) pfn c1 in
      let runs = rle c2.c_out [] in
      "resp=" ^ (if runs = [] then "-" else String.concat "," (List.map (fun (b, k) -> string_of_n b ^ "*" ^ string_of_n k) runs))
      ^ " closed=" ^ b2s (not c2.c_open)
      ^ " early=" ^ (if gate <> "1" then "-" else if early = [] then "none" else String.concat "," (List.map string_of_n early))
      ^ " crash=" ^ b2s c2.c_crashed ^ " rest=0");
  reg "tun.run" (fun (racy :: early :: evs) ->
      flush stdout;
      let t = ref (tun_start (bytes_of_hex early)) in
      List.iter (fun e ->
          if e = "z" then t := tsettle (nat_of_int 64) !t
          else t := trun (parse_tev e) !t) evs;
      let t = !t in
      "c2s=" ^ (if racy = "c2s" then "P" else dirsum t.t_sv.s_deliv)
      ^ " s2c=" ^ (if racy = "s2c" then "P" else dirsum t.t_cl.s_deliv)
      ^ " ceof=" ^ b2s (not t.t_cl.s_open) ^ " seof=" ^ b2s (not t.t_sv.s_open)
      ^ " crash=" ^ b2s t.t_crashed)
