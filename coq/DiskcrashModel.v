(* DiskcrashModel.v — executable model of a rock cache_dir across a crash or a clean restart (C16, C17).

   Transcribed from
     src/fs/rock/RockIoState.cc   tryWrite / writeToBuffer / writeToDisk / close(wroteAll)   (the writer)
     src/fs/rock/RockSwapDir.cc   createStoreIO, reserveSlotForWriting, handleWriteCompletionSuccess,
                                  noteFreeMapSlice, evictCached/evictIfFound                  (slot allocation, map)
     src/ipc/mem/PageStack.cc     IdSet::pop (a single process always gets the LOWEST free id)
     src/ipc/StoreMap.cc          openForWritingAt (frees whatever occupies the anchor), freeChain, fileNoByKey
     src/fs/rock/RockRebuild.cc   loadOneSlot, useNewSlot, startNewEntry, primeNewEntry, addSlotToEntry, chainSlots,
                                  mapSlot, importEntry, finalizeOrThrow, finalizeOrFree, freeBadEntry, freeSlot,
                                  validateOneEntry                                            (recovery)
     src/store_rebuild.cc         storeRebuildParseEntry (size checks)
     src/store/SwapMetaIn.cc      UnpackIndexSwapMeta (rebuild), UnpackHitSwapMeta/CheckSwapMetaKey (swap-in)
     src/fs/rock/RockIoState.cc   read_ (a hit is the walk of the mapped chain)

   Shape (DESIGN.md, "crash-point quantification"):
     db image  = function slot id -> cell (40-byte DbCellHeader + payload area)
     workload  = list of ops (store / purge); the in-memory map + free-slot set turn every store into a
                 SESSION = key, object, chain of slot ids; a session is a list of primitive slot WRITES in chain
                 order, entrySize only in the last one
     crash     = the first n writes of the concatenated write list reach the disk, optionally followed by a torn
                 (n+1)-th write of which only t bytes arrive
     recovery  = the rebuild scan + validation over the image
     hit       = key lookup in the rebuilt map, walk of the chain, swap-in validation of the metadata prefix

   Bytes are symbolic: the atom (o, i) is "byte i of the stored stream (swap metadata + HTTP reply) of object o";
   object 0 is the zero byte of the pre-initialised db file.  A hit is right iff its atoms are exactly
   (o,0) .. (o,len o - 1) for one object o.  The swap metadata of object o occupies its first o_mlen atoms.

   Not modelled: SMP mode / asynchronous disk I/O (in -N mode BlockingFile completes every write before the
   next one is issued), concurrent readers (a locked anchor is not freed), running out of slots (purgeOne),
   the header updater (createUpdateIO), writes torn inside one header field. *)
Require Import SquidV.Bytes.
Require Import SquidV.gen.DiskCrash_gen.
Local Open Scope Z_scope.

(* ---------- keys, atoms ---------- *)
Definition key := (Z * Z)%type.
Definition key_eqb (a b : key) : bool := (fst a =? fst b) && (snd a =? snd b).
Definition two64 : Z := 18446744073709551616.
(* Ipc::StoreMap::fileNoByKey: (k[0] + k[1]) % entryLimit, the sum wrapping at 2^64 *)
Definition fileno_of (N : Z) (k : key) : Z := ((fst k + snd k) mod two64) mod N.

Definition atom := (Z * Z)%type.
Definition azero : atom := (0, 0).
Definition atom_eqb (a b : atom) : bool := (fst a =? fst b) && (snd a =? snd b).

Fixpoint zseq (start : Z) (n : nat) : list Z :=
  match n with O => [] | S k => start :: zseq (start + 1) k end.

(* ---------- the db image ---------- *)
Record hdr := mkHdr { h_key : key; h_esz : Z; h_psz : Z; h_ver : Z; h_first : Z; h_next : Z }.
Record cell := mkCell { c_hdr : hdr; c_area : list atom }.   (* area: bytes ever written after the header; zeros beyond *)
Definition hdr0 : hdr := mkHdr (0, 0) 0 0 0 0 0.
Definition cell0 : cell := mkCell hdr0 [].
Definition disk := Z -> cell.
Definition disk0 : disk := fun _ => cell0.
Definition upd {A} (f : Z -> A) (k : Z) (v : A) : Z -> A := fun x => if x =? k then v else f x.

(* read the first n bytes of a payload area *)
Definition read_area (n : Z) (a : list atom) : list atom :=
  firstn (Z.to_nat n) a ++ repeat azero (Z.to_nat n - length a).

(* ---------- primitive writes ---------- *)
Record wr := mkWr { w_slot : Z; w_hdr : hdr; w_data : list atom }.
Definition wr_len (w : wr) : Z := dc_cell_header_size + Z.of_nat (length (w_data w)).

Definition apply_wr (d : disk) (w : wr) : disk :=
  upd d (w_slot w) (mkCell (w_hdr w) (w_data w ++ skipn (length (w_data w)) (c_area (d (w_slot w))))).

(* only the first t bytes of the write reach the disk: header fields that end at or before byte t are new, the
   others keep their old value (exact for t on a field boundary or t >= 40); payload bytes likewise *)
Definition mix_hdr (t : Z) (old new : hdr) : hdr :=
  mkHdr (if dc_end_key0 <=? t then fst (h_key new) else fst (h_key old),
         if dc_end_key1 <=? t then snd (h_key new) else snd (h_key old))
        (if dc_end_entrySize <=? t then h_esz new else h_esz old)
        (if dc_end_payloadSize <=? t then h_psz new else h_psz old)
        (if dc_end_version <=? t then h_ver new else h_ver old)
        (if dc_end_firstSlot <=? t then h_first new else h_first old)
        (if dc_end_nextSlot <=? t then h_next new else h_next old).

Definition apply_torn (d : disk) (w : wr) (t : Z) : disk :=
  let old := d (w_slot w) in
  let m := Z.to_nat (Z.max 0 (t - dc_cell_header_size)) in
  upd d (w_slot w) (mkCell (mix_hdr t (c_hdr old) (w_hdr w)) (firstn m (w_data w) ++ skipn m (c_area old))).

Definition disk_after (ws : list wr) : disk := fold_left apply_wr ws disk0.

(* the image found after a crash: n complete writes, then (torn = Some t) t bytes of the next one *)
Definition crash_disk (ws : list wr) (n : nat) (torn : option Z) : disk :=
  let d := disk_after (firstn n ws) in
  match torn, nth_error ws n with
  | Some t, Some w => apply_torn d w t
  | _, _ => d
  end.

(* ---------- objects and sessions ---------- *)
Record oinfo := mkOinfo { o_key : key; o_len : Z; o_mlen : Z; o_ssz : Z }.
   (* key, stream length, swap metadata length, swap_file_sz value stamped INSIDE the metadata (STORE_META_STD_LFS) *)

Record session := mkSess { s_key : key; s_obj : Z; s_ver : Z; s_len : Z; s_mlen : Z; s_ssz : Z; s_slots : list Z }.

Definition stream (o : Z) (len : Z) : list atom := map (fun i => (o, i)) (zseq 0 (Z.to_nat len)).

(* IoState::writeToBuffer fills theBuf up to the slot capacity; tryWrite writes a full buffer only when more data
   follows; close(wroteAll) flushes the rest: pieces of P bytes, the last one 1..P bytes long *)
Fixpoint chunks_aux (fuel : nat) (p : nat) (l : list atom) : list (list atom) :=
  match fuel with
  | O => []
  | S f => match l with [] => [] | _ :: _ => firstn p l :: chunks_aux f p (skipn p l) end
  end.
Definition chunks (P : Z) (l : list atom) : list (list atom) := chunks_aux (length l) (Z.to_nat P) l.

(* IoState::writeToDisk: header.key, firstSlot = sidFirst, nextSlot = sidNext (-1 on the last write),
   payloadSize, entrySize = eof ? offset_ : 0, version = anchor timestamp *)
Fixpoint mk_writes (k : key) (ver first total : Z) (chs : list (list atom)) (slots : list Z) : list wr :=
  match chs, slots with
  | ch :: chs', c :: slots' =>
    let nxt := match chs', slots' with _ :: _, c' :: _ => c' | _, _ => -1 end in
    let esz := match chs' with [] => total | _ :: _ => 0 end in
    mkWr c (mkHdr k esz (Z.of_nat (length ch)) ver first nxt) ch :: mk_writes k ver first total chs' slots'
  | _, _ => []
  end.

Definition writes_of (P : Z) (s : session) : list wr :=
  mk_writes (s_key s) (s_ver s) (hd 0 (s_slots s)) (s_len s) (chunks P (stream (s_obj s) (s_len s))) (s_slots s).

Definition all_writes (P : Z) (ss : list session) : list wr := concat (map (writes_of P) ss).

Definition oinfo_of (ss : list session) (o : Z) : option oinfo :=
  match find (fun s => s_obj s =? o) ss with
  | Some s => Some (mkOinfo (s_key s) (s_len s) (s_mlen s) (s_ssz s))
  | None => None
  end.

(* ---------- the running cache: map + free slots (what decides which slots a store writes) ---------- *)
Inductive astate := AEmpty | AReadable | AMarked.   (* AMarked = waitingToBeFreed: unreadable, chain still allocated *)
Record anchor := mkAnchor { a_state : astate; a_key : key; a_start : Z; a_swapsz : Z }.
Record slice := mkSlice { sl_size : Z; sl_next : Z }.
Record mem := mkMem { m_anch : Z -> anchor; m_sl : Z -> slice; m_free : Z -> bool }.
Definition anchor0 : anchor := mkAnchor AEmpty (0, 0) 0 0.
Definition slice0 : slice := mkSlice 0 (-1).
(* after squid -z and the first start: the rebuild of the zeroed file pushed every slot *)
Definition mem0 : mem := mkMem (fun _ => anchor0) (fun _ => slice0) (fun _ => true).

(* IdSet::pop in one process: left subtree first, rightmost set bit of the leaf first = the lowest free id *)
Definition pop_min (N : Z) (m : mem) : option (Z * mem) :=
  match find (fun i => m_free m i) (zseq 0 (Z.to_nat N)) with
  | Some i => Some (i, mkMem (m_anch m) (m_sl m) (upd (m_free m) i false))
  | None => None
  end.

(* StoreMap::freeChainAt with noteFreeMapSlice: every slice of the chain goes back to the free set *)
Fixpoint free_chain (fuel : nat) (i : Z) (m : mem) : mem :=
  if i <? 0 then m else
  match fuel with
  | O => m
  | S k => let nxt := sl_next (m_sl m i) in
           free_chain k nxt (mkMem (m_anch m) (upd (m_sl m) i slice0) (upd (m_free m) i true))
  end.

(* StoreMap::freeChain + Anchor::rewind on an unlocked entry *)
Definition free_anchor (N : Z) (f : Z) (m : mem) : mem :=
  match a_state (m_anch m f) with
  | AEmpty => m
  | _ =>
    let m1 := free_chain (S (Z.to_nat N)) (a_start (m_anch m f)) m in
    mkMem (upd (m_anch m1) f anchor0) (m_sl m1) (m_free m1)
  end.

(* the pops of one store, in the order tryWrite/writeToDisk make them: for a multi-slot object the FIRST overflow
   reserves sidNext before writeToDisk reserves sidFirst, so the chain starts at the second-lowest free slot *)
Fixpoint pop_n (N : Z) (n : nat) (m : mem) : option (list Z * mem) :=
  match n with
  | O => Some ([], m)
  | S k => match pop_min N m with
           | None => None
           | Some (i, m1) => match pop_n N k m1 with None => None | Some (l, m2) => Some (i :: l, m2) end
           end
  end.

Definition chain_order (pops : list Z) : list Z :=
  match pops with a :: b :: r => b :: a :: r | _ => pops end.

(* link the chain in the map as handleWriteCompletionSuccess does *)
Fixpoint link_chain (slots : list Z) (sizes : list Z) (sl : Z -> slice) : Z -> slice :=
  match slots, sizes with
  | c :: slots', z :: sizes' =>
    let nxt := match slots' with c' :: _ => c' | [] => -1 end in
    link_chain slots' sizes' (upd sl c (mkSlice z nxt))
  | _, _ => sl
  end.

Inductive op :=
| OStore (k : key) (o ver len mlen ssz : Z)    (* a cacheable miss (or reload) for this key completes swap-out *)
| OPurge (k : key).                            (* PURGE: StoreMap::freeEntry on an anchor the purging request itself holds
                                                  open for reading only MARKS it (waitingToBeFreed); its slots return to
                                                  the free set when the anchor is next opened for writing *)

Definition nslots (P len : Z) : Z := (len + P - 1) / P.

(* one operation: new map/free state and, for a store, the session it wrote *)
Definition step_op (N P : Z) (m : mem) (x : op) : mem * option session :=
  match x with
  | OPurge k =>
    let f := fileno_of N k in
    let a := m_anch m f in
    if match a_state a with AReadable => key_eqb (a_key a) k | _ => false end
    then (mkMem (upd (m_anch m) f (mkAnchor AMarked (a_key a) (a_start a) (a_swapsz a))) (m_sl m) (m_free m), None)
    else (m, None)
  | OStore k o ver len mlen ssz =>
    let f := fileno_of N k in
    (* openForWritingAt(fileno, overwriteExisting = true) frees whatever occupies (or is marked at) the anchor: the
       previous version of this key, or another key hashing to the same fileno *)
    let m1 := free_anchor N f m in
    match pop_n N (Z.to_nat (nslots P len)) m1 with
    | None => (m1, None)      (* out of slots: not modelled (ample space) *)
    | Some (pops, m2) =>
      let slots := chain_order pops in
      let sizes := map (fun ch => Z.of_nat (length ch)) (chunks P (stream o len)) in
      let a := mkAnchor AReadable k (hd 0 slots) len in
      (mkMem (upd (m_anch m2) f a) (link_chain slots sizes (m_sl m2)) (m_free m2),
       Some (mkSess k o ver len mlen ssz slots))
    end
  end.

Fixpoint run_ops (N P : Z) (m : mem) (ops : list op) : mem * list session :=
  match ops with
  | [] => (m, [])
  | x :: r =>
    let '(m1, so) := step_op N P m x in
    let '(m2, ss) := run_ops N P m1 r in
    (m2, match so with Some s => s :: ss | None => ss end)
  end.

Definition sessions_of (N P : Z) (ops : list op) : list session := snd (run_ops N P mem0 ops).

(* ---------- recovery: Rock::Rebuild ---------- *)
Inductive lestate := LeEmpty | LeLoading | LeLoaded | LeCorrupted.
(* LoadingEntry (state, anchored, size) + the StoreMap anchor (key, start, basics.swap_file_sz) of one fileno *)
Record lent := mkLent { le_state : lestate; le_anch : bool; le_size : Z; la_key : key; la_start : Z; la_swapsz : Z }.
(* LoadingSlot (more, mapped, finalized, freed) + the StoreMap slice of one slot id *)
Record lslot := mkLslot { ls_more : Z; ls_mapped : bool; ls_final : bool; ls_freed : bool; ls_size : Z; ls_next : Z }.
Record rst := mkRst { r_ent : Z -> lent; r_sl : Z -> lslot; r_nofuel : bool }.
Definition lent0 : lent := mkLent LeEmpty false 0 (0, 0) 0 0.
Definition lslot0 : lslot := mkLslot (-1) false false false 0 (-1).
Definition rst0 : rst := mkRst (fun _ => lent0) (fun _ => lslot0) false.

Definition set_ent (s : rst) (f : Z) (e : lent) : rst := mkRst (upd (r_ent s) f e) (r_sl s) (r_nofuel s).
Definition set_sl (s : rst) (i : Z) (x : lslot) : rst := mkRst (r_ent s) (upd (r_sl s) i x) (r_nofuel s).
Definition set_nofuel (s : rst) : rst := mkRst (r_ent s) (r_sl s) true.

Definition e_state (e : lent) v := mkLent v (le_anch e) (le_size e) (la_key e) (la_start e) (la_swapsz e).
Definition e_anch (e : lent) v := mkLent (le_state e) v (le_size e) (la_key e) (la_start e) (la_swapsz e).
Definition e_size (e : lent) v := mkLent (le_state e) (le_anch e) v (la_key e) (la_start e) (la_swapsz e).
Definition e_start (e : lent) v := mkLent (le_state e) (le_anch e) (le_size e) (la_key e) v (la_swapsz e).
Definition e_swapsz (e : lent) v := mkLent (le_state e) (le_anch e) (le_size e) (la_key e) (la_start e) v.
(* Anchor::rewind *)
Definition e_rewind (e : lent) := mkLent (le_state e) (le_anch e) (le_size e) (0, 0) 0 0.

Definition x_more (x : lslot) v := mkLslot v (ls_mapped x) (ls_final x) (ls_freed x) (ls_size x) (ls_next x).
Definition x_final (x : lslot) := mkLslot (ls_more x) (ls_mapped x) true (ls_freed x) (ls_size x) (ls_next x).
Definition x_freed (x : lslot) := mkLslot (ls_more x) (ls_mapped x) (ls_final x) true (ls_size x) (ls_next x).
Definition x_map (x : lslot) sz nx := mkLslot (ls_more x) true (ls_final x) (ls_freed x) sz nx.

(* DbCellHeader::empty / ::sane(slotSize, slotLimit) with P = slotSize - sizeof(DbCellHeader) *)
Definition hdr_empty (h : hdr) : bool := (h_first h =? 0) && (h_next h =? 0) && (h_psz h =? 0).
Definition hdr_sane (N P : Z) (h : hdr) : bool :=
  (0 <=? h_first h) && (h_first h <? N) && (-1 <=? h_next h) && (h_next h <? N) &&
  (0 <? h_ver h) && (0 <? h_psz h) && (h_psz h <=? P).

(* the atoms (o, off), (o, off+1), ... *)
Fixpoint is_run (o off : Z) (n : nat) (l : list atom) : bool :=
  match n with
  | O => true
  | S k => match l with [] => false | a :: r => atom_eqb a (o, off) && is_run o (off + 1) k r end
  end.

(* Store::UnpackIndexSwapMeta / UnpackHitSwapMeta on a buffer: the metadata of some object must be there in full *)
Definition parse_meta (oi : Z -> option oinfo) (buf : list atom) : option oinfo :=
  match buf with
  | (o, 0) :: _ =>
    match oi o with
    | Some info => if (0 <? o_mlen info) && is_run o 0 (Z.to_nat (o_mlen info)) buf then Some info else None
    | None => None
    end
  | _ => None
  end.

(* ZeroedSlot: ten zero bytes *)
Definition zeroed (buf : list atom) : bool :=
  (10 <=? length buf)%nat && forallb (fun a => fst a =? 0) (firstn 10 buf).

Section Rebuild.
Variables (N P : Z) (oi : Z -> option oinfo) (d : disk).

Definition fuelN : nat := S (Z.to_nat N).

(* freeSlot / freeUnusedSlot *)
Definition free_slot (i : Z) (s : rst) : rst := set_sl s i (x_freed (r_sl s i)).

(* freeBadEntry: free every slot on the entry's [more] list, then StoreMap::forgetWritingEntry *)
Fixpoint free_more (fuel : nat) (i : Z) (s : rst) : rst :=
  if i <? 0 then s else
  match fuel with
  | O => set_nofuel s
  | S k => let nxt := ls_more (r_sl s i) in free_more k nxt (free_slot i s)
  end.

Definition free_bad_entry (f : Z) (s : rst) : rst :=
  let e := r_ent s f in
  let s1 := free_more fuelN (la_start e) (set_ent s f (e_state e LeCorrupted)) in
  set_ent s1 f (e_rewind (r_ent s1 f)).

(* the buffer importEntry sees: what is left of the SM_PAGE_SIZE bytes read at the slot after the cell header *)
Definition import_buf (i : Z) : list atom :=
  read_area (Z.min P (dc_page_size - dc_cell_header_size)) (c_area (d i)).

(* importEntry + storeRebuildParseEntry: the new basics.swap_file_sz, or None = "corrupted metainfo" *)
Definition import_entry (i : Z) (h : hdr) (e : lent) : option Z :=
  let known := if 0 <? h_esz h then h_esz h else la_swapsz e in
  let buf := import_buf i in
  if zeroed buf then None else
  match parse_meta oi buf with
  | None => None
  | Some info =>
    let ssz := o_ssz info in
    if 0 <? known then
      if ssz =? 0 then Some known
      else if ssz =? (known - o_mlen info) mod two64 then Some known
      else if ssz =? known then Some ssz
      else None
    else Some ssz
  end.

Inductive wres := WDone (slot sum : Z) (s : rst) | WThrow (s : rst) | WNoFuel (s : rst).

(* the loop of finalizeOrThrow; loadingSlot() throws for ids beyond loadingPos *)
Fixpoint fin_walk (fuel : nat) (pos lesize : Z) (slot sum : Z) (s : rst) : wres :=
  if (slot <? 0) || negb (sum <? lesize) then WDone slot sum s else
  match fuel with
  | O => WNoFuel s
  | S k =>
    if negb ((slot <? N) && (slot <=? pos)) then WThrow s else
    let x := r_sl s slot in
    if ls_final x then WThrow s else
    if negb (ls_mapped x) then WThrow s else
    if ls_freed x then WThrow s else
    let s1 := set_sl s slot (x_final x) in
    if ls_size x <=? 0 then WThrow s1 else
    fin_walk k pos lesize (ls_next x) (sum + ls_size x) s1
  end.

(* finalizeOrFree *)
Definition finalize_or_free (pos f : Z) (s : rst) : rst :=
  let e := r_ent s f in
  if le_size e <=? 0 then free_bad_entry f s else
  match fin_walk fuelN pos (le_size e) (la_start e) 0 s with
  | WDone slot sum s1 =>
    if (slot <? 0) && (sum =? le_size e) then
      let e1 := r_ent s1 f in
      let e2 := if la_swapsz e1 =? 0 then e_swapsz e1 (le_size e1) else e1 in
      set_ent s1 f (e_state e2 LeLoaded)
    else free_bad_entry f s1
  | WThrow s1 => free_bad_entry f s1
  | WNoFuel s1 => set_nofuel s1
  end.

(* addSlotToEntry, in four pieces: chainSlots; the common tail (overflow check, mapSlot, early finalisation);
   the inode branch (header.firstSlot == slotId); the whole *)
Definition chain_slot (f i : Z) (s : rst) : rst :=
  let e := r_ent s f in
  if le_anch e then
    let ino := la_start e in
    let s' := set_sl s i (x_more (r_sl s i) (ls_more (r_sl s ino))) in
    set_sl s' ino (x_more (r_sl s' ino) i)
  else
    set_ent (set_sl s i (x_more (r_sl s i) (la_start e))) f (e_start e i).

Definition add_tail (pos f i : Z) (h : hdr) (s3 : rst) : rst :=
  let e3 := r_ent s3 f in
  let total := la_swapsz e3 in
  if (0 <? total) && (total <? le_size e3) then free_bad_entry f s3 else
  let s4 := set_sl s3 i (x_map (r_sl s3 i) (h_psz h) (h_next h)) in     (* mapSlot *)
  if (0 <? total) && (le_size e3 =? total) then finalize_or_free pos f s4 else s4.

Definition add_inode (pos f i : Z) (h : hdr) (s2 : rst) : rst :=
  let e2 := r_ent s2 f in
  if le_anch e2 then free_bad_entry f s2                                 (* inode conflict *)
  else
    let e3 := e_anch e2 true in
    match import_entry i h e3 with
    | None => free_bad_entry f (set_ent s2 f e3)                         (* corrupted metainfo *)
    | Some ssz =>
      let e4 := e_swapsz e3 ssz in
      if 0 <? h_esz h then
        if la_swapsz e4 =? 0 then add_tail pos f i h (set_ent s2 f (e_swapsz e4 (h_esz h)))
        else if negb (h_esz h =? la_swapsz e4) then free_bad_entry f (set_ent s2 f e4)   (* size mismatch *)
        else add_tail pos f i h (set_ent s2 f e4)
      else add_tail pos f i h (set_ent s2 f e4)
    end.

Definition add_slot (pos f i : Z) (h : hdr) (s : rst) : rst :=
  let s1 := chain_slot f i s in
  let e1 := r_ent s1 f in
  let s2 := set_ent s1 f (e_size e1 (le_size e1 + h_psz h)) in            (* le.size += header.payloadSize *)
  if h_first h =? i then add_inode pos f i h s2 else add_tail pos f i h s2.

(* useNewSlot / startNewEntry / primeNewEntry *)
Definition use_new_slot (pos i : Z) (h : hdr) (s : rst) : rst :=
  let f := fileno_of N (h_key h) in
  let e := r_ent s f in
  match le_state e with
  | LeEmpty => add_slot pos f i h (set_ent s f (mkLent LeLoading false 0 (h_key h) (-1) 0))
  | LeLoading =>
    if key_eqb (la_key e) (h_key h) then add_slot pos f i h s
    else free_slot i (free_bad_entry f s)                                  (* duplicated *)
  | LeLoaded =>
    (* map->freeEntry(fileno): the chain goes back to the free set, the anchor is rewound *)
    free_slot i (set_ent s f (e_rewind (e_state e LeCorrupted)))
  | LeCorrupted => free_slot i s
  end.

(* loadOneSlot *)
Definition load_one (s : rst) (i : Z) : rst :=
  let h := c_hdr (d i) in
  if hdr_empty h then free_slot i s
  else if negb (hdr_sane N P h) then free_slot i s
  else use_new_slot i i h s.

(* validateOneEntry *)
Definition validate_one (s : rst) (f : Z) : rst :=
  match le_state (r_ent s f) with
  | LeLoading => finalize_or_free N f s
  | _ => s
  end.

Definition rebuild : rst :=
  let ids := zseq 0 (Z.to_nat N) in
  fold_left validate_one ids (fold_left load_one ids rst0).

(* ---------- a hit after recovery ---------- *)
(* IoState::read_: walk the mapped chain, [size] bytes of every slot *)
Fixpoint read_chain (fuel : nat) (s : rst) (i : Z) : list atom :=
  if i <? 0 then [] else
  match fuel with
  | O => []
  | S k => read_area (ls_size (r_sl s i)) (c_area (d i)) ++ read_chain k s (ls_next (r_sl s i))
  end.

(* Rock::SwapDir::get -> openForReading (key must match), then store_client: UnpackHitSwapMeta on the first
   page (CheckSwapMetaKey: the stored key must be the requested one); None = miss *)
Definition hit (s : rst) (k : key) : option (list atom) :=
  let f := fileno_of N k in
  let e := r_ent s f in
  match le_state e with
  | LeLoaded =>
    if key_eqb (la_key e) k then
      let content := firstn (Z.to_nat (la_swapsz e)) (read_chain fuelN s (la_start e)) in
      match parse_meta oi (firstn (Z.to_nat dc_page_size) content) with
      | Some info =>
        (* the reply header of that object frames the message: the client reads Content-Length body bytes, i.e. at
           most o_len bytes of the stored stream *)
        if key_eqb (o_key info) k then Some (firstn (Z.to_nat (o_len info)) content) else None
      | None => None
      end
    else None
  | _ => None
  end.

End Rebuild.

(* ---------- whole experiment: workload, crash point, recovery, queries ---------- *)
Definition recovered (N P : Z) (ss : list session) (n : nat) (torn : option Z) : rst :=
  rebuild N P (oinfo_of ss) (crash_disk (all_writes P ss) n torn).

Definition hit_after (N P : Z) (ss : list session) (n : nat) (torn : option Z) (k : key) : option (list atom) :=
  let dk := crash_disk (all_writes P ss) n torn in
  hit N (oinfo_of ss) dk (rebuild N P (oinfo_of ss) dk) k.

(* what the theorems compare a hit with: the complete stored stream of one session *)
Definition full_stream (s : session) : list atom := stream (s_obj s) (s_len s).

(* number of primitive writes of the sessions before index j, and the session's own count *)
Definition nwrites (P : Z) (s : session) : nat := length (writes_of P s).

(* how many writes of each session are among the first n writes of the workload *)
Fixpoint split_n (P : Z) (ss : list session) (n : nat) : list (session * nat) :=
  match ss with
  | [] => []
  | s :: r => (s, Nat.min n (nwrites P s)) :: split_n P r (n - nwrites P s)
  end.

(* run-length form of a content for printing: (object, first offset, count) *)
Fixpoint segments (l : list atom) (acc : list (Z * Z * Z)) : list (Z * Z * Z) :=
  match l with
  | [] => rev acc
  | (o, i) :: r =>
    match acc with
    | (o', i', n') :: acc' =>
      if (o =? o') && ((o =? 0) || (i =? i' + n')) then segments r ((o', i', n' + 1) :: acc')
      else segments r ((o, i, 1) :: acc)
    | [] => segments r [(o, i, 1)]
    end
  end.

Definition run_case (N P : Z) (ops : list op) (n : nat) (torn : option Z) (queries : list key)
  : list (Z * Z) * bool * list (option (list (Z * Z * Z))) :=
  let ss := sessions_of N P ops in
  let ws := all_writes P ss in
  let dk := crash_disk ws n torn in
  let r := rebuild N P (oinfo_of ss) dk in
  (map (fun w => (w_slot w, wr_len w)) ws, r_nofuel r,
   map (fun k => match hit N (oinfo_of ss) dk r k with Some c => Some (segments c []) | None => None end) queries).
