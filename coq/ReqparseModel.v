(* ReqparseModel.v — src/http/one/RequestParser.cc and the parts of
   src/http/one/Parser.cc, src/mime_header.cc, src/http/RequestMethod.cc it runs
   (skipGarbageLines, parseRequestFirstLine and its field parsers, doParse,
   grabMimeBlock, cleanMimePrefix, unfoldMime, headersEnd, HttpRequestMethod(SBuf)),
   over list N, plus the caller's read loop (ConnStateData::parseHttpRequest:
   inBuf = parser.remaining(), next read appended, parse again while needsMoreData()).

   The parser object is the record [rst]; buf_ is threaded explicitly.
   Constants and per-byte sets come from the regenerated tables
   (gen/ReqTabs_gen.v, gen/CharSets_gen.v).  [relaxed] is
   Config.onoff.relaxed_header_parser != 0, [limit] is Config.maxRequestHeaderSize.

   Arithmetic note: SBuf::size_type sums (firstLineSize() + mimeHeaderBytes,
   buf_.length() + firstLineSize()) are modelled in N without the 2^32 wrap;
   an SBuf holds at most SBuf::maxSize = 0x0fffffff bytes, so they cannot wrap.
   Not modelled: parsed_/preserveParsed_ (a copy of the consumed bytes kept for
   on_unsupported_protocol; it does not influence the parse), debugs() output,
   hackExpectsMime_ (only ever set by the response parser). *)
Require Import SquidV.Bytes SquidV.TokModel SquidV.Incremental.
Require Import SquidV.gen.CharSets_gen SquidV.gen.ReqTabs_gen.
Local Open Scope N_scope.

(* Http::One::ParseState values used by the request parser *)
Inductive stage_t := SNone | SFirst | SMime | SDone.

Record rst := {
  r_stage : stage_t;      (* parsingStage_ *)
  r_mid : N;              (* method_.theMethod *)
  r_mimg : bytes;         (* method_.image() *)
  r_uri : bytes;          (* uri_ *)
  r_http : bool;          (* msgProtocol_.protocol == AnyP::PROTO_HTTP (else PROTO_NONE) *)
  r_major : N;            (* msgProtocol_.major *)
  r_minor : N;            (* msgProtocol_.minor *)
  r_mime : bytes;         (* mimeHeaderBlock_ *)
  r_code : N              (* parseStatusCode *)
}.

(* a freshly constructed RequestParser *)
Definition rst0 : rst :=
  {| r_stage := SNone; r_mid := req_m_none; r_mimg := req_img_none; r_uri := [];
     r_http := false; r_major := 0; r_minor := 0; r_mime := []; r_code := rq_sc_none |}.

Definition set_stage (s : rst) (x : stage_t) : rst :=
  {| r_stage := x; r_mid := r_mid s; r_mimg := r_mimg s; r_uri := r_uri s; r_http := r_http s;
     r_major := r_major s; r_minor := r_minor s; r_mime := r_mime s; r_code := r_code s |}.
Definition set_method (s : rst) (m : N * bytes) : rst :=
  {| r_stage := r_stage s; r_mid := fst m; r_mimg := snd m; r_uri := r_uri s; r_http := r_http s;
     r_major := r_major s; r_minor := r_minor s; r_mime := r_mime s; r_code := r_code s |}.
Definition set_uri (s : rst) (u : bytes) : rst :=
  {| r_stage := r_stage s; r_mid := r_mid s; r_mimg := r_mimg s; r_uri := u; r_http := r_http s;
     r_major := r_major s; r_minor := r_minor s; r_mime := r_mime s; r_code := r_code s |}.
(* msgProtocol_ = Http::ProtocolVersion(ma, mi) *)
Definition set_proto (s : rst) (ma mi : N) : rst :=
  {| r_stage := r_stage s; r_mid := r_mid s; r_mimg := r_mimg s; r_uri := r_uri s; r_http := true;
     r_major := ma; r_minor := mi; r_mime := r_mime s; r_code := r_code s |}.
Definition set_mime (s : rst) (m : bytes) : rst :=
  {| r_stage := r_stage s; r_mid := r_mid s; r_mimg := r_mimg s; r_uri := r_uri s; r_http := r_http s;
     r_major := r_major s; r_minor := r_minor s; r_mime := m; r_code := r_code s |}.
Definition set_code (s : rst) (c : N) : rst :=
  {| r_stage := r_stage s; r_mid := r_mid s; r_mimg := r_mimg s; r_uri := r_uri s; r_http := r_http s;
     r_major := r_major s; r_minor := r_minor s; r_mime := r_mime s; r_code := c |}.

Definition stage_eqb (a b : stage_t) : bool :=
  match a, b with
  | SNone, SNone | SFirst, SFirst | SMime, SMime | SDone, SDone => true
  | _, _ => false
  end.

(* Parser::needsMoreData() *)
Definition needs_more (s : rst) : bool := negb (stage_eqb (r_stage s) SDone).

(* Parser::DelimiterCharacters() / RequestParser::RequestTargetCharacters() *)
Definition delim (relaxed : bool) : cset :=
  if relaxed then cs_relaxed_Delimiter else cs_strict_Delimiter.
Definition target_chars (relaxed : bool) : cset :=
  if relaxed then cs_relaxed_RequestTarget else cs_strict_RequestTarget.

(* string constants of RequestParser.cc (function-local statics) *)
Definition http1p1 : bytes := [72;84;84;80;47;49;46;49].     (* "HTTP/1.1" *)
Definition http1p0 : bytes := [72;84;84;80;47;49;46;48].     (* "HTTP/1.0" *)
Definition http_slash : bytes := [72;84;84;80;47].           (* "HTTP/" *)
Definition period : cset := fun c => c =? 46.                (* CharacterSet("Decimal point", ".") *)
Definition not_lf : cset := fun c => negb (cs_LF c).         (* CharacterSet::LF.complement() *)

(* ---------- HttpRequestMethod(const SBuf &) ---------- *)
(* SBuf::caseCmp: bytewise comparison after tolower() in the C locale *)
Definition lower (c : N) : N := if (65 <=? c) && (c <=? 90) then c + 32 else c.
Fixpoint ci_eqb (a b : bytes) : bool :=
  match a, b with
  | [], [] => true
  | x :: a', y :: b' => (lower x =? lower y) && ci_eqb a' b'
  | _, _ => false
  end.

(* the linear search for theMethod = 1 .. METHOD_ENUM_END-1 comparing image() with s
   (req_methods holds image() per id; for METHOD_OTHER that is the literal "METHOD_OTHER") *)
Fixpoint method_find (relaxed : bool) (s : bytes) (tbl : list (N * bytes)) : option (N * bytes) :=
  match tbl with
  | [] => None
  | (i, img) :: r =>
      if ci_eqb img s then
        if relaxed then Some (i, img)              (* relaxed parser allows mixed-case *)
        else if list_eqb img s then Some (i, img)
        else method_find relaxed s r
      else method_find relaxed s r
  end.

(* (theMethod, image()) *)
Definition method_of (relaxed : bool) (s : bytes) : N * bytes :=
  match s with
  | [] => (req_m_none, req_img_none)
  | _ :: _ =>
      match method_find relaxed s req_methods with
      | Some (i, img) => (i, img)                  (* theImage stays empty: image() = img *)
      | None => (req_m_other, s)                   (* theImage = s *)
      end
  end.

(* ---------- RequestParser::skipGarbageLines (relaxed parser only) ---------- *)
(* while (!empty && (buf[0]=='\n' || (buf[0]=='\r' && length>1 && buf[1]=='\n'))) consume(1) *)
Fixpoint skip_garbage (l : bytes) : bytes :=
  match l with
  | [] => []
  | c :: r =>
      if c =? 10 then skip_garbage r
      else if c =? 13 then
        match r with
        | d :: _ => if d =? 10 then skip_garbage r else l
        | [] => l
        end
      else l
  end.

(* ---------- RequestParser::skipDelimiter(count, where) ---------- *)
Definition skip_delimiter (relaxed : bool) (count : N) : bool :=
  if count =? 0 then false
  else if (1 <? count) && negb relaxed then false
  else true.

(* ---------- RequestParser::parseMethodField(tok) ---------- *)
(* Some t = true with the tokenizer left at t; None = false *)
Definition parse_method (relaxed : bool) (s : rst) (t : bytes) : rst * option bytes :=
  match tok_prefix cs_TCHAR req_max_method t with
  | None => (set_code s rq_sc_bad_request, None)
  | Some (m, t1) =>
      let s1 := set_method s (method_of relaxed m) in
      let '(cnt, t2) := tok_skipAll (delim relaxed) t1 in
      if skip_delimiter relaxed cnt then (s1, Some t2)
      else (set_code s1 rq_sc_bad_request, None)
  end.

(* ---------- RequestParser::skipTrailingCrs(tok) ---------- *)
Definition skip_trailing_crs (relaxed : bool) (s : rst) (t : bytes) : rst * option bytes :=
  if relaxed then (s, Some (snd (tok_skipAllTrailing cs_CR t)))
  else
    let '(ok, t1) := tok_skipOneTrailing cs_CR t in
    if ok then (s, Some t1) else (set_code s rq_sc_bad_request, None).

(* ---------- RequestParser::parseHttpVersionField(tok) ---------- *)
Definition digit_val (d : bytes) : N :=
  match d with c :: _ => c - 48 | [] => 0 end.       (* *rawContent() - '0' *)

(* the generic HTTP-name "/" DIGIT "." DIGIT branch, parsed from the end:
   Some (majorDigit, minorDigit, tokenizer) *)
Definition version_suffix (t : bytes) : option (bytes * bytes * bytes) :=
  match tok_suffix cs_DIGIT npos t with
  | None => None
  | Some (minorD, ta) =>
      let '(okp, tb) := tok_skipOneTrailing period ta in
      if okp then
        match tok_suffix cs_DIGIT npos tb with
        | None => None
        | Some (majorD, tc) =>
            let '(okh, td) := tok_skipSuffix http_slash tc in
            if okh then Some (majorD, minorD, td) else None
        end
      else None
  end.

Definition parse_version (s : rst) (t : bytes) : rst * option bytes :=
  let '(ok11, t11) := tok_skipSuffix http1p1 t in
  if ok11 then (set_proto s 1 1, Some t11) else
  let '(ok10, t10) := tok_skipSuffix http1p0 t in
  if ok10 then (set_proto s 1 0, Some t10) else
  match version_suffix t with
  | Some (majorD, minorD, td) =>
      let multi := (1 <? lenN majorD) || (1 <? lenN minorD) in
      (* '0.0' for unsupported multiple digit version numbers *)
      (set_proto s (if multi then 0 else digit_val majorD) (if multi then 0 else digit_val minorD), Some td)
  | None =>
      if r_mid s =? req_m_get
      then (set_proto s 0 9, Some t)                 (* tok = savedTok; HTTP/0.9 syntax *)
      else (set_code s rq_sc_bad_request, None)
  end.

(* ---------- RequestParser::parseUriField(tok) ---------- *)
Definition parse_uri (relaxed : bool) (s : rst) (t : bytes) : rst * option bytes :=
  match tok_prefix (target_chars relaxed) npos t with
  | None => (set_code s rq_sc_bad_request, None)
  | Some (u, t1) =>
      if req_max_uri <? lenN u then (set_code s rq_sc_uri_too_long, None)
      else (set_uri s u, Some t1)
  end.

(* ---------- the request-line proper (after the line has been isolated) ---------- *)
(* the part of parseRequestFirstLine() that runs on Tokenizer tok(line); true = all fields parsed *)
Definition parse_line (relaxed : bool) (s : rst) (line : bytes) : rst * bool :=
  match parse_method relaxed s line with
  | (s1, None) => (s1, false)
  | (s1, Some t1) =>
    match skip_trailing_crs relaxed s1 t1 with
    | (s2, None) => (s2, false)
    | (s2, Some t2) =>
      match parse_version s2 t2 with
      | (s3, None) => (s3, false)
      | (s3, Some t3) =>
        (* if (!http0() && !skipDelimiter(tok.skipAllTrailing(DelimiterCharacters()), ...)) *)
        let '(ok4, s4, t4) :=
          if r_major s3 =? 0 then (true, s3, t3)
          else let '(cnt, t) := tok_skipAllTrailing (delim relaxed) t3 in
               if skip_delimiter relaxed cnt then (true, s3, t)
               else (false, set_code s3 rq_sc_bad_request, t) in
        if ok4 then
          match parse_uri relaxed s4 t4 with
          | (s5, None) => (s5, false)
          | (s5, Some t5) =>
              match t5 with
              | [] => (set_code s5 rq_sc_okay, true)
              | _ :: _ => (set_code s5 rq_sc_bad_request, false)    (* garbage after URI *)
              end
          end
        else (s4, false)
      end
    end
  end.

(* ---------- RequestParser::parseRequestFirstLine ---------- *)
Inductive flret := FLok | FLmore | FLbad.        (* retcode 1 / 0 / -1 *)

(* lineTok.prefix(line, lineChars) && lineTok.skip('\n'): Some (line, lineTok.remaining()) *)
Definition find_line (buf : bytes) : option (bytes * bytes) :=
  match tok_prefix not_lf npos buf with
  | None => None
  | Some (line, r) =>
      let '(ok, rest) := tok_skipChar 10 r in
      if ok then Some (line, rest) else None
  end.

(* "who should we blame for our failure to parse this line?" *)
Definition blame (relaxed : bool) (s : rst) (buf : bytes) : rst :=
  match parse_method relaxed s buf with
  | (s1, None) => s1                                   (* bad method (or its delimiter) *)
  | (s1, Some _) => set_code s1 rq_sc_uri_too_long     (* assume it is the URI *)
  end.

Definition first_line (relaxed : bool) (limit : N) (s : rst) (buf : bytes) : flret * rst * bytes :=
  let parseable :=
    match find_line buf with
    | Some (line, rest) => if limit <=? lenN line then None else Some (line, rest)
    | None => None
    end in
  match parseable with
  | None =>
      if limit <=? lenN buf then (FLbad, blame relaxed s buf, buf)
      else (FLmore, s, buf)
  | Some (line, rest) =>
      match parse_line relaxed s line with
      | (s1, true) => (FLok, s1, rest)                 (* buf_ = lineTok.remaining() *)
      | (s1, false) => (FLbad, s1, buf)
      end
  end.

(* ---------- headersEnd (mime_header.cc) ---------- *)
(* state machine; returns (bytes scanned up to and including the terminator, containsObsFold);
   0 = no end of headers *)
Fixpoint headers_end_go (l : bytes) (state : N) (e : N) (fold : bool) : N * bool :=
  match l with
  | [] => (0, fold)
  | c :: r =>
      if state =? 0 then
        headers_end_go r (if c =? 10 then 1 else 0) (N.succ e) fold
      else if state =? 1 then
        if c =? 13 then headers_end_go r 2 (N.succ e) fold
        else if c =? 10 then (N.succ e, fold)
        else if (c =? 32) || (c =? 9) then headers_end_go r 0 (N.succ e) true
        else headers_end_go r 0 (N.succ e) fold
      else (* state 2 *)
        if c =? 10 then (N.succ e, fold)
        else headers_end_go r 0 (N.succ e) fold
  end.
Definition headers_end (l : bytes) : N * bool := headers_end_go l 1 0 false.

(* ---------- Parser::cleanMimePrefix ---------- *)
(* while (tok.skipOne(RelaxedDelimiterCharacters())) { skipAll(non-LF); skipOne(LF); } *)
Fixpoint clean_go (l : bytes) : bytes :=
  match l with
  | [] => []
  | c :: r => if cs_relaxed_Delimiter c then clean_line r else l
  end
with clean_line (l : bytes) : bytes :=
  match l with
  | [] => []
  | c :: r => if cs_LF c then clean_go r else clean_line r
  end.
Definition clean_mime_prefix (m : bytes) : bytes :=
  match clean_go m with [] => req_crlf | x => x end.

(* ---------- Parser::unfoldMime ---------- *)
(* The loop { blob = skipAll(nonCRLF); cr = skipAll(CR); lf = skipOne(LF);
   if (lf && skipAll(WSP)) emit blob ++ " " else emit blob ++ cr ++ lf } unrolled per byte:
   UBlob: copying blob bytes; UCr n: n CRs pending; ULf n: n CRs and one LF pending;
   UWsp: skipping the WSP run of an obs-fold. *)
Inductive ustate := UBlob | UCr (n : nat) | ULf (n : nat) | UWsp.
Definition crs (n : nat) : bytes := repeat 13 n.
Fixpoint unfold_go (l : bytes) (u : ustate) : bytes :=
  match l with
  | [] => match u with
          | UBlob | UWsp => []
          | UCr n => crs n
          | ULf n => crs n ++ [10]
          end
  | c :: r =>
      let fresh (pre : bytes) :=     (* a new loop iteration starts at c after emitting pre *)
        if cs_CR c then pre ++ unfold_go r (UCr 1)
        else if cs_LF c then pre ++ unfold_go r (ULf 0)
        else pre ++ c :: unfold_go r UBlob in
      match u with
      | UBlob => fresh []
      | UCr n => if cs_CR c then unfold_go r (UCr (S n))
                 else if cs_LF c then unfold_go r (ULf n)
                 else fresh (crs n)
      | ULf n => if cs_WSP c then 32 :: unfold_go r UWsp
                 else fresh (crs n ++ [10])
      | UWsp => if cs_WSP c then unfold_go r UWsp else fresh []
      end
  end.
Definition unfold_mime (m : bytes) : bytes := unfold_go m UBlob.

(* ---------- RequestParser::firstLineSize ---------- *)
Definition first_line_size (s : rst) : N := lenN (r_mimg s) + lenN (r_uri s) + req_fls_extra.

(* ---------- Parser::grabMimeBlock("Request", limit) ---------- *)
Definition grab_mime (limit : N) (s : rst) (buf : bytes) : bool * rst * bytes :=
  let expectMime := r_http s && (r_major s =? 1) in
  if expectMime then
    let '(e, fold) := headers_end buf in
    if e =? 0 then
      if limit <=? lenN buf + first_line_size s
      then (false, set_stage (set_code s rq_sc_header_too_large) SDone, buf)
      else (false, s, buf)
    else
      if limit <=? first_line_size s + e
      then (false, set_stage (set_code s rq_sc_header_too_large) SDone, dropN e buf)
      else
        let m1 := clean_mime_prefix (takeN e buf) in
        let m2 := if fold then unfold_mime m1 else m1 in
        (true, set_stage (set_mime s m2) SDone, dropN e buf)
  else (true, set_stage s SDone, buf).

(* ---------- RequestParser::doParse(aBuf) ---------- *)
(* result: (return value, parser state, buf_ = remaining()) *)

(* stage 3 and the final return *)
Definition do_mime (limit : N) (s : rst) (buf : bytes) : bool * rst * bytes :=
  if stage_eqb (r_stage s) SMime then
    let '(ok, s1, b1) := grab_mime limit s buf in
    if ok then (negb (needs_more s1), s1, b1)
    else
      (false,
       (if r_code s1 =? rq_sc_header_too_large then set_code s1 rq_sc_fields_too_large else s1),
       b1)
  else (negb (needs_more s), s, buf).

(* stage 2 *)
Definition do_first (relaxed : bool) (limit : N) (s : rst) (buf : bytes) : bool * rst * bytes :=
  if stage_eqb (r_stage s) SFirst then
    match first_line relaxed limit s buf with
    | (FLok, s1, b1) => do_mime limit (set_stage s1 SMime) b1
    | (FLbad, s1, b1) => (false, set_stage s1 SDone, b1)
    | (FLmore, s1, b1) => do_mime limit s1 b1
    end
  else do_mime limit s buf.

(* stage 1 *)
Definition do_parse (relaxed : bool) (limit : N) (s : rst) (aBuf : bytes) : bool * rst * bytes :=
  if stage_eqb (r_stage s) SNone then
    let b1 := if relaxed then skip_garbage aBuf else aBuf in
    (* a lone CR may be the beginning of a tolerated empty CRLF line: wait *)
    if relaxed && list_eqb b1 [13] then (false, s, b1)
    else
      match b1 with
      | [] => (false, s, b1)
      | _ :: _ => do_first relaxed limit (set_stage s SFirst) b1
      end
  else do_first relaxed limit s aBuf.

(* ---------- what callers see ---------- *)
(* the fields a caller reads after parse() *)
Record fields := {
  f_mid : N; f_mimg : bytes; f_uri : bytes; f_http : bool; f_major : N; f_minor : N; f_mime : bytes }.
Definition fields_of (s : rst) : fields :=
  {| f_mid := r_mid s; f_mimg := r_mimg s; f_uri := r_uri s; f_http := r_http s;
     f_major := r_major s; f_minor := r_minor s; f_mime := r_mime s |}.

(* outcome of one parse() call as used by ConnStateData::parseHttpRequest (type res of Incremental.v):
   More s keep = needsMoreData(): keep = remaining() becomes inBuf and is extended by the next read;
   Done f rest = parse() returned true: message fields + unconsumed bytes (body / next request);
   Bad (c, f)  = parse() returned false without needsMoreData(): parseStatusCode and the fields the
                 error path reads (method, URI, version); the caller discards the rest of its buffer *)
Definition outcome := res rst fields (N * fields).

Definition step (relaxed : bool) (limit : N) (s : rst) (b : bytes) : outcome :=
  let '(ok, s1, rest) := do_parse relaxed limit s b in
  if needs_more s1 then More s1 rest
  else if ok then Done (fields_of s1) rest
  else Bad (r_code s1, fields_of s1).

(* the caller's read loop (Incremental.drive): append the next segment to the retained bytes,
   parse, keep remaining(); stop as soon as the parser no longer needs data (later segments stay
   unconsumed behind the rest) *)
Definition drive (relaxed : bool) (limit : N) : rst -> bytes -> list bytes -> outcome :=
  Incremental.drive rst fields (N * fields) (step relaxed limit).

(* one-shot parse of a whole input by a fresh parser *)
Definition parse_whole (relaxed : bool) (limit : N) (input : bytes) : outcome :=
  step relaxed limit rst0 input.
(* incremental parse of the same input delivered as [segs] *)
Definition parse_segments (relaxed : bool) (limit : N) (segs : list bytes) : outcome :=
  drive relaxed limit rst0 [] segs.

(* the same loop with the raw observation of the last parse() call, for the correspondence run:
   (return value, state, remaining(), unfed segments) *)
Fixpoint drive_raw (relaxed : bool) (limit : N) (s : rst) (buf : bytes) (segs : list bytes)
  : bool * rst * bytes * bytes :=
  match segs with
  | [] => (false, s, buf, [])
  | x :: more =>
      let '(ok, s1, rest) := do_parse relaxed limit s (buf ++ x) in
      if needs_more s1 then
        match more with
        | [] => (ok, s1, rest, [])
        | _ :: _ => drive_raw relaxed limit s1 rest more
        end
      else (ok, s1, rest, concat more)
  end.

(* ---------- reply half of C62: the reply_header_max_size decision ---------- *)
(* Parser::grabMimeBlock("Response", Config.maxReplyHeaderSize) as reached from
   HttpStateData::processReplyHeader once the status line has been parsed:
   fls = ResponseParser::firstLineSize(), buf = the bytes after the status line.
   RHrelay n: the header block is the first n bytes of buf and the reply goes on to be processed;
   RHtoobig: parseStatusCode = scHeaderTooLarge => ERR_TOO_BIG, 502 to the client, nothing relayed;
   RHmore: wait for more bytes (the read buffer is capped at the same limit). *)
Inductive resp_head := RHrelay (n : N) | RHtoobig | RHmore.
Definition resp_head_decision (limit fls : N) (buf : bytes) : resp_head :=
  let '(e, _) := headers_end buf in
  if e =? 0 then (if limit <=? lenN buf + fls then RHtoobig else RHmore)
  else if limit <=? fls + e then RHtoobig else RHrelay e.
