(* SmugglingModel.v — request framing on a client connection, as it exists in /repo (property C03):

     src/client_side.cc          ConnStateData::parseRequests / parseHttpRequest (one request at a time:
                                 pipeline_prefetch is 0, the next message is parsed from what is left in inBuf
                                 after the previous one was answered), clientProcessRequest (framing verdict,
                                 "Do we expect a request-body?", expectRequestBody, handleRequestBodyData,
                                 handleChunkedRequestBody, abortChunkedRequestBody, finishDechunkingRequest),
                                 clientSetKeepaliveFlag, quitAfterError
     src/servers/Http1Server.cc  buildHttpRequest (version check, header compilation), processParsedRequest (Expect)
     src/HttpRequest.cc          parseHeader, checkEntityFraming
     src/http/Message.cc         hdrCacheInit (content_length), persistent(), content_length = 0 initially
     src/http.cc                 sendRequest (flags.chunked_request), httpBuildRequestHeader /
                                 copyOneHeaderFromClientsideRequestToUpstreamRequest for Content-Length and
                                 Transfer-Encoding

   composed from the component models that other properties validate against the same sources:
     ReqparseModel (C21/C22)   Http1::RequestParser::parse on the connection buffer
     HdrparseModel (C25) with ClenModel (C26)   HttpHeader::parse, Content-Length interpreter, getInt64
     ChunkedModel (C24)        Http1::TeChunkedParser::parse
     HopModel (C04)            strListIsMember / getList for the Connection tokens

   The whole client byte stream is in inBuf when parsing starts (the end-to-end run sends each stream in one
   segment, smaller than one read); segmentation independence of the request parser is C21's theorem.
   Executable definitions only.

   NOT modelled (the run ends with the distinct event EOther, about which no theorem says anything):
   CONNECT (tunnel), OPTIONS/TRACE (Max-Forwards rules), PRI; request-target validation (AnyP::Uri, C30) —
   the target is carried opaquely; Expect other than its accept/417 decision; request_body_max_size (off by
   default); BodyPipe back-pressure for bodies beyond c_cap (64 KB) bytes. *)
Require Import SquidV.Bytes.
Require SquidV.TokModel SquidV.Incremental SquidV.ReqparseModel SquidV.ClenModel SquidV.HdrparseModel
        SquidV.ChunkedModel SquidV.HopModel.
Require Import SquidV.gen.ReqTabs_gen SquidV.gen.Smuggling_gen.
Local Open Scope N_scope.


(* squid.conf as far as framing goes: relaxed_header_parser != 0, request_header_max_size,
   BodyPipe::MaxCapacity (space of an empty request body pipe) *)
Record cfg := { c_relaxed : bool; c_limit : N; c_cap : N }.

(* ---------- header lookups on the compiled request header ---------- *)
Definition nm (l : list nat) : bytes := map N.of_nat l.
Definition ID_EXPECT : N := fst (HdrparseModel.canon_name (nm [69;120;112;101;99;116]%nat)).
Definition w_close : bytes := nm [99;108;111;115;101]%nat.                                  (* "close" *)
Definition w_keep_alive : bytes := nm [107;101;101;112;45;97;108;105;118;101]%nat.          (* "keep-alive" *)
Definition w_100_continue : bytes := nm [49;48;48;45;99;111;110;116;105;110;117;101]%nat.   (* "100-continue" *)

Definition values_of (id : N) (es : list HdrparseModel.hentry) : list bytes :=
  map HdrparseModel.he_value (filter (fun e => HdrparseModel.he_id e =? id) es).

(* HttpHeader::getList(id): None = header absent; Some joined values (strListAdd) *)
Definition get_list (id : N) (es : list HdrparseModel.hentry) : option bytes :=
  if HdrparseModel.h_has_id id es then Some (HopModel.str_list_add_all [] (values_of id es)) else None.

(* httpHeaderHasConnDir(&header, directive); USE_HTTP_VIOLATIONS is defined in this build *)
Definition has_conn_dir (es : list HdrparseModel.hentry) (dir : bytes) : bool :=
  match get_list HopModel.ID_CONNECTION es with
  | Some l => HopModel.is_member l dir
  | None => match get_list HopModel.ID_PROXY_CONNECTION es with
            | Some l => HopModel.is_member l dir
            | None => false
            end
  end.

(* http_ver <= Http::ProtocolVersion(1,0) *)
Definition ver_le_10 (ma mi : N) : bool := (ma <? 1) || ((ma =? 1) && (mi =? 0)).

(* Http::Message::persistent() *)
Definition persistent (ma mi : N) (es : list HdrparseModel.hentry) : bool :=
  if ver_le_10 ma mi then has_conn_dir es w_keep_alive else negb (has_conn_dir es w_close).

(* HttpHeader::getInt64(CONTENT_LENGTH): httpHeaderParseOffset on the first entry, -1 if none / unparsable *)
Definition get_clen (es : list HdrparseModel.hentry) : Z :=
  match values_of HdrparseModel.ID_CL es with
  | [] => (-1)%Z
  | v :: _ => match ClenModel.parse_offset v with Some (x, _) => x | None => (-1)%Z end
  end.

(* ---------- HttpRequest::checkEntityFraming: 0 = scNone ---------- *)
Definition check_entity_framing (ma mi mid : N) (teUnsupported chunked conflicting : bool) (clen : Z) : N :=
  if teUnsupported then sm_sc_not_implemented
  else if chunked then 0
  else if conflicting then sm_sc_bad_request
  else if ver_le_10 ma mi then
    if (mid =? sm_m_post) || (mid =? sm_m_put) then (if (0 <=? clen)%Z then 0 else sm_sc_length_required)
    else if (mid =? sm_m_get) || (mid =? sm_m_head) then (if (clen <? 0)%Z then 0 else sm_sc_bad_request)
    else if (mid =? sm_m_delete) || (mid =? sm_m_link) || (mid =? sm_m_unlink)
         then (if (clen <? 0)%Z then 0 else sm_sc_bad_request)
    else 0
  else 0.

(* ---------- what reaches the next hop ---------- *)
(* upstream framing fields written by httpBuildRequestHeader: every Content-Length entry of the request header is
   cloned unless flags.chunked_request; then "Transfer-Encoding: chunked" is added *)
Record fwd := {
  fw_method : bytes;          (* method image *)
  fw_uri : bytes;             (* request-target as parsed *)
  fw_major : N; fw_minor : N; (* client's HTTP version *)
  fw_chunked : bool;          (* the client framed the body with Transfer-Encoding: chunked (header.chunked()) *)
  fw_clen : Z;                (* request->content_length after header compilation *)
  fw_body : bytes;            (* body bytes handed to the body pipe (de-chunked) *)
  fw_cl : list bytes;         (* Content-Length field values sent upstream *)
  fw_te : bool;               (* Transfer-Encoding: chunked sent upstream *)
  fw_head : N;                (* bytes of the connection buffer consumed by the request parser *)
  fw_used : N                 (* bytes of the connection buffer consumed by head and body together *)
}.

Inductive msg_res :=
| MWait                                          (* needsMoreData(): nothing is done until more bytes arrive *)
| MReject (code : N)                             (* Squid answers with an error and quitAfterError()s *)
| MReset                                         (* malformed chunked body seen before forwarding: comm_reset_close *)
| MForward (f : fwd) (persist : bool) (rest : bytes)   (* whole message received and forwarded; rest = inBuf after it *)
| MPartial (f : fwd)                             (* head (and the body bytes available) forwarded, body incomplete *)
| MOther                                         (* leaves the modelled path (see file header) *)
| MFuel.                                         (* chunked model out of fuel: excluded by theorems *)

Definition unmodelled_method (mid : N) : bool :=
  (mid =? sm_m_connect) || (mid =? sm_m_options) || (mid =? sm_m_trace) || (mid =? sm_m_pri).

Definition empty_hdr : HdrparseModel.hresult := {| HdrparseModel.hr_entries := []; HdrparseModel.hr_conflicting := false; HdrparseModel.hr_teUnsupported := false |}.

(* one turn of ConnStateData::parseRequests on inBuf = buf (a fresh RequestParser) *)
Definition process_one (cf : cfg) (buf : bytes) : msg_res :=
  match ReqparseModel.parse_whole (c_relaxed cf) (c_limit cf) buf with
  | Incremental.More _ _ => MWait
  | Incremental.Bad (code, _) => MReject code
  | Incremental.Done f rest =>
    let ma := ReqparseModel.f_major f in let mi := ReqparseModel.f_minor f in let mid := ReqparseModel.f_mid f in
    if unmodelled_method mid then MOther
    else if mid =? req_m_none then MReject sm_sc_method_not_allowed
    (* Http1::Server::buildHttpRequest *)
    else if ((ma =? 0) && negb (mi =? 9)) || (1 <? ma) then MReject sm_sc_version_not_supported
    else
      match (if 1 <=? ma then HdrparseModel.h_parse (c_relaxed cf) true false (ReqparseModel.f_mime f) else Some empty_hdr) with
      | None => MReject sm_sc_bad_request
      | Some hr =>
        let es := HdrparseModel.hr_entries hr in
        (* processParsedRequest: Expect *)
        let expect_bad := match get_list ID_EXPECT es with
                          | Some l => negb (ClenModel.ci_eqb l w_100_continue)
                          | None => false end in
        if expect_bad then MReject sm_sc_expectation_failed
        else
          (* content_length: Message() initialises it to 0; hdrCacheInit() runs only if the header was parsed *)
          let clen := if 1 <=? ma then get_clen es else 0%Z in
          let chunked := HdrparseModel.h_has_id HdrparseModel.ID_TE es in
          let code := check_entity_framing ma mi mid (HdrparseModel.hr_teUnsupported hr) chunked (HdrparseModel.hr_conflicting hr) clen in
          if negb (code =? 0) then MReject code
          else
            let persist := persistent ma mi es in
            let head := lenN buf - lenN rest in
            let mk body cl te used :=
              {| fw_method := ReqparseModel.f_mimg f; fw_uri := ReqparseModel.f_uri f; fw_major := ma; fw_minor := mi;
                 fw_chunked := chunked; fw_clen := clen; fw_body := body; fw_cl := cl; fw_te := te; fw_head := head; fw_used := used |} in
            if chunked then
              (* expectRequestBody(-1); handleChunkedRequestBody on what is in inBuf
              (an empty inBuf gives PRet false: nothing parsed yet, the head is forwarded and the body awaited) *)
              match ChunkedModel.parse (c_relaxed cf) (c_cap cf) ChunkedModel.init_state rest with
              | ChunkedModel.PFuel => MFuel
              | ChunkedModel.PThrow _ _ => MReset
              | ChunkedModel.PRet true _ rem out =>
                (* finishDechunkingRequest(true): setContentLength(producedSize) *)
                MForward (mk out [ClenModel.int64_to_a (Z.of_N (lenN out))] false (lenN buf - lenN rem)) persist rem
              | ChunkedModel.PRet false _ rem out => MPartial (mk out [] true (lenN buf - lenN rem))
              end
            else if (0 <? clen)%Z then
              let n := Z.to_N clen in
              if n <=? lenN rest
              then MForward (mk (takeN n rest) (values_of HdrparseModel.ID_CL es) false (head + n)) persist (dropN n rest)
              else MPartial (mk rest (values_of HdrparseModel.ID_CL es) false (lenN buf))
            else MForward (mk [] (values_of HdrparseModel.ID_CL es) false head) persist rest
      end
  end.

(* ---------- the connection ---------- *)
Inductive event :=
| EForward (start : N) (f : fwd)     (* message occupying [start, start + fw_used f) forwarded completely *)
| EPartial (start : N) (f : fwd)     (* terminal: head forwarded, body never completed *)
| EReject (start : N) (code : N)     (* terminal: error reply, connection closed *)
| EReset (start : N)                 (* terminal: connection reset *)
| EClose                             (* terminal: connection closed after a non-persistent exchange *)
| EOther (start : N)                 (* terminal: outside the model *)
| EFuel.

(* the parseRequests / kick loop; off = bytes of the stream consumed before buf.  Every forwarded message
   consumes at least its request line, so fuel = length of the stream + 1 is never exhausted
   (SmugglingProofs.run_conn_no_fuel) *)
Fixpoint run_conn (fuel : nat) (cf : cfg) (off : N) (buf : bytes) : list event :=
  match fuel with
  | O => [EFuel]
  | S k =>
    match buf with
    | [] => []
    | _ =>
      match process_one cf buf with
      | MWait => []
      | MReject c => [EReject off c]
      | MReset => [EReset off]
      | MOther => [EOther off]
      | MFuel => [EFuel]
      | MPartial f => [EPartial off f]
      | MForward f persist rest =>
        EForward off f :: (if persist then run_conn k cf (off + fw_used f) rest else [EClose])
      end
    end
  end.

Definition run_stream (cf : cfg) (s : bytes) : list event := run_conn (S (length s)) cf 0 s.

(* the configuration of the end-to-end run: request_header_max_size 64 KB (squid.conf default, set explicitly by
   the check), BodyPipe::MaxCapacity from the code *)
Definition sm_default_cfg (relaxed : bool) : cfg :=
  {| c_relaxed := relaxed; c_limit := 65536; c_cap := sm_body_pipe_capacity |}.
