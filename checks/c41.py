"""C41: domain-name ACLs match exactly the configured domain sets."""
import itertools, random
from vlib import std, hbuild

PID = "C41"
META = {
    "text": "Theorems (Properties_C41.v, 23, closed under the global context) over the Gallina models of include/splay.h "
            "(SplayModel.v: top-down splay(), find, insert, remove), matchDomainName (src/anyp/Uri.cc) and "
            "ACLDomainData::parse/match + Acl::SplayInserter<char*>::Compare/IsSubset/Merge (src/acl): for EVERY list of "
            "non-empty tokens, in any order, with duplicates, overlaps and any letter case, parse() ends normally (Merge never "
            "frees a stored value, never reaches MakeCombinedValue) and match(host) is true exactly when some token matches the "
            "host, a token standing for its value with redundant leading dots skipped ('.x' matches x and every name ending in "
            "'.x', any other value only itself). The splay library theorems (in-order preservation of splay/insert/remove, "
            "find succeeds iff a stored element compares equal under a sign-monotone comparator) are shared with later "
            "properties. The model is tied to the code by the regenerated xtolower table and by differential runs of the "
            "extracted model against the real ACLDomainData/Splay/matchDomainName compiled from the working tree "
            "(ASan+UBSan), comparing exact tree shapes.",
    "note": "Trusted: Coq kernel, extraction, gen/gen_acldom.cc, harness/h_acldom.cc (it supplies ConfigParser::strtokFile "
            "tokens to the real ACLDomainData::parse()); the hand-written models are validated against the code on the "
            "generated cases only. Preconditions of the main theorem: tokens are non-empty NUL-free strings (what the "
            "configuration parser yields); leading dots of the looked-up name are ignored (the code strips them).",
    "technique": "Coq proof (structural induction over the splay loop with link contexts, sorted-disjoint interval invariant "
                 "under a lexicographic key order, fuel-bounded Merge loop shown to terminate) + extracted-model "
                 "differential correspondence with exact tree shapes + independent Python oracle",
}

LINK = ("tests/stub_HelperChildConfig.o tests/stub_HttpHeader.o tests/stub_HttpRequest.o tests/stub_StatHist.o "
        "String.o tests/stub_access_log.o tests/stub_cbdata.o tests/stub_debug.o tests/stub_libhttp.o "
        "tests/stub_libmem.o globals.o anyp/libanyp.la libsquid.la acl/libapi.la parser/libparser.la base/libbase.la "
        "ip/libip.la sbuf/libsbuf.la ../lib/libmiscencoding.la ../lib/libmisccontainers.la ../lib/libmiscutil.la "
        "../compat/libcompatsquid.la").split()
# include/splay.h and src/acl/SplayInserter.h are headers of DomainData.cc: the object cache is keyed by the
# preprocessed text, so an edit to either is recompiled as well.
FRESH = ["src/acl/DomainData.cc", "src/anyp/Uri.cc"]


def impl(sanitize="asan"):
    return hbuild.build("h_acldom", "h_acldom.cc", fresh=FRESH, link=LINK, sanitize=sanitize)


def prebuild():
    impl()


def hx(b):
    return bytes(b).hex() if len(b) else "-"


def unhx(h):
    return b"" if h == "-" else bytes.fromhex(h)


# ---------------------------------------------------------------- the property, stated independently
def value_matches_raw(value, host):
    """C41: a value beginning with a dot matches that domain and all its subdomains, any other value matches
    only itself; case-insensitively. Leading dots of the looked-up name are not part of a host name."""
    v = value.lower()
    h = host.lower().lstrip(b".")
    if not h:
        return False
    if v.startswith(b"."):
        return h == v[1:] or h.endswith(v)
    return h == v


def value_matches(value, host):
    """what a configured token matches: its value with redundant leading dots skipped"""
    return value_matches_raw(normalise(value.lower()), host)


def normalise(v):
    """redundant leading dots of a configured value are skipped: '..x' stands for '.x'"""
    while v.startswith(b".."):
        v = v[1:]
    return v


def root(v):
    return v[1:] if v.startswith(b".") else v


def wellformed(v):
    r = root(v)
    return len(r) > 0 and not r.startswith(b".")


def multidot(v):
    return v.startswith(b"..")


def overlap(a, b):
    """the sets of names matched by two well-formed values have a common element"""
    return value_matches(a, root(b)) or value_matches(b, root(a))


def subset(a, b):
    """every name matched by a is matched by b (for overlapping well-formed values)"""
    return value_matches(b, root(a)) and (not a.startswith(b".") or b.startswith(b"."))


def parse_tree(s):
    """'(l,v,r)' / '.' -> (in-order list of values, node count); raises on malformed text"""
    pos = [0]
    out = []

    def go():
        if s[pos[0]] == ".":
            pos[0] += 1
            return
        assert s[pos[0]] == "("
        pos[0] += 1
        go()
        assert s[pos[0]] == ","
        pos[0] += 1
        j = pos[0]
        while s[pos[0]] != ",":
            pos[0] += 1
        out.append(s[j:pos[0]])
        pos[0] += 1
        go()
        assert s[pos[0]] == ")"
        pos[0] += 1
    go()
    assert pos[0] == len(s)
    return out


def split_acl(case):
    a = case.split()
    n = int(a[1])
    return [unhx(x) for x in a[2:2 + n]], [unhx(x) for x in a[2 + n:]]


def oracle(case, out):
    a = case.split()
    op = a[0]
    try:
        if op == "acl":
            vals, hosts = split_acl(case)
            tag = "oracle:acl:"
            if out.startswith(("CRASH", "EXC", "ERR", "HANG", "UB")):
                return (tag + "parse-fails", "building the ACL from %r crashes / throws / does not terminate / frees a stored value: %s"
                        % ([v.decode("latin1") for v in vals], out[:160]))
            w = out.split()
            size, t1, bits, t2 = int(w[0]), parse_tree(w[1]), w[2], parse_tree(w[3])
            if size != len(t1) or sorted(t1) != sorted(t2):
                return (tag + "accounting", "element count %d, %d nodes after parse, %d after lookups" % (size, len(t1), len(t2)))
            bits = "" if bits == "-" else bits
            if len(bits) != len(hosts):
                return (tag + "output", "malformed answer")
            for h, b in zip(hosts, bits):
                exp = any(value_matches(v, h) for v in vals)
                if exp != (b == "1"):
                    who = [v.decode("latin1") for v in vals if value_matches(v, h)]
                    return (tag + ("missed" if exp else "spurious"),
                            "host %r %s by ACL %r (matching values: %r)" % (h.decode("latin1"), "is NOT matched" if exp else "IS matched",
                                                                             [v.decode("latin1") for v in vals], who))
            return None
        if op == "mdn":
            h, d = unhx(a[1]), unhx(a[2])
            if out.startswith(("CRASH", "EXC", "ERR", "HANG")):
                return ("oracle:mdn:crash", out[:160])
            if not d:
                return None
            exp = value_matches_raw(d, h)     # the bare comparison does not normalise
            if (int(out) == 0) != exp:
                return ("oracle:mdn:zero", "matchDomainName(%r, %r) = %s but the value %s the host" % (h, d, out, "matches" if exp else "does not match"))
            return None
        if op in ("cmp", "sub"):
            x, y = unhx(a[1]), unhx(a[2])
            if out.startswith(("CRASH", "EXC", "ERR", "HANG")):
                return ("oracle:%s:crash" % op, out[:160])
            if not (wellformed(x) and wellformed(y)):
                return None          # precondition of the insertion rules (parse() only passes normalised values)
            if op == "cmp":
                if (int(out) == 0) != overlap(x, y):
                    return ("oracle:cmp:overlap", "Compare(%r, %r) = %s but the matched sets %s" % (x, y, out, "overlap" if overlap(x, y) else "are disjoint"))
            elif overlap(x, y) and (out == "1") != subset(x, y):
                return ("oracle:sub:subset", "IsSubset(%r, %r) = %s but the first set %s contained in the second" % (x, y, out, "is" if subset(x, y) else "is not"))
            return None
        if op == "spl":
            if out.startswith(("CRASH", "EXC", "ERR", "HANG")):
                return ("oracle:spl:crash", out[:160])
            ops = a[1].split(",") if len(a) > 1 else []
            s = set()
            exp = ""
            for o in ops:
                k = int(o[1:])
                if o[0] == "i":
                    exp += "1" if k in s else "0"; s.add(k)
                elif o[0] == "r":
                    exp += "1" if k in s else "0"; s.discard(k)
                elif o[0] == "f":
                    exp += "1" if k in s else "0"
            w = out.split()
            if (w[0] if w[0] != "-" else "") != exp:
                return ("oracle:spl:results", "expected %s" % exp)
            if int(w[1]) != len(s) or [int(x) for x in parse_tree(w[2])] != sorted(s):
                return ("oracle:spl:content", "tree content is not the set %r" % sorted(s))
            return None
    except Exception as ex:
        return ("oracle:%s:unparsable" % op, "unparsable implementation output %r (%s)" % (out[:120], ex))
    return None


# ---------------------------------------------------------------- generators
SMALL = b"ab-."
LABELS = [b"a", b"b", b"ab", b"x", b"-", b"a-b", b"0", b"_", b"com", b"foo", b"a_", b"b-", b"-a", b"z9"]


def strings(alpha, maxlen):
    out = []
    for n in range(1, maxlen + 1):
        for t in itertools.product(alpha, repeat=n):
            out.append(bytes(t))
    return out


def acl_case(vals, hosts):
    vals = [v for v in vals if v] or [b"a"]        # the configuration parser never yields an empty token
    return "acl %d %s" % (len(vals), " ".join([hx(v) for v in vals] + [hx(h) for h in hosts]))


def rand_case_flip(rng, s):
    if rng.random() < 0.25:
        return bytes((c ^ 32) if (65 <= c <= 90 or 97 <= c <= 122) and rng.random() < 0.5 else c for c in s)
    return s


def rand_name(rng):
    return b".".join(rng.choice(LABELS) for _ in range(rng.choice([1, 1, 2, 2, 2, 3, 3, 4])))


def derive(rng, v):
    """a value/host related to v: same root, sub-domain, parent, sibling, glued prefix"""
    r = root(v) or b"a"
    k = rng.randrange(9)
    if k == 0: return b"." + r
    if k == 1: return r
    if k == 2: return rng.choice(LABELS) + b"." + r
    if k == 3: return b"." + rng.choice(LABELS) + b"." + r
    if k == 4: return rng.choice(LABELS) + r                       # glued: x-foo.com vs .foo.com
    if k == 5: return r.split(b".", 1)[1] if b"." in r else r      # parent
    if k == 6: return b"." + (r.split(b".", 1)[1] if b"." in r else r)
    if k == 7: return rng.choice(LABELS) + b"." + rng.choice(LABELS) + b"." + r
    return r + rng.choice([b"", b".", b"a"])


def rand_values(rng, nmax):
    vals = []
    for _ in range(rng.randrange(1, nmax + 1)):
        if vals and rng.random() < 0.6:
            v = derive(rng, rng.choice(vals))
        else:
            v = rand_name(rng)
            if rng.random() < 0.45:
                v = b"." + v
        vals.append(rand_case_flip(rng, v))
    return vals


def rand_hosts(rng, vals, k):
    hosts = []
    for _ in range(k):
        p = rng.random()
        if p < 0.7:
            h = derive(rng, rng.choice(vals))
            h = h.lstrip(b".") or b"a"
        elif p < 0.9:
            h = rand_name(rng)
        else:
            h = bytes(rng.choice(b"ab-._0AZ") for _ in range(rng.randrange(1, 7)))
        hosts.append(rand_case_flip(rng, h))
    return hosts


def gen_cases(rng, n):
    cases = []
    thorough = n > 100000
    # (1) small scope, exhaustively: every ordered list (all insertion orders, duplicates included) of up to 3
    #     well-formed values of length <= 2 over {a,b,-,.}, probed with every host of length <= 3
    alpha = SMALL if not thorough else b"ab-._0"
    uni = strings(alpha, 2)            # includes ".", ".." and ".x"
    hosts = [h for h in strings(SMALL, 3) if not h.startswith(b".")]
    small = []
    for k in (1, 2, 3):
        for t in itertools.product(uni, repeat=k):
            small.append(acl_case(list(t), hosts))
    budget = max(n * 3 // 8, 1)
    if len(small) > budget:
        small = rng.sample(small, budget)
    cases += small
    # (2) all orders of sets of 4 and 5 related values of length <= 3
    uni3 = strings(SMALL, 3)
    for _ in range(n // 40):
        base = [rng.choice(uni3)]
        while len(base) < rng.choice([4, 4, 5]):
            c = derive(rng, rng.choice(base)) if rng.random() < 0.7 else rng.choice(uni3)
            if len(c) <= 6:
                base.append(c)
        hs = rand_hosts(rng, base, 12) + rng.sample(hosts, 6)
        perms = list(itertools.permutations(base))
        for p in (perms if len(base) == 4 and rng.random() < 0.3 else rng.sample(perms, 4)):
            cases.append(acl_case(list(p), hs))
    # (3) pairwise functions on the small universe and on random related names
    pairs = strings(SMALL, 3)
    m = n // 6
    for _ in range(m):
        op = rng.choice(["mdn", "mdn", "cmp", "cmp", "sub"])
        if rng.random() < 0.5:
            x, y = rng.choice(pairs), rng.choice(pairs)
        else:
            x = rand_name(rng) if rng.random() < 0.5 else b"." + rand_name(rng)
            y = derive(rng, x) if rng.random() < 0.8 else rand_name(rng)
            x, y = rand_case_flip(rng, x), rand_case_flip(rng, y)
        if op != "mdn" and rng.random() < 0.9:
            x, y = x.lower(), y.lower()       # stored values are lower-cased by parse()
        cases.append("%s %s %s" % (op, hx(x), hx(y)))
    # (4) larger random lists
    while len(cases) < n - n // 20 - n // 25:
        vals = rand_values(rng, rng.choice([3, 6, 10, 16]))
        cases.append(acl_case(vals, rand_hosts(rng, vals, rng.choice([4, 8, 16]))))
    # (5) the shared splay model under a second comparator: Splay<int>
    for _ in range(n // 20):
        ops = []
        span = rng.choice([4, 8, 30])
        for _ in range(rng.randrange(1, 40)):
            ops.append(rng.choice("iiirf") + str(rng.randrange(-span, span)))
        cases.append("spl " + ",".join(ops))
    # (6) lists with values starting with two or more dots (finding C41-multidot-value, repaired in /repo by 0f064b1)
    for _ in range(n // 25):
        vals = rand_values(rng, 4)
        i = rng.randrange(len(vals))
        vals[i] = b"." * rng.choice([1, 1, 2]) + (vals[i] if vals[i].startswith(b".") else b"." + vals[i])
        cases.append(acl_case(vals, rand_hosts(rng, vals, 6)))
    return cases


def kind_fn(c, o):
    op = c.split()[0]
    if op == "acl":
        w = o.split()
        if len(w) != 4:
            return "acl:" + w[0][:5]
        b = w[2]
        frac = b.count("1") / max(len(b), 1)
        return "acl:hosts-matched-" + ("0%" if frac == 0 else "<25%" if frac < 0.25 else "25-75%" if frac <= 0.75 else ">75%")
    if op in ("mdn", "cmp"):
        return op + ":" + ("0" if o == "0" else "neg" if o.startswith("-") else "pos")
    if op == "sub":
        return "sub:" + o[:3]
    return op


def nontrivial(c, o):
    a = c.split()
    if a[0] == "acl":
        w = o.split()
        return int(a[1]) >= 2 and len(w) == 4 and "1" in w[2] and "0" in w[2]
    if a[0] == "spl":
        return len(a) > 1 and a[1].count(",") >= 3
    return True


def mutate(rng, case):
    """a neighbouring case: change one byte of one value/host, or drop/duplicate/swap values"""
    a = case.split()
    if a[0] == "acl":
        vals, hosts = split_acl(case)
        k = rng.random()
        if k < 0.3 and len(vals) > 1:
            i, j = rng.sample(range(len(vals)), 2); vals[i], vals[j] = vals[j], vals[i]
        elif k < 0.45 and len(vals) > 1:
            del vals[rng.randrange(len(vals))]
        elif k < 0.6:
            vals.insert(rng.randrange(len(vals) + 1), derive(rng, rng.choice(vals)))
        else:
            hosts = hosts + rand_hosts(rng, vals, 4)
        vals = [v for v in vals if v] or [b"a"]
        return acl_case(vals, hosts)
    if a[0] in ("mdn", "cmp", "sub"):
        i = rng.choice([1, 2])
        b = bytearray(unhx(a[i])) or bytearray(b"a")
        b[rng.randrange(len(b))] = rng.choice(b"ab-._0A")
        a[i] = hx(bytes(b))
        return " ".join(a)
    return case


def norm_impl(line):
    # the model's only statement about a freed-but-still-stored value is "behaviour undefined"; under
    # AddressSanitizer the implementation dies on the next access to it (the harness also ends the
    # process when one case uses more than 5 s of CPU time)
    return "UB" if line.startswith("CRASH") else line


def norm_model(line):
    return "UB" if line == "HANG" else line


def run(res, tier):
    res.rule = ("ordered lists (<= 3 values, duplicates included; sampled down to 3/8 of the case budget) of ALL values of length <= 2 over {a,b,-,.} x every "
                "host of length <= 3; all/sampled insertion orders of related 4-5 value sets; random lists of up to 16 related "
                "names (sub-domains, parents, glued prefixes, mixed case) with derived hosts; matchDomainName/Compare/IsSubset "
                "on pairs; Splay<int> operation sequences. An acl case is non-trivial when it has >= 2 values and both "
                "matching and non-matching hosts")
    std.run_standard(res, PID, tier, area="acldom", build_impl=impl, gen_cases=gen_cases, oracle=oracle,
                     corr_name="AcldomModel/SplayModel vs src/acl/DomainData.cc, src/acl/SplayInserter.h, src/anyp/Uri.cc, include/splay.h",
                     gens=["acldom"], n_quick=6000, n_thorough=150000, seed_salt=41, mutate=mutate,
                     kind_fn=kind_fn, nontrivial_fn=nontrivial, norm_impl=norm_impl, norm_model=norm_model,
                     impl_env={"ASAN_OPTIONS": "detect_leaks=0:abort_on_error=0:symbolize=0",
                               "UBSAN_OPTIONS": "print_stacktrace=0:halt_on_error=1:symbolize=0"})
