#!/usr/bin/env python3
"""Table generator (script form): reads src/format/{ByteCode.h,Token.cc,Format.cc} of the tree given as
argv[1] and reports how Format::Format::assemble dispatches on the logformat quoting style.
Prints Coq source ("@@FILE LogQuote_gen.v").

  lq_enum_*        numeric value of each `enum Quoting` member (declaration order, first = 0)
  lq_modifiers     (modifier byte after '%', enum value) from the `switch (*cur)` of Format::Token::parse
  lq_switch        (enum value, function id) from the `switch (fmt->quote)` of Format::Format::assemble:
                     0 = the value is left as it is    1 = rfc1738_escape_unescaped   2 = log_quoted_string
                     3 = QuoteMimeBlob                 4 = rfc1738_escape             5 = strwordquote
  lq_guard_ok      the switch is still guarded by `if (quote || fmt->quote != LOG_QUOTE_NONE)` inside `if (out && *out)`
  lq_dash_ok       an empty/absent value is still logged as "-"
  lq_sets_quote_<LFT>   whether the `case <LFT>:` body of assemble contains `quote = 1;`
Anything it cannot recognise makes it exit non-zero."""
import re, sys

FUNCS = [("rfc1738_escape_unescaped", 1), ("log_quoted_string", 2), ("QuoteMimeBlob", 3), ("rfc1738_escape", 4),
         ("strwordquote", 5)]


def fail(msg):
    sys.stderr.write("logquote_switch: " + msg + "\n")
    sys.exit(2)


def strip_comments(txt):
    txt = re.sub(r"/\*.*?\*/", lambda m: "\n" * m.group(0).count("\n"), txt, flags=re.S)
    return re.sub(r"//[^\n]*", "", txt)


def block_after(txt, start):
    """text between the '{' at/after start and its matching '}'"""
    i = txt.index("{", start)
    depth = 0
    for j in range(i, len(txt)):
        if txt[j] == "{":
            depth += 1
        elif txt[j] == "}":
            depth -= 1
            if depth == 0:
                return txt[i + 1:j], j
    fail("unbalanced braces")


def main():
    repo = sys.argv[1] if len(sys.argv) > 1 else "/repo"
    rd = lambda p: strip_comments(open(repo + "/src/format/" + p, encoding="latin1").read())
    bc, tok, fmt = rd("ByteCode.h"), rd("Token.cc"), rd("Format.cc")
    m = re.search(r"enum\s+Quoting\s*\{(.*?)\}", bc, re.S)
    if not m:
        fail("enum Quoting not found")
    enum = {}
    nxt = 0
    for item in m.group(1).split(","):
        item = item.strip()
        if not item:
            continue
        mm = re.fullmatch(r"(\w+)(?:\s*=\s*(\d+))?", item)
        if not mm:
            fail("enum item " + item)
        if mm.group(2) is not None:
            nxt = int(mm.group(2))
        enum[mm.group(1)] = nxt
        nxt += 1
    need = ["LOG_QUOTE_NONE", "LOG_QUOTE_QUOTES", "LOG_QUOTE_MIMEBLOB", "LOG_QUOTE_URL", "LOG_QUOTE_SHELL", "LOG_QUOTE_RAW"]
    for n in need:
        if n not in enum:
            fail("enum member %s missing" % n)
    # modifiers in Token::parse
    pm = re.search(r"Format::Token::parse\(const char \*def, Quoting \*quoting\)", tok)
    if not pm:
        fail("Token::parse not found")
    pbody, _ = block_after(tok, pm.end())
    sm = None
    for cand in re.finditer(r"switch \(\*cur\)", pbody):
        blk, _ = block_after(pbody, cand.end())
        if re.search(r"\bquote = LOG_QUOTE_", blk):
            sm = blk
            break
    if sm is None:
        fail("modifier switch not found")
    mods = []
    for cm in re.finditer(r"case\s+'((?:\\.|[^\\'])+)'\s*:\s*quote = (LOG_QUOTE_\w+);", sm):
        ch = cm.group(1)
        ch = ch[1] if ch.startswith("\\") else ch
        mods.append((ord(ch), enum[cm.group(2)]))
    dm = re.search(r"default\s*:\s*quote = \*quoting;", sm)
    if not mods or not dm:
        fail("modifier cases not recognised")
    # assemble
    am = re.search(r"Format::Format::assemble\(MemBuf &mb, const AccessLogEntry::Pointer &al, int logSequenceNumber\) const", fmt)
    if not am:
        fail("Format::assemble not found")
    abody, _ = block_after(fmt, am.end())
    qs = re.search(r"switch \(fmt->quote\)", abody)
    if not qs:
        fail("quoting switch not found")
    qblk, qend = block_after(abody, qs.end())
    before = " ".join(abody[:qs.start()].split())
    gi = before.rfind("if (out && *out) {")
    gj = before.rfind("if (quote || fmt->quote != LOG_QUOTE_NONE) {")
    guard_ok = gi >= 0 and gj > gi
    after = " ".join(abody[qend:].split())
    dash_ok = re.search(r"\} else \{ mb\.append\(\"-\", 1\); \}", after) is not None
    labels = list(re.finditer(r"case\s+(LOG_QUOTE_\w+)\s*:", qblk))
    sw = []
    for k, lm in enumerate(labels):
        seg = qblk[lm.end():labels[k + 1].start() if k + 1 < len(labels) else len(qblk)]
        fid = 0
        hits = []
        for name, i in FUNCS:
            if re.search(r"(?<![\w])" + name + r"\s*\(", seg):
                hits.append(i)
        if len(hits) > 1:
            fail("several quoting functions in case " + lm.group(1))
        if hits:
            fid = hits[0]
        elif re.search(r"\bnewout\s*=", seg):
            fail("unknown quoting function in case " + lm.group(1))
        sw.append((enum[lm.group(1)], fid, lm.group(1)))
    if sorted(e for e, _, _ in sw) != sorted(enum[n] for n in need):
        fail("quoting switch does not cover the enum exactly")
    # per-LFT quote flags: the big switch (fmt->type)
    ts = re.search(r"switch \(fmt->type\)", abody)
    tblk, _ = block_after(abody, ts.end())
    lab = list(re.finditer(r"^\s*case\s+(LFT_\w+)\s*:", tblk, re.M))
    flags = {}
    k = 0
    while k < len(lab):
        group = [lab[k].group(1)]
        j = k
        while j + 1 < len(lab) and not tblk[lab[j].end():lab[j + 1].start()].strip():
            j += 1
            group.append(lab[j].group(1))
        seg = tblk[lab[j].end():lab[j + 1].start() if j + 1 < len(lab) else len(tblk)]
        v = re.search(r"\bquote\s*=\s*1\s*;", seg) is not None
        for g in group:
            flags[g] = v
        k = j + 1
    b = lambda x: "true" if x else "false"
    out = ["@@FILE LogQuote_gen.v",
           "(* generated from /repo/src/format/{ByteCode.h,Token.cc,Format.cc} by gen/logquote_switch.py -- do not edit *)",
           "Require Import SquidV.Bytes.", "Local Open Scope N_scope."]
    for n in need:
        out.append("Definition lq_enum_%s : N := %d." % (n[len("LOG_QUOTE_"):], enum[n]))
    out.append("Definition lq_modifiers : list (N * N) := [%s]." % "; ".join("(%d, %d)" % x for x in mods))
    out.append("Definition lq_switch : list (N * N) := [%s]." % "; ".join("(%d, %d)" % (e, f) for e, f, _ in sw))
    out.append("Definition lq_guard_ok : bool := %s." % b(guard_ok))
    out.append("Definition lq_dash_ok : bool := %s." % b(dash_ok))
    for g in sorted(flags):
        out.append("Definition lq_sets_quote_%s : bool := %s." % (g, b(flags[g])))
    print("\n".join(out))


main()
