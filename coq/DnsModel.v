(* DnsModel.v — executable model of squid's DNS wire codec
   (src/dns/rfc1035.cc, rfc3596.cc, rfc2671.cc), transcribed function by function.

   Conventions
   * a datagram is `bytes`; `sz` is the size handed to the C function (callers pass `lenN buf`).
   * EVERY read of the datagram is a checked index (`nthN`, `rd16`, `rd32`, `rd_range`): a read the
     C code would perform outside [0, sz) yields the distinct outcome `Bad OobRead`.
   * EVERY write into a name buffer is checked against the real capacity `cap` of the destination
     (distinct from the size `ns` the code believes it has): `Bad OobWrite`.
   * unsigned subtractions that would wrap yield `Bad Wrap`; a failing assert() yields
     `Bad AssertFail`; running out of fuel yields `Bad OutOfFuel`.
   The safety theorems show that no `Bad _` outcome is reachable from rfc1035MessageUnpack.
   Shifts/masks of the C code are written as the equal div/mod expressions. *)
Require Import SquidV.Bytes SquidV.gen.Dns_gen.
Local Open Scope N_scope.

Inductive bad := OobRead | OobWrite | Wrap | AssertFail | OutOfFuel.
Inductive outcome (A : Type) := Ok (a : A) | Err | Bad (b : bad).
Arguments Ok {A} a.
Arguments Err {A}.
Arguments Bad {A} b.

(* ---------- checked reads ---------- *)
Definition rd16 (buf : bytes) (off : N) : option N :=
  match nthN off buf, nthN (off + 1) buf with
  | Some a, Some b => Some (a * 256 + b)
  | _, _ => None
  end.

Definition rd32 (buf : bytes) (off : N) : option N :=
  match rd16 buf off, rd16 buf (off + 2) with
  | Some a, Some b => Some (a * 65536 + b)
  | _, _ => None
  end.

(* memcpy(dst, buf + off, len) *)
Definition rd_range (buf : bytes) (off len : N) : option bytes :=
  if off + len <=? lenN buf then Some (takeN len (dropN off buf)) else None.

(* a char buffer seen as a C string: the bytes before the first NUL *)
Definition cstr (l : bytes) : bytes := fst (span (fun c => negb (c =? 0)) l).

(* ---------- rfc1035_message header ---------- *)
Record header := mkHdr {
  h_id : N; h_qr : N; h_opcode : N; h_aa : N; h_tc : N; h_rd : N; h_ra : N; h_rcode : N;
  h_qd : N; h_an : N; h_ns : N; h_ar : N }.

(* rfc1035HeaderUnpack (off = 0 on entry, 12 on success) *)
Definition header_unpack (buf : bytes) (sz : N) : outcome header :=
  if sz <? 12 then Err else
  match rd16 buf 0, rd16 buf 2, rd16 buf 4, rd16 buf 6, rd16 buf 8, rd16 buf 10 with
  | Some id, Some t, Some qd, Some an, Some ns, Some ar =>
      Ok (mkHdr id ((t / 32768) mod 2) ((t / 2048) mod 16) ((t / 1024) mod 2) ((t / 512) mod 2)
                ((t / 256) mod 2) ((t / 128) mod 2) (t mod 16) qd an ns ar)
  | _, _, _, _, _, _ => Bad OobRead
  end.

(* ---------- rfc1035NameUnpack ----------
   State of one activation: `off` (its own *off), `no`/`ns` (its local write index and the size it was
   told), `cap` (what is really left of the destination at its `name` pointer), `rdepth`.
   `acc` is everything written to the destination so far by the enclosing activations and this one
   (the recursive call writes at name + no, i.e. right behind it); `rdl` is *rdlength.
   Result: (destination contents in front of the terminating NUL, new *off of THIS activation, *rdlength). *)
Definition name_finish (acc : bytes) (no ns cap off rdl : N) : outcome (bytes * N * N) :=
  if no =? 0 then
    (* *name = '\0' *)
    if cap =? 0 then Bad OobWrite else Ok (acc, off, rdl)
  else
    (* *(name + no - 1) = '\0'; assert(no <= ns) *)
    if cap <? no then Bad OobWrite else
    if ns <? no then Bad AssertFail else Ok (removelast acc, off, rdl).

(* name[i] = v *)
Fixpoint setN (i v : N) (l : bytes) : bytes :=
  match l with
  | [] => []
  | x :: r => if i =? 0 then v :: r else x :: setN (N.pred i) v r
  end.

Fixpoint name_loop (fuel : nat) (buf : bytes) (sz off rdl : N) (acc : bytes) (no ns cap rdepth : N)
  : outcome (bytes * N * N) :=
  match fuel with
  | O => Bad OutOfFuel
  | S f =>
    if sz <=? off then Err else
    match nthN off buf with
    | None => Bad OobRead
    | Some c =>
      if 191 <? c then
        (* compression pointer *)
        if 64 <? rdepth then Err else
        if sz <? off + dns_sizeof_ushort then Err else
        match rd16 buf off with
        | None => Bad OobRead
        | Some s =>
          let ptr := s mod 16384 in
          if sz <=? ptr then Err else
          (* rfc1035NameUnpack(buf, sz, &ptr, rdlength, name + no, ns - no, rdepth + 1) *)
          if ns <? no then Bad Wrap else
          if cap <? no then Bad OobWrite else
          if ns - no =? 0 then Bad AssertFail else
          match name_loop f buf sz ptr rdl acc 0 (ns - no) (cap - no) (rdepth + 1) with
          | Ok (nm, _, rdl') =>
            (* if (rc == 0 && no > 0 && *(name + no) == '\0') *(name + no - 1) = '\0';
               name + no is destination index lenN acc: the first octet the recursive call wrote *)
            if 0 <? no then
              if cap <=? no then Bad OobRead else
              match nthN (lenN acc) (nm ++ [0]) with
              | None => Bad OobRead
              | Some b0 =>
                if b0 =? 0 then
                  (* the NUL written at no - 1 is the new terminator if the callee wrote nothing else,
                     otherwise (callee's first label begins with a NUL octet) an embedded NUL *)
                  Ok (if lenN nm =? lenN acc then removelast nm else setN (lenN acc - 1) 0 nm,
                      off + dns_sizeof_ushort, rdl')
                else Ok (nm, off + dns_sizeof_ushort, rdl')
              end
            else Ok (nm, off + dns_sizeof_ushort, rdl')
          | Err => Err
          | Bad b => Bad b
          end
        end
      else if dns_MAXLABELSZ <? c then Err
      else
        let off1 := off + 1 in
        if c =? 0 then name_finish acc no ns cap off1 rdl
        else
          (* len > (ns - no - 1) in size_t arithmetic *)
          if ns <? no + 1 then Bad Wrap else
          if ns - no - 1 <? c then Err else
          if sz <=? off1 + c then Err else
          match rd_range buf off1 c with
          | None => Bad OobRead
          | Some lbl =>
            (* memcpy(name + no, ..., len); name[no + len] = '.' *)
            if cap <? no + c + 1 then Bad OobWrite else
            let no' := no + c + 1 in
            let rdl' := (rdl + c + 1) mod 65536 in
            let acc' := acc ++ lbl ++ [46] in
            (* while (c > 0 && no < ns) *)
            if no' <? ns then name_loop f buf sz (off1 + c) rdl' acc' no' ns cap rdepth
            else name_finish acc' no' ns cap (off1 + c) rdl'
          end
    end
  end.

(* enough for every input: each label consumes at least 2 of the ns bytes, each pointer raises rdepth (<= 65) *)
Definition name_fuel (ns : N) : nat := N.to_nat (ns + 70).

Definition name_unpack (buf : bytes) (sz off ns cap rdepth : N) : outcome (bytes * N * N) :=
  if ns =? 0 then Bad AssertFail   (* assert(ns > 0) *)
  else name_loop (name_fuel ns) buf sz off 0 [] 0 ns cap rdepth.

(* ---------- rfc1035QueryUnpack ---------- *)
Record query := mkQ { q_name : bytes; q_type : N; q_class : N }.

Definition query_unpack (buf : bytes) (sz off : N) : outcome (query * N) :=
  match name_unpack buf sz off dns_MAXHOSTNAMESZ dns_sizeof_query_name 0 with
  | Ok (nm, off1, _) =>
    if sz <? off1 + 4 then Err else
    match rd16 buf off1, rd16 buf (off1 + 2) with
    | Some t, Some c => Ok (mkQ (cstr nm) t c, off1 + 4)
    | _, _ => Bad OobRead
    end
  | Err => Err
  | Bad b => Bad b
  end.

(* ---------- rfc1035RRUnpack ---------- *)
Record rr := mkRR { rr_name : bytes; rr_type : N; rr_class : N; rr_ttl : N; rr_rdlength : N; rr_rdata : bytes }.

Definition rr_unpack (buf : bytes) (sz off : N) : outcome (rr * N) :=
  match name_unpack buf sz off dns_MAXHOSTNAMESZ dns_sizeof_rr_name 0 with
  | Ok (nm, off1, _) =>
    if sz <? off1 + 10 then Err else
    match rd16 buf off1, rd16 buf (off1 + 2), rd32 buf (off1 + 4), rd16 buf (off1 + 8) with
    | Some ty, Some cl, Some ttl, Some rdlength =>
      let off2 := off1 + 10 in
      if sz <? off2 + rdlength then Err else
      if ty =? dns_TYPE_PTR then
        (* rdata = xmalloc(RFC1035_MAXHOSTNAMESZ); RR->rdlength = 0 is filled in by NameUnpack *)
        match name_unpack buf sz off2 dns_MAXHOSTNAMESZ dns_MAXHOSTNAMESZ 0 with
        | Ok (pn, rdata_off, rdl) =>
          if off2 + rdlength <? rdata_off then Err else
          if sz <? off2 + rdlength then Bad AssertFail else
          Ok (mkRR (cstr nm) ty cl ttl rdl (cstr pn), off2 + rdlength)
        | Err => Err
        | Bad b => Bad b
        end
      else
        match rd_range buf off2 rdlength with
        | None => Bad OobRead
        | Some d =>
          if sz <? off2 + rdlength then Bad AssertFail else
          Ok (mkRR (cstr nm) ty cl ttl rdlength d, off2 + rdlength)
        end
    | _, _, _, _ => Bad OobRead
    end
  | Err => Err
  | Bad b => Bad b
  end.

(* ---------- rfc1035MessageUnpack ---------- *)
Inductive unpacked :=
| UFail                                              (* -rfc1035_unpack_error, *answer untouched / NULL *)
| URcode (h : header) (q : query)                    (* -rcode, message with header and query *)
| UAnswers (h : header) (q : query) (rrs : list rr). (* number of records (0 if ancount = 0) *)

(* the `for (j = 0; j < ancount; j++)` loop; `n` = iterations left *)
Fixpoint rrs_loop (n : nat) (buf : bytes) (sz off : N) : outcome (list rr) :=
  match n with
  | O => Ok []
  | S k =>
    if sz <=? off then Ok [] else
    match rr_unpack buf sz off with
    | Ok (r, off') =>
      match rrs_loop k buf sz off' with
      | Ok l => Ok (r :: l)
      | Err => Err
      | Bad b => Bad b
      end
    | Err => Ok []
    | Bad b => Bad b
    end
  end.

Definition message_unpack (buf : bytes) : outcome unpacked :=
  let sz := lenN buf in
  match header_unpack buf sz with
  | Err => Ok UFail
  | Bad b => Bad b
  | Ok h =>
    if negb (h_qd h =? 1) then Ok UFail else
    match query_unpack buf sz 12 with
    | Err => Ok UFail
    | Bad b => Bad b
    | Ok (q, off) =>
      if negb (h_rcode h =? 0) then Ok (URcode h q) else
      if h_an h =? 0 then Ok (UAnswers h q []) else
      match rrs_loop (N.to_nat (h_an h)) buf sz off with
      | Ok [] => Ok UFail
      | Ok l => Ok (UAnswers h q l)
      | Err => Ok UFail
      | Bad b => Bad b
      end
    end
  end.

(* ================= packers ================= *)
Definition be16 (v : N) : bytes := [(v / 256) mod 256; v mod 256].
Definition be32 (v : N) : bytes := be16 ((v / 65536) mod 65536) ++ be16 (v mod 65536).

(* rfc1035HeaderPack *)
Definition header_pack (sz : N) (h : header) : outcome bytes :=
  if sz <? 12 then Bad AssertFail else
  let t := h_qr h * 32768 + h_opcode h * 2048 + h_aa h * 1024 + h_tc h * 512 + h_rd h * 256 + h_ra h * 128 + h_rcode h in
  Ok (be16 (h_id h) ++ be16 t ++ be16 (h_qd h) ++ be16 (h_an h) ++ be16 (h_ns h) ++ be16 (h_ar h)).

(* strtok(copy, "."): the maximal non-empty runs of bytes other than '.' *)
Fixpoint tokens_from (cur : bytes) (s : bytes) : list bytes :=
  match s with
  | [] => match cur with [] => [] | _ => [cur] end
  | c :: r =>
    if c =? 46 then
      match cur with [] => tokens_from [] r | _ => cur :: tokens_from [] r end
    else tokens_from (cur ++ [c]) r
  end.
Definition tokens (s : bytes) : list bytes := tokens_from [] s.

(* rfc1035LabelPack: at most 63 bytes of the label *)
Definition label_pack (sz : N) (label : bytes) : outcome bytes :=
  let len := N.min (lenN label) dns_MAXLABELSZ in
  if sz <? len + 1 then Bad AssertFail else Ok (len :: takeN len label).

(* rfc1035NamePack: returns (bytes written, off) *)
Fixpoint labels_pack (sz off : N) (toks : list bytes) (out : bytes) : outcome (bytes * N) :=
  match toks with
  | [] => Ok (out, off)
  | t :: r =>
    if sz <? off then Bad Wrap else
    match label_pack (sz - off) t with
    | Ok b => labels_pack sz (off + lenN b) r (out ++ b)
    | Err => Err
    | Bad x => Bad x
    end
  end.

Definition name_pack (sz : N) (name : bytes) : outcome (bytes * N) :=
  match labels_pack sz 0 (tokens (cstr name)) [] with
  | Ok (out, off) => if sz <=? off then Bad AssertFail else Ok (out ++ [0], off + 1)
  | Err => Err
  | Bad x => Bad x
  end.

(* rfc1035QuestionPack: the two 16-bit fields are written BEFORE assert(off <= sz) *)
Definition question_pack (sz : N) (name : bytes) (type class : N) : outcome bytes :=
  match name_pack sz name with
  | Ok (out, off) =>
    if sz <? off + 4 then Bad OobWrite else Ok (out ++ be16 type ++ be16 class)
  | Err => Err
  | Bad x => Bad x
  end.

(* rfc1035RRPack: Ok [] stands for "returned 0" *)
Definition rr_pack (sz : N) (name : bytes) (type class ttl rdlength : N) (rdata : bytes) : outcome bytes :=
  match name_pack sz name with
  | Ok (out, off) =>
    if sz <? off + 10 + rdlength then Ok []
    else Ok (out ++ be16 type ++ be16 class ++ be32 ttl ++ be16 rdlength ++ takeN rdlength rdata)
  | Err => Err
  | Bad x => Bad x
  end.

(* rfc2671RROptPack (edns_sz > 0) *)
Definition opt_pack (sz edns : N) : outcome bytes :=
  rr_pack sz [46] dns_TYPE_OPT (N.min edns (dns_UDP_SO_RCVBUF - 1)) 0 0 [].

(* rfc1035BuildAQuery / rfc1035BuildPTRQuery / rfc3596BuildHostQuery: common body.
   Result: (message, the rfc1035_query filled in for the caller) *)
Definition build_query (sz : N) (hostname : bytes) (qid qtype edns : N) : outcome (bytes * query) :=
  let host := cstr hostname in
  let ty := qtype mod 65536 in
  let h := mkHdr qid 0 0 0 0 1 0 0 1 0 0 (if 0 <? edns then 1 else 0) in
  match header_pack sz h with
  | Ok hb =>
    match question_pack (sz - 12) host ty dns_CLASS_IN with
    | Ok qb =>
      let off := 12 + lenN qb in
      let q := mkQ (takeN (dns_sizeof_query_name - 1) host) ty dns_CLASS_IN in
      if 0 <? edns then
        match opt_pack (sz - off) edns with
        | Ok ob => if sz <? off + lenN ob then Bad AssertFail else Ok (hb ++ qb ++ ob, q)
        | Err => Err
        | Bad x => Bad x
        end
      else if sz <? off then Bad AssertFail else Ok (hb ++ qb, q)
    | Err => Err
    | Bad x => Bad x
    end
  | Err => Err
  | Bad x => Bad x
  end.

(* "%u" for a value below 256 *)
Definition dec_u8 (v : N) : bytes :=
  if v <? 10 then [48 + v]
  else if v <? 100 then [48 + v / 10; 48 + v mod 10]
  else [48 + v / 100; 48 + (v / 10) mod 10; 48 + v mod 10].

Definition in_addr_arpa : bytes := [46;105;110;45;97;100;100;114;46;97;114;112;97;46].  (* ".in-addr.arpa." *)

(* snprintf(rev, cap, "%u.%u.%u.%u.in-addr.arpa.", d, c, b, a) for the address a.b.c.d *)
Definition rev4 (cap a b c d : N) : bytes :=
  takeN (cap - 1) (dec_u8 d ++ [46] ++ dec_u8 c ++ [46] ++ dec_u8 b ++ [46] ++ dec_u8 a ++ in_addr_arpa).

Definition build_ptr_query (sz a b c d qid edns : N) : outcome (bytes * query) :=
  build_query sz (rev4 32 a b c d) qid dns_TYPE_PTR edns.

Definition build_ptr4_query (sz a b c d qid edns : N) : outcome (bytes * query) :=
  build_query sz (rev4 dns_MAXHOSTNAMESZ a b c d) qid dns_TYPE_PTR edns.

(* "%1x" *)
Definition hexdig (v : N) : N := if v <? 10 then 48 + v else 87 + v.
Definition ip6_arpa : bytes := [105;112;54;46;97;114;112;97;46].  (* "ip6.arpa." *)

(* for (i = 15; i >= 0; i--) "%1x.%1x." of the low then the high nibble *)
Fixpoint rev6_nibbles (revaddr : bytes) : bytes :=
  match revaddr with
  | [] => []
  | x :: r => hexdig (x mod 16) :: 46 :: hexdig ((x / 16) mod 16) :: 46 :: rev6_nibbles r
  end.

Definition build_ptr6_query (sz : N) (addr : bytes) (qid edns : N) : outcome (bytes * query) :=
  build_query sz (rev6_nibbles (rev addr) ++ ip6_arpa) qid dns_TYPE_PTR edns.

(* rfc1035SetQueryID *)
Definition set_query_id (buf : bytes) (qid : N) : bytes := be16 qid ++ dropN 2 buf.

(* rfc1035QueryCompare: true = "returns 0" *)
Definition lower (c : N) : N := if (65 <=? c) && (c <=? 90) then c + 32 else c.
Fixpoint trim_dots_len (revname : bytes) (la : N) : N :=
  match revname with
  | c :: r => if (0 <? la) && (c =? 46) then trim_dots_len r (la - 1) else la
  | [] => la
  end.
Definition query_compare (a b : query) : bool :=
  if negb (q_type a =? q_type b) then false else
  if negb (q_class a =? q_class b) then false else
  let na := cstr (q_name a) in
  let nb := cstr (q_name b) in
  let la := lenN na in
  let lb := lenN nb in
  let la' := if la =? lb then la else trim_dots_len (rev na) la in
  let lb' := if la =? lb then lb else trim_dots_len (rev nb) lb in
  if negb (la' =? lb') then false else
  list_eqb (map lower (takeN la' na)) (map lower (takeN la' nb)).

(* ================= reference encoder (specification side) ================= *)
(* a name as a list of labels, each 1..63 bytes; text form = labels joined by '.' *)
Fixpoint join_dots (labels : list bytes) : bytes :=
  match labels with
  | [] => []
  | [l] => l
  | l :: r => l ++ [46] ++ join_dots r
  end.

Fixpoint enc_labels (labels : list bytes) : bytes :=
  match labels with
  | [] => []
  | l :: r => lenN l :: l ++ enc_labels r
  end.
Definition enc_name (labels : list bytes) : bytes := enc_labels labels ++ [0].

Definition enc_header (h : header) : bytes :=
  be16 (h_id h) ++
  be16 (h_qr h * 32768 + h_opcode h * 2048 + h_aa h * 1024 + h_tc h * 512 + h_rd h * 256 + h_ra h * 128 + h_rcode h) ++
  be16 (h_qd h) ++ be16 (h_an h) ++ be16 (h_ns h) ++ be16 (h_ar h).
