// Shim found instead of the system <cassert> when the dns harness (h_dns) compiles /repo's dns
// sources: same assert() semantics, but a failed assertion raises a C++ exception that the
// harness reports as ASSERT instead of killing the process with abort().
// Deliberately no include guard (like the real header: every inclusion redefines assert).
#undef assert
extern void verifDnsAssertFail(const char *expr, const char *file, int line);
#define assert(e) ((e) ? static_cast<void>(0) : verifDnsAssertFail(#e, __FILE__, __LINE__))
