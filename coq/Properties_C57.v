(* Properties_C57.v — C57: rock rebuild indexes only intact entries from any disk image.
   Statements only; proofs live in RockrebuildProofs.v.

   [rebuild slotSize doublecheck img] is the model of the whole Rock::Rebuild job over a db image [img]
   (one element per db slot: what its first 4 KB say): Ok s = finished with index state s, Abort = an
   assert() failed, Thrown = an exception escaped the job (squid dies in both cases), NoFuel = model
   artefact. [readable e] = StoreMap::openForReadingAt would succeed on the anchor. [chain_of s i l] = l is
   the list of slots reached from slot i through the index's slice links up to the -1 terminator. *)
Require Import SquidV.Bytes SquidV.RockrebuildModel SquidV.RockrebuildProofs.
Require Import SquidV.gen.RockRebuild_gen.
Local Open Scope Z_scope.

(* --- termination: for every image the three link-following loops end within their fuel --- *)
Theorem C57_rebuild_terminates : forall slotSize doublecheck img,
  rebuild slotSize doublecheck img <> NoFuel.
Proof. exact rebuild_terminates. Qed.
Print Assumptions C57_rebuild_terminates.

(* --- every readable entry, for EVERY image: its chain ends, visits no slot twice, and consists of
       slots of the db that were loaded (mapped), finalized, with positive payload sizes --- *)
Theorem C57_readable_chain_complete_acyclic : forall slotSize doublecheck img s f,
  rebuild slotSize doublecheck img = Ok s -> readable (ents s f) = true ->
  exists l, chain_of s (a_start (ents s f)) l /\ NoDup l /\
    forall x, In x l -> 0 <= x < Z.of_nat (length img) /\ s_mapped (sls s x) = true /\
                        s_final (sls s x) = true /\ 0 < s_size (sls s x).
Proof. exact readable_chain_acyclic_loaded. Qed.
Print Assumptions C57_readable_chain_complete_acyclic.

(* --- no slot is in the chains of two readable entries --- *)
Theorem C57_readable_chains_share_no_slot : forall slotSize doublecheck img s f g l1 l2 x,
  rebuild slotSize doublecheck img = Ok s -> f <> g ->
  readable (ents s f) = true -> readable (ents s g) = true ->
  chain_of s (a_start (ents s f)) l1 -> chain_of s (a_start (ents s g)) l2 -> In x l1 -> In x l2 -> False.
Proof. exact readable_chains_disjoint. Qed.
Print Assumptions C57_readable_chains_share_no_slot.

(* --- sizes: the payload sizes of the chain add up to the entry size (anchor.basics.swap_file_sz);
       holds since /repo e9a49c7 (finalizeOrThrow compares the known size with the bytes seen) --- *)
Theorem C57_chain_sizes_add_up : forall slotSize doublecheck img s f l,
  rebuild slotSize doublecheck img = Ok s -> readable (ents s f) = true ->
  chain_of s (a_start (ents s f)) l -> sumsz s l = a_swapsz (ents s f).
Proof. exact readable_chain_sizes. Qed.
Print Assumptions C57_chain_sizes_add_up.

(* --- complete: the first (inode, metadata) slot of every readable entry was loaded --- *)
Theorem C57_readable_entry_has_inode : forall slotSize doublecheck img s f,
  rebuild slotSize doublecheck img = Ok s -> readable (ents s f) = true -> e_anch (ents s f) = true.
Proof. exact readable_anchored. Qed.
Print Assumptions C57_readable_entry_has_inode.

(* --- a finished rebuild leaves no entry locked for writing --- *)
Theorem C57_nothing_left_locked : forall slotSize doublecheck img s f,
  rebuild slotSize doublecheck img = Ok s -> e_state (ents s f) <> LeLoading -> a_writing (ents s f) = false.
Proof. exact nothing_left_locked. Qed.
Print Assumptions C57_nothing_left_locked.

(* --- all-ones size fields (repaired in e9a49c7): importEntry never lets one into the index, and the two
       images that used to trip the asserts are now rebuilt to an index with nothing readable --- *)
Theorem C57_allones_size_never_imported : forall h m e e',
  import_entry h m e = ImpOk e' -> a_swapsz e' <> rr_entry_size_max.
Proof. exact import_never_allones. Qed.
Print Assumptions C57_allones_size_never_imported.

Theorem C57_never_crashes_on_allones_entry_size :
  holds_after 131072 false
    [DHdr (mkHdr 5 7 rr_entry_size_max 200 1 0 (-1)) (MOk true 5 7 0 false 75); dE; dE; dE; dE; dE; dE]
    (fun s => forall f, 0 <= f < 7 -> readable (ents s f) = false).
Proof. exact allones_entry_size_regress. Qed.
Print Assumptions C57_never_crashes_on_allones_entry_size.

Theorem C57_never_crashes_on_allones_metadata_size :
  holds_after 131072 false
    [DHdr (mkHdr 5 7 0 100 1 0 (-1)) (MOk true 5 7 rr_entry_size_max false 75); dE; dE; dE; dE; dE; dE]
    (fun s => forall f, 0 <= f < 7 -> readable (ents s f) = false).
Proof. exact allones_meta_size_regress. Qed.
Print Assumptions C57_never_crashes_on_allones_metadata_size.

(* --- "without crashing" is still FALSE: cross-linked chains kill squid (known finding C57-cross-linked-chains) --- *)
Theorem C57_never_crashes_refuted_cross_linked : rebuild 131072 false img_double_free = Abort.
Proof. exact crash_double_free_witness. Qed.
Print Assumptions C57_never_crashes_refuted_cross_linked.

Theorem C57_never_crashes_refuted_doublecheck : exists s, rebuild 131072 true img_freed_slot_in_use = Thrown s.
Proof. exact crash_doublecheck_witness. Qed.
Print Assumptions C57_never_crashes_refuted_doublecheck.

(* --- "that no other entry uses" is false beyond the index itself: a readable entry's slot can sit in the
       free-slot index, from where the next swap-out takes it --- *)
Theorem C57_chain_slots_not_free_refuted :
  holds_after 131072 false img_freed_slot_in_use (fun s =>
    readable (ents s 1) = true /\ chain_of s (a_start (ents s 1)) [1; 0] /\ In 0 (free s)).
Proof. exact freed_slot_in_use_witness. Qed.
Print Assumptions C57_chain_slots_not_free_refuted.

(* --- chains can mix cells of two keys, and of two versions of one key --- *)
Theorem C57_chain_of_one_key_refuted :
  holds_after 131072 false img_hodgepodge (fun s =>
    readable (ents s 1) = true /\ a_k0 (ents s 1) = 1 /\ chain_of s (a_start (ents s 1)) [1; 0] /\
    readable (ents s 2) = true /\ a_k0 (ents s 2) = 2 /\ chain_of s (a_start (ents s 2)) [4; 2]).
Proof. exact hodgepodge_witness. Qed.
Print Assumptions C57_chain_of_one_key_refuted.

Theorem C57_chain_of_one_version_refuted :
  holds_after 131072 false
    [DHdr (mkHdr 5 7 0 100 2 0 1) (MOk true 5 7 0 false 75); DHdr (mkHdr 5 7 0 100 1 0 (-1)) MBad; dE; dE; dE; dE; dE]
    (fun s => readable (ents s 5) = true /\ chain_of s (a_start (ents s 5)) [0; 1] /\ a_swapsz (ents s 5) = 200).
Proof. exact version_mix_witness. Qed.
Print Assumptions C57_chain_of_one_version_refuted.

(* --- PARTIAL, what does hold about keys and versions: in an image in which no used cell links to a used cell
       of another key and the swap metadata keys equal the cell keys, every slot of a readable chain holds a
       cell stamped with the entry's key; if moreover cells of one key carry one version, one version --- *)
Theorem C57_chain_of_one_key_partial : forall slotSize doublecheck img s f l,
  rebuild slotSize doublecheck img = Ok s -> no_cross_key_links slotSize img -> meta_keys_match img ->
  readable (ents s f) = true -> chain_of s (a_start (ents s f)) l ->
  forall x, In x l -> exists h m, live slotSize img x h m /\ h_k0 h = a_k0 (ents s f) /\ h_k1 h = a_k1 (ents s f).
Proof. exact readable_chain_one_key_partial. Qed.
Print Assumptions C57_chain_of_one_key_partial.

Theorem C57_chain_of_one_version_partial : forall slotSize doublecheck img s f l,
  rebuild slotSize doublecheck img = Ok s -> no_cross_key_links slotSize img -> meta_keys_match img ->
  (forall x y hx mx hy my, live slotSize img x hx mx -> live slotSize img y hy my ->
      h_k0 hx = h_k0 hy -> h_k1 hx = h_k1 hy -> h_ver hx = h_ver hy) ->
  readable (ents s f) = true -> chain_of s (a_start (ents s f)) l ->
  forall x y hx mx hy my, In x l -> In y l -> live slotSize img x hx mx -> live slotSize img y hy my -> h_ver hx = h_ver hy.
Proof. exact readable_chain_one_version_partial. Qed.
Print Assumptions C57_chain_of_one_version_partial.

(* --- the hypotheses of the implications are met by concrete images --- *)
Example C57_example_plain_entry_indexed :
  holds_after 131072 false
    [dE; dE; dE; DHdr (mkHdr 5 7 200 200 1 3 (-1)) (MOk true 5 7 0 false 75); dE; dE; dE] (fun s =>
    readable (ents s 5) = true /\ chain_of s (a_start (ents s 5)) [3] /\ sumsz s [3] = 200 /\
    a_swapsz (ents s 5) = 200).
Proof. exact plain_entry_example. Qed.

Example C57_example_two_entries_indexed :
  holds_after 131072 false
    [DHdr (mkHdr 1 0 300 100 1 0 2) (MOk true 1 0 0 false 75);
     DHdr (mkHdr 2 0 0 50 4 1 3) (MOk true 2 0 0 false 75);
     DHdr (mkHdr 1 0 0 200 1 0 (-1)) MBad;
     DHdr (mkHdr 2 0 0 60 4 1 (-1)) MBad; dE; dE; dE] (fun s =>
    readable (ents s 1) = true /\ chain_of s (a_start (ents s 1)) [0; 2] /\
    readable (ents s 2) = true /\ chain_of s (a_start (ents s 2)) [1; 3] /\ a_swapsz (ents s 2) = 110).
Proof. exact two_entries_example. Qed.

Example C57_example_partial_hypotheses : no_cross_key_links 262144 img_two /\ meta_keys_match img_two /\
  holds_after 262144 false img_two (fun s =>
    readable (ents s 1) = true /\ chain_of s (a_start (ents s 1)) [0; 2] /\
    readable (ents s 2) = true /\ chain_of s (a_start (ents s 2)) [1; 3] /\ a_swapsz (ents s 2) = 110).
Proof. exact img_two_hypotheses. Qed.
