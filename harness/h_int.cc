// Harness: Parser::Tokenizer::int64, httpHeaderParseOffset, httpHeaderParseInt from /repo's working tree.
#include "squid.h"
#include "HttpHeaderTools.h"
#include "parser/Tokenizer.h"
#include "sbuf/SBuf.h"
#include "hcommon.h"

int main() {
    std::string line;
    while (std::getline(std::cin, line)) {
        auto a = splitws(line);
        if (a.empty()) { std::cout << "\n"; continue; }
        std::ostringstream o;
        const std::string raw = unhex(a.size() > 1 ? a[1] : "-"); // c_str() gives the NUL-terminated view
        if (a[0] == "hdr.offset") {
            int64_t v = 0; char *end = nullptr;
            if (httpHeaderParseOffset(raw.c_str(), &v, &end)) o << "ok " << v << " " << (end - raw.c_str());
            else o << "fail";
        } else if (a[0] == "hdr.int") {
            int v = 0;
            if (httpHeaderParseInt(raw.c_str(), &v)) o << "ok " << v; else o << "fail";
        } else if (a[0] == "tok.int64") {
            const std::string in = unhex(a[4]);
            Parser::Tokenizer t(SBuf(in.data(), in.size())); int64_t v = 0;
            if (t.int64(v, std::stoi(a[1]), a[2] == "1", static_cast<SBuf::size_type>(std::stoull(a[3]))))
                o << "ok " << v << " " << t.parsedSize();
            else { o << "fail"; if (t.parsedSize() != 0) o << " BAD-STATE"; }
        } else o << "ERR unknown-entry " << a[0];
        std::cout << o.str() << "\n" << std::flush;
    }
    return 0;
}
