// Harness: html_quote (src/html/Quoting.cc), rfc1738_do_escape / rfc1738_unescape (lib/rfc1738.cc),
// AnyP::Uri::Encode / Decode (src/anyp/Uri.cc), Format::QuoteMimeBlob (src/format/Quoting.cc),
// all compiled from /repo's working tree.
// stdin: one case per line (same syntax as ml/run_quote.ml); stdout: one result line.
#include "squid.h"
#include "anyp/Uri.h"
#include "anyp/UriScheme.h"
#include "base/CharacterSet.h"
#include "format/Quoting.h"
#include "html/Quoting.h"
#include "rfc1738.h"
#include "sbuf/SBuf.h"
#include "hcommon.h"

#include <cstdlib>
#include <cstring>
#include <memory>

static CharacterSet setOf(const std::string &h) {
    CharacterSet s("h", "");
    for (int c = 0; c < 256; ++c) {
        int b = (hexval(h[2 * (c / 8)]) << 4) | hexval(h[2 * (c / 8) + 1]);
        if ((b >> (c % 8)) & 1) s.add(static_cast<unsigned char>(c));
    }
    return s;
}
static std::string sb2s(const SBuf &b) { return std::string(b.rawContent(), b.length()); }

// Encode() exactly as Uri::absolute() applies it to the userinfo subcomponent
static std::string userinfoImage(const std::string &raw) {
    if (raw.empty()) return raw; // absolute() prints no userinfo at all
    AnyP::Uri u;
    u.setScheme(AnyP::PROTO_FTP, "ftp");
    u.host("h");
    u.userInfo(SBuf(raw.data(), raw.size()));
    const std::string abs = sb2s(u.absolute());
    const std::string pre = "ftp://";
    const std::string post = "@h";
    if (abs.size() < pre.size() + post.size() || abs.compare(0, pre.size(), pre) != 0 ||
            abs.compare(abs.size() - post.size(), post.size(), post) != 0)
        throw std::runtime_error("absolute(): unexpected shape " + tohex(abs));
    return abs.substr(pre.size(), abs.size() - pre.size() - post.size());
}
// Encode() exactly as Uri::absolutePath() applies it
static std::string pathImage(const std::string &raw) {
    AnyP::Uri u;
    u.setScheme(AnyP::PROTO_HTTP, "http");
    u.host("h");
    u.path(SBuf(raw.data(), raw.size()));
    return sb2s(u.absolutePath());
}
static std::string encodeBy(const std::string &set, const std::string &raw) {
    if (set == "ui") return userinfoImage(raw);
    if (set == "path") return pathImage(raw);
    if (set == "unres") return sb2s(AnyP::Uri::Encode(SBuf(raw.data(), raw.size()), CharacterSet::RFC3986_UNRESERVED()));
    return sb2s(AnyP::Uri::Encode(SBuf(raw.data(), raw.size()), setOf(set)));
}
static std::string decodeStr(const std::string &enc) {
    const auto d = AnyP::Uri::Decode(SBuf(enc.data(), enc.size()));
    if (!d) return "bad";
    return "ok " + tohex(sb2s(*d));
}
// rfc1738_unescape() on an exact-size heap copy (content + NUL), so that a sanitizer sees any
// access past the terminator; prints the resulting C string and the whole buffer
static std::string unescapeStr(const std::string &content) {
    const size_t n = content.size() + 1;
    std::unique_ptr<char[]> buf(new char[n]);
    memcpy(buf.get(), content.data(), content.size());
    buf[n - 1] = '\0';
    rfc1738_unescape(buf.get());
    const size_t l = strnlen(buf.get(), n);
    if (l >= n) return "BAD-UNTERMINATED " + tohex(buf.get(), n);
    return "ok " + tohex(buf.get(), l) + " " + tohex(buf.get(), n);
}

int main() {
    AnyP::UriScheme::Init();
    std::string line;
    while (std::getline(std::cin, line)) {
        auto a = splitws(line);
        if (a.empty()) { std::cout << "\n"; continue; }
        const std::string &op = a[0];
        std::ostringstream o;
        try {
            if (op == "html") {
                const std::string in = unhex(a[1]);
                o << tohex(std::string(html_quote(in.c_str())));
            }
            else if (op == "mime") {
                const std::string in = unhex(a[1]);
                char *r = Format::QuoteMimeBlob(in.c_str());
                o << tohex(std::string(r));
                xfree(r);
            }
            else if (op == "esc") {
                const std::string in = unhex(a[2]);
                const std::string e = rfc1738_do_escape(in.c_str(), std::stoi(a[1]));
                o << tohex(e) << " " << unescapeStr(e);
            }
            else if (op == "unesc") {
                o << unescapeStr(unhex(a[1]));
            }
            else if (op == "uri.rt") {
                const std::string e = encodeBy(a[1], unhex(a[2]));
                o << tohex(e) << " " << decodeStr(e);
            }
            else if (op == "uri.dec") {
                o << decodeStr(unhex(a[1]));
            }
            else o << "ERR unknown-entry " << op;
        } catch (const std::exception &e) { o.str(""); o << "EXC " << e.what(); }
        catch (...) { o.str(""); o << "EXC"; }
        std::cout << o.str() << "\n" << std::flush;
    }
    return 0;
}
