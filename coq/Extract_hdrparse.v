(* Extract_hdrparse.v — extraction of the header-block models (C25) to OCaml; ExtrOcamlBasic only. *)
Require Import ExtrOcamlBasic.
Require Import SquidV.Bytes SquidV.ClenModel SquidV.HdrparseModel SquidV.gen.HdrTable_gen.
Extraction "m_hdrparse.ml"
  relaxed_of h_parse h_pack h_entry_parse h_block_fields hdr_table
  he_id he_name he_value hr_entries hr_conflicting hr_teUnsupported.
