(* Extraction of the Ipc::TypedMsgHdr model (C58). ExtrOcamlBasic only. *)
Require Import ExtrOcamlBasic.
Require Import SquidV.Bytes SquidV.TypedmsgModel.
Extraction "m_typedmsg.ml" tm_fresh tm_step tm_run raw_of int_bytes bytes_int.
