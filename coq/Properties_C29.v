(* Properties_C29.v — C29: Cache-Control directives parse and re-serialise faithfully.
   Statements only; proofs live in CcProofs.v. *)
Require Import SquidV.Bytes SquidV.HopModel SquidV.HopProofs SquidV.TokModel SquidV.Int64Proofs.
Require Import SquidV.gen.CcNames_gen SquidV.CcModel SquidV.CcProofs.
Local Open Scope N_scope.

(* the parse loop never runs out of fuel and is a left fold of the loop body over the (element, tail)
   pairs whose elements are exactly the strListGetItem(',') elements of the value *)
Theorem C29_parse_is_fold_over_list_elements : forall st v,
  cc_parse_from st v = Some (fold_left step_pair (pairs_of v) st) /\
  map fst (pairs_of v) = list_items 44 v.
Proof. exact parse_fold_pairs. Qed.
Print Assumptions C29_parse_is_fold_over_list_elements.

(* on quote-free text the elements are the comma-split, OWS-trimmed, non-empty pieces (HopProofs) *)
Theorem C29_elements_are_comma_split : forall v, simple v = true -> list_items 44 v = ref_items v.
Proof. exact list_items_is_ref. Qed.
Print Assumptions C29_elements_are_comma_split.

(* httpHeaderParseInt(p) and httpHeaderParseQuotedString(p, len) get a pointer into the whole value; what
   they compute depends on the element only *)
Theorem C29_argument_reads_are_local : forall v, Forall (fun p => forall st,
  cc_step st (fst p) (snd p) = cc_step st (fst p) (fst p)) (pairs_of v).
Proof. exact pairs_local. Qed.
Print Assumptions C29_argument_reads_are_local.

(* MAIN 1: for ALL values, the parsed object is the first-match specification over the elements:
   mask = directives present; numeric members = first non-negative int that fits; max-stale = first occurrence
   (valueless form when its argument is not such an int); private / no-cache texts = first (valid) occurrence;
   other = unknown elements joined by ", " *)
Theorem C29_parse_exact : forall v, cc_parse v = Some (spec_cc (list_items 44 v)).
Proof. exact cc_parse_exact. Qed.
Print Assumptions C29_parse_exact.

(* a numeric directive is only ever stored with a non-negative value that fits an int *)
Theorem C29_numeric_value_fits : forall it n, d_num it = Some n -> (0 <= n < 2147483648)%Z.
Proof. exact d_num_range. Qed.
Print Assumptions C29_numeric_value_fits.

(* MAIN 2: invalid numeric values are treated as absent *)
Theorem C29_invalid_numeric_absent : forall v F st,
  cc_parse v = Some st -> strict_numeric F ->
  (forall it, In it (list_items 44 v) -> d_type it = F -> d_num it = None) ->
  isSet st F = false /\ get_num st F = (-1)%Z.
Proof. exact cc_invalid_numeric_absent. Qed.
Print Assumptions C29_invalid_numeric_absent.

(* max-stale: the first occurrence decides; an invalid argument leaves the valueless form *)
Theorem C29_max_stale_invalid_is_valueless : forall v st it,
  cc_parse v = Some st ->
  find (fun i => d_type i =? CC_MAX_STALE) (list_items 44 v) = Some it ->
  isSet st CC_MAX_STALE = true /\
  max_stale st = match d_num it with Some n => n | None => MAX_STALE_ANY end.
Proof. exact cc_max_stale_first. Qed.
Print Assumptions C29_max_stale_invalid_is_valueless.

(* MAIN (quoted arguments): for ALL inputs httpHeaderParseQuotedString over the whole argument is RFC 9110
   quoted-string decoding -- qdtext incl. HTAB, quoted-pairs unescaped to the escaped octet (also DQUOTE and
   backslash) -- with the two documented leniencies written into rfc_unquote: LWS folding reads as one SP and
   whatever follows the closing DQUOTE is ignored; anything else is rejected *)
Theorem C29_quoted_string_is_rfc : forall arg,
  parse_quoted_string arg (lenN arg) = qres_of (rfc_unquote arg).
Proof. exact pqs_is_rfc. Qed.
Print Assumptions C29_quoted_string_is_rfc.

(* decode (encode X) = X: what httpHeaderQuoteString writes (DQUOTE and backslash escaped) reads back as X,
   for every text of HTAB / SP / VCHAR / obs-text octets, whatever follows the closing quote *)
Theorem C29_quote_then_unquote : forall X junk, forallb txt_char X = true ->
  rfc_unquote (quote_string X ++ junk) = Some X /\
  parse_quoted_string (quote_string X) (lenN (quote_string X)) = QOk X.
Proof. exact quote_roundtrip. Qed.
Print Assumptions C29_quote_then_unquote.

(* what parse() produces is well formed: numeric members of present directives are non-negative ints, the quoted
   texts contain no DQUOTE / backslash / CTL, absent directives hold their defaults, no bit at or above CC_OTHER *)
Theorem C29_parsed_object_wellformed : forall v st, cc_parse v = Some st -> cc_wf st.
Proof. exact cc_parse_wf. Qed.
Print Assumptions C29_parsed_object_wellformed.

(* "%d" of a non-negative int is read back by httpHeaderParseInt *)
Theorem C29_decimal_reads_back : forall n, (0 <= n < 2147483648)%Z -> parse_int (dec_of_Z n) = Some n.
Proof. exact parse_int_dec. Qed.
Print Assumptions C29_decimal_reads_back.

(* strListGetItem re-splits elements joined by ", " into exactly those elements (elements that end outside
   a quoted string, do not start with a delimiter, do not end with white space) *)
Theorem C29_joined_elements_resplit : forall l, Forall good_item l -> list_items 44 (joinr l) = l.
Proof. exact list_items_joinr. Qed.
Print Assumptions C29_joined_elements_resplit.

(* packInto writes the present known directives, in id order, joined by ", "; reading those elements back
   through the specification gives the object *)
Theorem C29_pack_is_joined_elements : forall st, cc_wf st -> cc_ok st = true -> other st = [] ->
  cc_pack st = joinr (known st) /\ Forall good_item (known st) /\ spec_cc (known st) = st.
Proof. exact pack_joined. Qed.
Print Assumptions C29_pack_is_joined_elements.

(* MAIN 3 (partial): parse (pack (parse v)) = parse v for every value whose parse succeeds and holds no unknown
   directive. NOT covered by the proof: objects with a non-empty `other` (unknown directives are appended
   verbatim after the known ones; that case rests on the correspondence run and the round-trip oracle). *)
Theorem C29_pack_parse_roundtrip_partial : forall v st,
  cc_parse v = Some st -> cc_ok st = true -> other st = [] -> cc_parse (cc_pack st) = Some st.
Proof. exact cc_roundtrip_known. Qed.
Print Assumptions C29_pack_parse_roundtrip_partial.

(* ---- hypotheses are satisfiable / statements are not vacuous ---- *)
Example ex_parse_exact :
  spec_cc (list_items 44 ex_value) =
  mkcc 138 5 (-1) (-1) (-1) (-1) [83;101;116;45;67;111;111;107;105;101] [] [102;111;111].
Proof. vm_compute. reflexivity. Qed.
Example ex_invalid_hyp : forall F, strict_numeric F ->
  forall it, In it (list_items 44 ex_invalid) -> d_type it = F -> d_num it = None.
Proof. exact ex_invalid_all. Qed.
Example ex_invalid_items : map d_type (list_items 44 ex_invalid) = [CC_MAX_AGE; CC_S_MAXAGE].
Proof. vm_compute. reflexivity. Qed.
(* max-stale=abc *)
Example ex_max_stale :
  match find (fun i => d_type i =? CC_MAX_STALE) (list_items 44 [109;97;120;45;115;116;97;108;101;61;97;98;99]) with
  | Some it => match d_num it with None => true | Some _ => false end
  | None => false
  end = true.
Proof. vm_compute. reflexivity. Qed.
(* the former counterexamples: DQUOTE a BACKSLASH DQUOTE b DQUOTE / a BACKSLASH BACKSLASH b / A , HTAB B *)
Example ex_quoted_pairs :
  parse_quoted_string wit_qpair (lenN wit_qpair) = QOk [97; 34; 98] /\
  parse_quoted_string wit_qback (lenN wit_qback) = QOk [97; 92; 98] /\
  parse_quoted_string wit_htab (lenN wit_htab) = QOk [65; 44; 9; 66].
Proof. vm_compute. repeat split; reflexivity. Qed.
(* private=DQUOTE a BACKSLASH DQUOTE b DQUOTE parses to a DQUOTE b and is packed re-quoted *)
Example ex_requoted :
  match cc_parse ([112;114;105;118;97;116;101;61] ++ wit_qpair) with
  | Some st => list_eqb (private_ st) [97; 34; 98] &&
               list_eqb (cc_pack st) ([112;114;105;118;97;116;101;61] ++ wit_qpair)
  | None => false
  end = true.
Proof. vm_compute. reflexivity. Qed.
Example ex_txt : forallb txt_char [97; 34; 92; 9; 98; 200] = true.
Proof. vm_compute. reflexivity. Qed.
Example ex_simple : simple [109;97;120;45;97;103;101;61;53;44;32;110;111;45;115;116;111;114;101] = true.
Proof. vm_compute. reflexivity. Qed.
Example ex_roundtrip_hyp :
  match cc_parse ex_known with
  | Some st => cc_ok st && (lenN (other st) =? 0) && (cmask st =? 646) && (max_age st =? 60)%Z &&
               (max_stale st =? MAX_STALE_ANY)%Z && negb (lenN (no_cache st) =? 0) &&
               negb (list_eqb (cc_pack st) ex_known)
  | None => false
  end = true.
Proof. vm_compute. reflexivity. Qed.
