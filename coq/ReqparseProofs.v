(* ReqparseProofs.v — proofs about ReqparseModel.v (C21, C22, C62). *)
Require Import SquidV.Bytes SquidV.TokModel SquidV.TokProofs SquidV.Incremental SquidV.ReqparseModel.
Require Import SquidV.gen.CharSets_gen SquidV.gen.ReqTabs_gen.
Require Import ZifyBool ZifyN ZifyNat.
Local Open Scope N_scope.

(* ------------------------------------------------------------------ *)
(* lists                                                               *)
(* ------------------------------------------------------------------ *)
Lemma lenN_nonneg {A} (l : list A) : 0 <= lenN l.
Proof. lia. Qed.

Lemma takeN_app_le {A} n (a b : list A) : n <= lenN a -> takeN n (a ++ b) = takeN n a.
Proof.
  revert n; induction a as [|x a IH]; intros n H; cbn [lenN] in H.
  - assert (n = 0) by lia. subst. rewrite !takeN_0. reflexivity.
  - cbn [app takeN]. destruct (n =? 0) eqn:E; [reflexivity|].
    rewrite IH by lia. reflexivity.
Qed.

Lemma dropN_app_le {A} n (a b : list A) : n <= lenN a -> dropN n (a ++ b) = dropN n a ++ b.
Proof.
  revert n; induction a as [|x a IH]; intros n H; cbn [lenN] in H.
  - assert (n = 0) by lia. subst. rewrite !dropN_0. reflexivity.
  - cbn [app dropN]. destruct (n =? 0) eqn:E; [reflexivity|].
    rewrite IH by lia. reflexivity.
Qed.

Lemma lenN_dropN {A} n (l : list A) : lenN (dropN n l) = lenN l - n.
Proof.
  revert n; induction l as [|x l IH]; intros n; cbn [dropN lenN]; [lia|].
  destruct (n =? 0) eqn:E; cbn [lenN]; [lia|]. rewrite IH. lia.
Qed.

(* span over an extended list *)
Lemma span_app_stop {A} (p : A -> bool) l x a y b :
  span p l = (a, y :: b) -> span p (l ++ x) = (a, (y :: b) ++ x).
Proof.
  revert a; induction l as [|c l IH]; intros a H; cbn [span] in H; [discriminate|].
  cbn [app span]. destruct (p c) eqn:E.
  - destruct (span p l) as [a' b'] eqn:S. inversion H; subst.
    rewrite (IH a' eq_refl). reflexivity.
  - inversion H; subst. reflexivity.
Qed.

Lemma span_app_all {A} (p : A -> bool) l x a :
  span p l = (a, []) -> span p (l ++ x) = (l ++ fst (span p x), snd (span p x)).
Proof.
  revert a; induction l as [|c l IH]; intros a H; cbn [span] in H.
  - cbn [app]. destruct (span p x); reflexivity.
  - cbn [app span]. destruct (p c) eqn:E; [|discriminate].
    destruct (span p l) as [a' b'] eqn:S. inversion H; subst.
    rewrite (IH a' eq_refl). reflexivity.
Qed.

Lemma span_nil_r {A} (p : A -> bool) l a : span p l = (a, []) -> a = l.
Proof.
  intros H. pose proof (span_app p l) as G. rewrite H in G. cbn [fst snd] in G.
  rewrite app_nil_r in G. exact G.
Qed.

(* ------------------------------------------------------------------ *)
(* the generated LF set is {10}                                        *)
(* ------------------------------------------------------------------ *)
Lemma tbl_get_out {A} (d : A) t c : lenN t <= c -> tbl_get d t c = d.
Proof.
  revert c; induction t as [|x t IH]; intros c H; cbn [tbl_get]; [reflexivity|].
  cbn [lenN] in H. destruct (c =? 0) eqn:E; [lia|]. apply IH. lia.
Qed.

Lemma cs_LF_is_10 c : cs_LF c = (c =? 10).
Proof.
  destruct (c <? 256) eqn:Hc.
  - assert (H : c < 256) by lia.
    pose proof (forallb_bytes (fun c => Bool.eqb (cs_LF c) (c =? 10)) ltac:(vm_compute; reflexivity) c H) as G.
    cbv beta in G. apply Bool.eqb_prop in G. exact G.
  - unfold cs_LF, mem_tbl. rewrite tbl_get_out by (vm_compute lenN; lia). lia.
Qed.

Lemma not_lf_spec c : not_lf c = negb (c =? 10).
Proof. unfold not_lf. now rewrite cs_LF_is_10. Qed.

(* ------------------------------------------------------------------ *)
(* find_line                                                           *)
(* ------------------------------------------------------------------ *)
(* inputs an SBuf can hold are shorter than npos (SBuf::maxSize = 0x0fffffff) *)
Definition fits (b : bytes) : Prop := lenN b <= npos.

Lemma fits_app_l a b : fits (a ++ b) -> fits a.
Proof. unfold fits. rewrite lenN_app. lia. Qed.

Lemma find_line_spec b : fits b ->
  find_line b =
  match span not_lf b with
  | ((_ :: _) as line, c :: rest) => Some (line, rest)
  | _ => None
  end.
Proof.
  intros Hf. unfold find_line. rewrite tok_prefix_eq_spec. unfold prefix_spec.
  rewrite takeN_all by exact Hf.
  pose proof (span_app not_lf b) as Happ. pose proof (span_stop not_lf b) as Hstop.
  destruct (span not_lf b) as [line r] eqn:S. cbn [fst snd] in *.
  destruct line as [|l0 line]; [reflexivity|].
  assert (Hd : dropN (lenN (l0 :: line)) b = r).
  { rewrite <- Happ at 1. apply dropN_app_exact. }
  rewrite Hd. destruct r as [|c rest]; cbn [tok_skipChar]; [reflexivity|].
  rewrite not_lf_spec in Hstop. destruct (c =? 10); [reflexivity|discriminate].
Qed.

Lemma find_line_ext b x line rest : fits (b ++ x) ->
  find_line b = Some (line, rest) -> find_line (b ++ x) = Some (line, rest ++ x).
Proof.
  intros Hf H. rewrite find_line_spec in H by (eapply fits_app_l; exact Hf).
  rewrite find_line_spec by exact Hf.
  destruct (span not_lf b) as [l r] eqn:S.
  destruct l as [|l0 l]; [discriminate|]. destruct r as [|c r]; [discriminate|].
  inversion H; subst. rewrite (span_app_stop _ _ x _ _ _ S). reflexivity.
Qed.

(* without a complete line in b, any line found after extension contains all of b *)
Lemma find_line_none_ext b x line rest : fits (b ++ x) ->
  find_line b = None -> find_line (b ++ x) = Some (line, rest) -> lenN b <= lenN line.
Proof.
  intros Hf H G. rewrite find_line_spec in H by (eapply fits_app_l; exact Hf).
  rewrite find_line_spec in G by exact Hf.
  destruct (span not_lf b) as [l r] eqn:S.
  destruct r as [|c r].
  - rewrite (span_app_all _ _ x _ S) in G.
    destruct (b ++ fst (span not_lf x)) as [|l0 l'] eqn:E; [discriminate|].
    destruct (snd (span not_lf x)); [discriminate|]. inversion G; subst.
    rewrite <- E, lenN_app. lia.
  - rewrite (span_app_stop _ _ x _ _ _ S) in G.
    destruct l as [|l0 l]; [discriminate|]. discriminate.
Qed.

Lemma find_line_len b line rest : fits b -> find_line b = Some (line, rest) -> lenN line < lenN b.
Proof.
  intros Hf H. rewrite find_line_spec in H by exact Hf.
  pose proof (span_app not_lf b) as Happ.
  destruct (span not_lf b) as [l r]. cbn [fst snd] in Happ.
  destruct l as [|l0 l]; [discriminate|]. destruct r as [|c r]; [discriminate|].
  inversion H as [[H1 H2]]. rewrite <- Happ, lenN_app. cbn [lenN]. lia.
Qed.

(* ------------------------------------------------------------------ *)
(* the blame rule looks at no more than maxMethodLength + 2 bytes       *)
(* ------------------------------------------------------------------ *)
Lemma span_fst_len {A} (p : A -> bool) l : lenN (fst (span p l)) <= lenN l.
Proof. pose proof (span_app p l) as H. rewrite <- H at 2. rewrite lenN_app. lia. Qed.

Lemma tok_prefix_ext set limit b x : limit <= lenN b ->
  tok_prefix set limit (b ++ x) =
  match tok_prefix set limit b with None => None | Some (m, t1) => Some (m, t1 ++ x) end.
Proof.
  intros H. rewrite !tok_prefix_eq_spec. unfold prefix_spec. rewrite takeN_app_le by exact H.
  pose proof (span_fst_len set (takeN limit b)) as Hl. rewrite lenN_takeN in Hl.
  destruct (fst (span set (takeN limit b))) as [|r0 run] eqn:R; [reflexivity|].
  f_equal. f_equal. apply dropN_app_le. lia.
Qed.

Lemma skip_delimiter_2 relaxed n : skip_delimiter relaxed (N.succ (N.succ n)) = relaxed.
Proof.
  unfold skip_delimiter.
  destruct (N.succ (N.succ n) =? 0) eqn:E0; [lia|].
  destruct (1 <? N.succ (N.succ n)) eqn:E1; [|lia].
  destruct relaxed; reflexivity.
Qed.

Lemma skip_delim_ext relaxed t x : 2 <= lenN t ->
  skip_delimiter relaxed (fst (tok_skipAll (delim relaxed) (t ++ x))) =
  skip_delimiter relaxed (fst (tok_skipAll (delim relaxed) t)).
Proof.
  intros H. rewrite !tok_skipAll_spec. cbn [fst].
  destruct t as [|a [|b r]]; cbn [lenN] in H; try lia.
  cbn [app span]. destruct (delim relaxed a); [|reflexivity].
  destruct (delim relaxed b).
  - destruct (span (delim relaxed) (r ++ x)) as [p q]. destruct (span (delim relaxed) r) as [p' q'].
    cbn [fst lenN]. rewrite !skip_delimiter_2. reflexivity.
  - reflexivity.
Qed.

Lemma blame_ext relaxed s b x : req_max_method + 2 <= lenN b ->
  blame relaxed s (b ++ x) = blame relaxed s b.
Proof.
  intros H. unfold blame, parse_method.
  rewrite tok_prefix_ext by lia.
  destruct (tok_prefix cs_TCHAR req_max_method b) as [[m t1]|] eqn:P; [|reflexivity].
  apply tok_prefix_sound in P. destruct P as (Hb & _ & _ & Hm & _).
  assert (Ht : 2 <= lenN t1) by (rewrite <- Hb, lenN_app in H; lia).
  pose proof (skip_delim_ext relaxed t1 x Ht) as G.
  destruct (tok_skipAll (delim relaxed) (t1 ++ x)) as [cnt t2].
  destruct (tok_skipAll (delim relaxed) t1) as [cnt' t2']. cbn [fst] in G. rewrite G.
  destruct (skip_delimiter relaxed cnt'); reflexivity.
Qed.

(* ------------------------------------------------------------------ *)
(* parseRequestFirstLine under extension of the buffer                  *)
(* ------------------------------------------------------------------ *)
Section FirstLine.
  Variables (relaxed : bool) (limit : N).
  Hypothesis Hlimit : req_max_method + 2 <= limit.

  Lemma first_line_more s b s1 b1 :
    first_line relaxed limit s b = (FLmore, s1, b1) -> s1 = s /\ b1 = b.
  Proof.
    unfold first_line.
    destruct (match find_line b with
              | Some (line, rest) => if limit <=? lenN line then None else Some (line, rest)
              | None => None end) as [[line rest]|].
    - destruct (parse_line relaxed s line) as [s' [|]]; intros H; inversion H.
    - destruct (limit <=? lenN b); intros H; inversion H; auto.
  Qed.

  Lemma first_line_bad_ext s b x s1 b1 : fits (b ++ x) ->
    first_line relaxed limit s b = (FLbad, s1, b1) ->
    first_line relaxed limit s (b ++ x) = (FLbad, s1, b ++ x).
  Proof.
    intros Hf. unfold first_line.
    destruct (find_line b) as [[line rest]|] eqn:FL.
    - rewrite (find_line_ext _ x _ _ Hf FL).
      pose proof (find_line_len _ _ _ (fits_app_l _ _ Hf) FL) as Hlen.
      destruct (limit <=? lenN line) eqn:LL.
      + assert (limit <=? lenN b = true) as -> by lia.
        assert (limit <=? lenN (b ++ x) = true) as -> by (rewrite lenN_app; lia).
        intros H; inversion H; subst s1 b1. rewrite blame_ext by lia. reflexivity.
      + destruct (parse_line relaxed s line) as [s' [|]]; intros H; inversion H; subst s1 b1. reflexivity.
    - destruct (limit <=? lenN b) eqn:LB; intros H; inversion H; subst s1 b1.
      assert (limit <=? lenN (b ++ x) = true) as -> by (rewrite lenN_app; lia).
      destruct (find_line (b ++ x)) as [[line rest]|] eqn:FL2.
      + pose proof (find_line_none_ext _ _ _ _ Hf FL FL2) as Hl.
        assert (limit <=? lenN line = true) as -> by lia.
        rewrite blame_ext by lia. reflexivity.
      + rewrite blame_ext by lia. reflexivity.
  Qed.

  Lemma first_line_ok_ext s b x s1 rest : fits (b ++ x) ->
    first_line relaxed limit s b = (FLok, s1, rest) ->
    first_line relaxed limit s (b ++ x) = (FLok, s1, rest ++ x).
  Proof.
    intros Hf. unfold first_line.
    destruct (find_line b) as [[line rest']|] eqn:FL.
    - rewrite (find_line_ext _ x _ _ Hf FL).
      destruct (limit <=? lenN line) eqn:LL.
      + destruct (limit <=? lenN b); intros H; inversion H.
      + destruct (parse_line relaxed s line) as [s' [|]]; intros H; inversion H; subst. reflexivity.
    - destruct (limit <=? lenN b); intros H; inversion H.
  Qed.

  Lemma first_line_ok_rest s b s1 rest :
    first_line relaxed limit s b = (FLok, s1, rest) -> lenN rest <= lenN b.
  Proof.
    unfold first_line.
    destruct (find_line b) as [[line rest']|] eqn:FL.
    - destruct (limit <=? lenN line) eqn:LL.
      + destruct (limit <=? lenN b); intros H; inversion H.
      + destruct (parse_line relaxed s line) as [s' [|]]; intros H; inversion H; subst.
        unfold find_line in FL.
        destruct (tok_prefix not_lf npos b) as [[l r]|] eqn:P; [|discriminate].
        apply tok_prefix_sound in P. destruct P as (Hb & _).
        destruct r as [|c r]; cbn [tok_skipChar] in FL; [discriminate|].
        destruct (c =? 10); inversion FL; subst. rewrite lenN_app. cbn [lenN]. lia.
    - destruct (limit <=? lenN b); intros H; inversion H.
  Qed.
End FirstLine.

(* ------------------------------------------------------------------ *)
(* headersEnd under extension                                           *)
(* ------------------------------------------------------------------ *)
Lemma headers_end_go_range l st e f n f' :
  headers_end_go l st e f = (n, f') -> n = 0 \/ (e < n /\ n <= e + lenN l).
Proof.
  revert st e f; induction l as [|c l IH]; intros st e f H; cbn [headers_end_go] in H.
  - inversion H. left; reflexivity.
  - cbn [lenN].
    repeat match type of H with
           | (if ?c then _ else _) = _ => destruct c
           end;
      try (inversion H; subst; right; lia);
      (apply IH in H; destruct H as [H|H]; [left; exact H| right; lia]).
Qed.

Lemma headers_end_go_found l x st e f n f' :
  headers_end_go l st e f = (n, f') -> n <> 0 -> headers_end_go (l ++ x) st e f = (n, f').
Proof.
  revert st e f; induction l as [|c l IH]; intros st e f H Hn; cbn [headers_end_go] in H.
  - inversion H; subst. congruence.
  - cbn [app headers_end_go].
    repeat match type of H with
           | (if ?c then _ else _) = _ => destruct c
           end;
      try exact H; (apply IH; assumption).
Qed.

Lemma headers_end_go_later l x st e f f' n f'' :
  headers_end_go l st e f = (0, f') -> headers_end_go (l ++ x) st e f = (n, f'') ->
  n = 0 \/ e + lenN l < n.
Proof.
  revert st e f; induction l as [|c l IH]; intros st e f H G.
  - cbn [app] in G. apply headers_end_go_range in G. cbn [lenN]. destruct G as [G|G]; [left; exact G|right; lia].
  - cbn [headers_end_go] in H. cbn [app headers_end_go] in G. cbn [lenN].
    repeat match type of H with
           | (if ?c then _ else _) = _ => destruct c
           end;
      try (inversion H; lia);
      (destruct (IH _ _ _ H G) as [K|K]; [left; exact K|right; lia]).
Qed.

Lemma headers_end_found b x n f : headers_end b = (n, f) -> n <> 0 ->
  headers_end (b ++ x) = (n, f) /\ n <= lenN b.
Proof.
  unfold headers_end. intros H Hn. split; [apply headers_end_go_found; assumption|].
  apply headers_end_go_range in H. lia.
Qed.

Lemma headers_end_later b x f n f' : headers_end b = (0, f) -> headers_end (b ++ x) = (n, f') ->
  n = 0 \/ lenN b < n.
Proof. unfold headers_end. intros H G. pose proof (headers_end_go_later _ _ _ _ _ _ _ _ H G). lia. Qed.

(* ------------------------------------------------------------------ *)
(* grabMimeBlock / stage 3                                              *)
(* ------------------------------------------------------------------ *)
Lemma stage_set_stage s x : r_stage (set_stage s x) = x.
Proof. reflexivity. Qed.

Lemma grab_mime_true_ext limit s b x s1 b1 :
  grab_mime limit s b = (true, s1, b1) -> grab_mime limit s (b ++ x) = (true, s1, b1 ++ x).
Proof.
  unfold grab_mime. destruct (r_http s && (r_major s =? 1)).
  - destruct (headers_end b) as [e fold] eqn:HE.
    destruct (e =? 0) eqn:E0.
    + destruct (limit <=? lenN b + first_line_size s); intros H; inversion H.
    + destruct (headers_end_found b x e fold HE ltac:(lia)) as [HE' Hle]. rewrite HE', E0.
      destruct (limit <=? first_line_size s + e); intros H; inversion H; subst s1 b1.
      rewrite takeN_app_le, dropN_app_le by exact Hle. reflexivity.
  - intros H; inversion H; subst s1 b1. reflexivity.
Qed.

(* a failed grabMimeBlock either rejected (stage DONE, same state after any extension) or changed nothing *)
Lemma grab_mime_false limit s b s1 b1 :
  grab_mime limit s b = (false, s1, b1) ->
  (s1 = set_stage (set_code s rq_sc_header_too_large) SDone /\
   forall x, exists b2, grab_mime limit s (b ++ x) = (false, s1, b2)) \/
  (s1 = s /\ b1 = b).
Proof.
  unfold grab_mime. destruct (r_http s && (r_major s =? 1)).
  - destruct (headers_end b) as [e fold] eqn:HE.
    destruct (e =? 0) eqn:E0.
    + destruct (limit <=? lenN b + first_line_size s) eqn:L; intros H; inversion H; subst s1 b1; [left|right; auto].
      split; [reflexivity|]. intros x.
      assert (e = 0) by lia; subst e.
      destruct (headers_end (b ++ x)) as [e' fold'] eqn:HE'.
      destruct (headers_end_later b x fold e' fold' HE HE') as [K|K].
      * subst e'. cbn [N.eqb]. rewrite lenN_app.
        assert (limit <=? lenN b + lenN x + first_line_size s = true) as -> by lia. eauto.
      * assert (e' =? 0 = false) as -> by lia.
        assert (limit <=? first_line_size s + e' = true) as -> by lia. eauto.
    + destruct (headers_end_found b [] e fold HE ltac:(lia)) as [_ Hle].
      destruct (limit <=? first_line_size s + e) eqn:L; intros H; inversion H; subst s1 b1. left.
      split; [reflexivity|]. intros x.
      destruct (headers_end_found b x e fold HE ltac:(lia)) as [HE' _]. rewrite HE', E0, L. eauto.
  - intros H; inversion H.
Qed.

(* ------------------------------------------------------------------ *)
(* one parse() call, classified as the caller sees it                   *)
(* ------------------------------------------------------------------ *)
Definition classify (r : bool * rst * bytes) : outcome :=
  let '(ok, s1, rest) := r in
  if needs_more s1 then More s1 rest
  else if ok then Done (fields_of s1) rest
  else Bad (r_code s1, fields_of s1).

Lemma step_classify relaxed limit s b : step relaxed limit s b = classify (do_parse relaxed limit s b).
Proof. unfold step, classify. destruct (do_parse relaxed limit s b) as [[ok s1] rest]. reflexivity. Qed.

(* the parser never re-enters a call with the internal "header too large" code pending *)
Definition inv (s : rst) : Prop := r_code s <> rq_sc_header_too_large.

Lemma inv_rst0 : inv rst0.
Proof. unfold inv. vm_compute. discriminate. Qed.

Lemma grab_mime_true_stage limit s b s1 b1 : grab_mime limit s b = (true, s1, b1) -> r_stage s1 = SDone.
Proof.
  unfold grab_mime. destruct (r_http s && (r_major s =? 1)).
  - destruct (headers_end b) as [e fold]. destruct (e =? 0).
    + destruct (limit <=? lenN b + first_line_size s); intros H; inversion H.
    + destruct (limit <=? first_line_size s + e); intros H; inversion H; reflexivity.
  - intros H; inversion H; reflexivity.
Qed.

Lemma needs_more_stage s : needs_more s = negb (stage_eqb (r_stage s) SDone).
Proof. reflexivity. Qed.

Section Mime.
  Variable limit : N.

  Lemma mime_done_ext s b x f rest : r_stage s = SMime -> inv s ->
    classify (do_mime limit s b) = Done f rest -> classify (do_mime limit s (b ++ x)) = Done f (rest ++ x).
  Proof.
    intros Hst Hi. unfold do_mime. rewrite Hst. cbn [stage_eqb].
    destruct (grab_mime limit s b) as [[ok s1] b1] eqn:G. destruct ok.
    - rewrite (grab_mime_true_ext _ _ _ x _ _ G).
      pose proof (grab_mime_true_stage _ _ _ _ _ G) as Hd.
      unfold classify. rewrite !needs_more_stage, Hd. cbn [stage_eqb negb].
      intros H; inversion H; subst. reflexivity.
    - destruct (grab_mime_false _ _ _ _ _ G) as [[Hs1 _]|[Hs1 Hb1]].
      + subst s1. unfold classify. cbn. intros H. destruct (rq_sc_header_too_large =? rq_sc_header_too_large); inversion H.
      + subst s1 b1. unfold classify.
        assert (r_code s =? rq_sc_header_too_large = false) as -> by (unfold inv in Hi; lia).
        rewrite needs_more_stage, Hst. cbn. intros H; inversion H.
  Qed.

  Lemma mime_bad_ext s b x e : r_stage s = SMime -> inv s ->
    classify (do_mime limit s b) = Bad e -> classify (do_mime limit s (b ++ x)) = Bad e.
  Proof.
    intros Hst Hi. unfold do_mime. rewrite Hst. cbn [stage_eqb].
    destruct (grab_mime limit s b) as [[ok s1] b1] eqn:G. destruct ok.
    - pose proof (grab_mime_true_stage _ _ _ _ _ G) as Hd.
      unfold classify. rewrite !needs_more_stage, Hd. cbn [stage_eqb negb]. intros H; inversion H.
    - destruct (grab_mime_false _ _ _ _ _ G) as [[Hs1 Hx]|[Hs1 Hb1]].
      + destruct (Hx x) as [b2 G2]. rewrite G2. subst s1. unfold classify. cbn.
        destruct (rq_sc_header_too_large =? rq_sc_header_too_large); intros H; exact H.
      + subst s1 b1. unfold classify.
        assert (r_code s =? rq_sc_header_too_large = false) as -> by (unfold inv in Hi; lia).
        rewrite needs_more_stage, Hst. cbn. intros H; inversion H.
  Qed.

  Lemma mime_more s b s' keep : r_stage s = SMime -> inv s ->
    classify (do_mime limit s b) = More s' keep -> s' = s /\ keep = b.
  Proof.
    intros Hst Hi. unfold do_mime. rewrite Hst. cbn [stage_eqb].
    destruct (grab_mime limit s b) as [[ok s1] b1] eqn:G. destruct ok.
    - pose proof (grab_mime_true_stage _ _ _ _ _ G) as Hd.
      unfold classify. rewrite !needs_more_stage, Hd. cbn [stage_eqb negb]. intros H; inversion H.
    - destruct (grab_mime_false _ _ _ _ _ G) as [[Hs1 Hx]|[Hs1 Hb1]].
      + subst s1. unfold classify. cbn.
        destruct (rq_sc_header_too_large =? rq_sc_header_too_large); intros H; inversion H.
      + subst s1 b1. unfold classify.
        assert (r_code s =? rq_sc_header_too_large = false) as -> by (unfold inv in Hi; lia).
        rewrite needs_more_stage, Hst. cbn. intros H; inversion H; auto.
  Qed.
End Mime.

(* ------------------------------------------------------------------ *)
(* stage 2 (request line) followed by stage 3                           *)
(* ------------------------------------------------------------------ *)
Lemma parse_line_ok_code relaxed s line s1 : parse_line relaxed s line = (s1, true) -> r_code s1 = rq_sc_okay.
Proof.
  unfold parse_line.
  destruct (parse_method relaxed s line) as [s1' [t1|]]; [|intros H; inversion H].
  destruct (skip_trailing_crs relaxed s1' t1) as [s2 [t2|]]; [|intros H; inversion H].
  destruct (parse_version s2 t2) as [s3 [t3|]]; [|intros H; inversion H].
  destruct (if r_major s3 =? 0 then (true, s3, t3)
            else let '(cnt, t) := tok_skipAllTrailing (delim relaxed) t3 in
                 if skip_delimiter relaxed cnt then (true, s3, t)
                 else (false, set_code s3 rq_sc_bad_request, t)) as [[ok4 s4] t4].
  destruct ok4; [|intros H; inversion H].
  destruct (parse_uri relaxed s4 t4) as [s5 [t5|]]; [|intros H; inversion H].
  destruct t5; intros H; inversion H. reflexivity.
Qed.

Lemma first_line_ok_code relaxed limit s b s1 rest :
  first_line relaxed limit s b = (FLok, s1, rest) -> r_code s1 = rq_sc_okay.
Proof.
  unfold first_line.
  destruct (match find_line b with
            | Some (line, rest) => if limit <=? lenN line then None else Some (line, rest)
            | None => None end) as [[line rest']|].
  - destruct (parse_line relaxed s line) as [s' [|]] eqn:PL; intros H; inversion H; subst.
    eapply parse_line_ok_code; exact PL.
  - destruct (limit <=? lenN b); intros H; inversion H.
Qed.

Lemma okay_not_too_large : rq_sc_okay <> rq_sc_header_too_large.
Proof. vm_compute. discriminate. Qed.

Section First.
  Variables (relaxed : bool) (limit : N).
  Hypothesis Hlimit : req_max_method + 2 <= limit.

  Lemma do_parse_first s b : r_stage s = SFirst -> do_parse relaxed limit s b = do_first relaxed limit s b.
  Proof. intros H. unfold do_parse. rewrite H. reflexivity. Qed.
  Lemma do_parse_mime s b : r_stage s = SMime -> do_parse relaxed limit s b = do_mime limit s b.
  Proof. intros H. unfold do_parse, do_first. rewrite H. reflexivity. Qed.

  Lemma first_done_ext s b x f rest : r_stage s = SFirst -> fits (b ++ x) ->
    classify (do_first relaxed limit s b) = Done f rest ->
    classify (do_first relaxed limit s (b ++ x)) = Done f (rest ++ x).
  Proof.
    intros Hst Hf. unfold do_first. rewrite Hst. cbn [stage_eqb].
    destruct (first_line relaxed limit s b) as [[ret s1] b1] eqn:FL. destruct ret.
    - rewrite (first_line_ok_ext relaxed limit s b x s1 b1 Hf FL).
      apply mime_done_ext; [reflexivity|].
      unfold inv. cbn. rewrite (first_line_ok_code _ _ _ _ _ _ FL). exact okay_not_too_large.
    - destruct (first_line_more _ _ _ _ _ _ FL) as [-> ->].
      unfold do_mime. rewrite Hst. cbn [stage_eqb]. unfold classify. rewrite needs_more_stage, Hst. cbn.
      intros H; inversion H.
    - unfold classify. cbn. intros H; inversion H.
  Qed.

  Lemma first_bad_ext s b x e : r_stage s = SFirst -> fits (b ++ x) ->
    classify (do_first relaxed limit s b) = Bad e ->
    classify (do_first relaxed limit s (b ++ x)) = Bad e.
  Proof.
    intros Hst Hf. unfold do_first. rewrite Hst. cbn [stage_eqb].
    destruct (first_line relaxed limit s b) as [[ret s1] b1] eqn:FL. destruct ret.
    - rewrite (first_line_ok_ext relaxed limit s b x s1 b1 Hf FL).
      apply mime_bad_ext; [reflexivity|].
      unfold inv. cbn. rewrite (first_line_ok_code _ _ _ _ _ _ FL). exact okay_not_too_large.
    - destruct (first_line_more _ _ _ _ _ _ FL) as [-> ->].
      unfold do_mime. rewrite Hst. cbn [stage_eqb]. unfold classify. rewrite needs_more_stage, Hst. cbn.
      intros H; inversion H.
    - rewrite (first_line_bad_ext relaxed limit Hlimit s b x s1 b1 Hf FL).
      unfold classify. cbn. intros H; exact H.
  Qed.

  Lemma first_more_ext s b x s' keep : r_stage s = SFirst -> inv s -> fits (b ++ x) ->
    classify (do_first relaxed limit s b) = More s' keep ->
    classify (do_first relaxed limit s (b ++ x)) = step relaxed limit s' (keep ++ x) /\
    inv s' /\ lenN keep <= lenN b.
  Proof.
    intros Hst Hi Hf. unfold do_first at 1. rewrite Hst. cbn [stage_eqb].
    destruct (first_line relaxed limit s b) as [[ret s1] b1] eqn:FL. destruct ret.
    - intros H.
      assert (Hi1 : inv (set_stage s1 SMime)).
      { unfold inv. cbn. rewrite (first_line_ok_code _ _ _ _ _ _ FL). exact okay_not_too_large. }
      destruct (mime_more limit (set_stage s1 SMime) b1 s' keep eq_refl Hi1 H) as [-> ->].
      split; [|split; [exact Hi1| eapply first_line_ok_rest; eassumption]].
      unfold do_first. rewrite Hst. cbn [stage_eqb].
      rewrite (first_line_ok_ext relaxed limit s b x s1 b1 Hf FL).
      rewrite step_classify, do_parse_mime by reflexivity. reflexivity.
    - destruct (first_line_more _ _ _ _ _ _ FL) as [-> ->].
      unfold do_mime. rewrite Hst. cbn [stage_eqb]. unfold classify at 1. rewrite needs_more_stage, Hst. cbn.
      intros H; inversion H; subst s' keep.
      split; [|split; [exact Hi|lia]].
      rewrite step_classify, do_parse_first by exact Hst. reflexivity.
    - unfold classify. cbn. intros H; inversion H.
  Qed.
End First.

(* ------------------------------------------------------------------ *)
(* stage 1: leading empty lines                                         *)
(* ------------------------------------------------------------------ *)
Lemma list_eqb_13 b : list_eqb b [13] = true <-> b = [13].
Proof.
  destruct b as [|c [|d r]]; cbn [list_eqb]; split; intros H; try discriminate; try reflexivity.
  - destruct (c =? 13) eqn:E; [|discriminate]. apply N.eqb_eq in E. subst. reflexivity.
  - inversion H. reflexivity.
  - destruct (c =? 13); discriminate.
Qed.

Lemma skip_garbage_len b : lenN (skip_garbage b) <= lenN b.
Proof.
  induction b as [|c r IH]; cbn [skip_garbage lenN]; [lia|].
  destruct (c =? 10); [lia|]. destruct (c =? 13); [|cbn [lenN]; lia].
  destruct r as [|d r']; [cbn [lenN]; lia|]. destruct (d =? 10); [lia|cbn [lenN]; lia].
Qed.

Lemma skip_garbage_ext b x :
  (skip_garbage b = [] /\ skip_garbage (b ++ x) = skip_garbage x) \/
  (skip_garbage b = [13] /\ skip_garbage (b ++ x) = skip_garbage (13 :: x)) \/
  (skip_garbage b <> [] /\ skip_garbage b <> [13] /\ skip_garbage (b ++ x) = skip_garbage b ++ x).
Proof.
  induction b as [|c r IH].
  - left. split; reflexivity.
  - cbn [app]. cbn [skip_garbage]. destruct (c =? 10) eqn:E10; [exact IH|].
    destruct (c =? 13) eqn:E13.
    + apply N.eqb_eq in E13. subst c.
      destruct r as [|d r'].
      * right; left. split; reflexivity.
      * cbn [app]. destruct (d =? 10) eqn:D10; [exact IH|].
        right; right. split; [discriminate|]. split; [intros H; inversion H|reflexivity].
    + right; right. split; [discriminate|]. split; [|reflexivity].
      intros H; inversion H; subst. rewrite N.eqb_refl in E13. discriminate.
Qed.

Definition none_view (relaxed : bool) (b : bytes) : bytes := if relaxed then skip_garbage b else b.

Lemma none_view_len relaxed b : lenN (none_view relaxed b) <= lenN b.
Proof. unfold none_view. destruct relaxed; [apply skip_garbage_len|lia]. Qed.

Lemma none_view_ext relaxed b x :
  (none_view relaxed b = [] /\ none_view relaxed (b ++ x) = none_view relaxed x) \/
  (relaxed = true /\ none_view relaxed b = [13] /\ none_view relaxed (b ++ x) = none_view relaxed (13 :: x)) \/
  (none_view relaxed b <> [] /\ (relaxed = true -> none_view relaxed b <> [13]) /\
   none_view relaxed (b ++ x) = none_view relaxed b ++ x).
Proof.
  unfold none_view. destruct relaxed.
  - destruct (skip_garbage_ext b x) as [H|[H|H]]; [left; exact H| right; left; split; [reflexivity|exact H]|].
    right; right. destruct H as (H1 & H2 & H3). auto.
  - destruct b as [|c r]; [left; split; reflexivity|].
    right; right. split; [discriminate|]. split; [discriminate|reflexivity].
Qed.

Definition none_tail (relaxed : bool) (limit : N) (s : rst) (b1 : bytes) : bool * rst * bytes :=
  if relaxed && list_eqb b1 [13] then (false, s, b1)
  else match b1 with
       | [] => (false, s, b1)
       | _ :: _ => do_first relaxed limit (set_stage s SFirst) b1
       end.

Lemma do_parse_none relaxed limit s b : r_stage s = SNone ->
  do_parse relaxed limit s b = none_tail relaxed limit s (none_view relaxed b).
Proof. intros H. unfold do_parse, none_tail, none_view. rewrite H. reflexivity. Qed.

Lemma none_tail_first relaxed limit s b1 :
  b1 <> [] -> (relaxed = true -> b1 <> [13]) ->
  none_tail relaxed limit s b1 = do_first relaxed limit (set_stage s SFirst) b1.
Proof.
  intros H1 H2. unfold none_tail.
  assert (relaxed && list_eqb b1 [13] = false) as ->.
  { destruct relaxed; [|reflexivity]. cbn [andb]. destruct (list_eqb b1 [13]) eqn:E; [|reflexivity].
    apply list_eqb_13 in E. exfalso. apply H2; auto. }
  destruct b1; [congruence|reflexivity].
Qed.

Lemma none_tail_wait relaxed limit s b1 : r_stage s = SNone ->
  b1 = [] \/ (relaxed = true /\ b1 = [13]) ->
  classify (none_tail relaxed limit s b1) = More s b1.
Proof.
  intros Hst [->|[-> ->]]; unfold none_tail.
  - assert (relaxed && list_eqb [] [13] = false) as -> by (destruct relaxed; reflexivity).
    unfold classify. rewrite needs_more_stage, Hst. reflexivity.
  - cbn. unfold classify. rewrite needs_more_stage, Hst. reflexivity.
Qed.

Lemma app_not_13 (b1 x : bytes) : b1 <> [] -> b1 <> [13] -> b1 ++ x <> [13].
Proof.
  intros H1 H2 H. destruct b1 as [|c [|d r]]; [congruence| |discriminate].
  cbn [app] in H. inversion H; subst. congruence.
Qed.

(* ------------------------------------------------------------------ *)
(* the three properties of one parse() call, for every parser state     *)
(* ------------------------------------------------------------------ *)
Section Main.
  Variables (relaxed : bool) (limit : N).
  Hypothesis Hlimit : req_max_method + 2 <= limit.

  Notation P := (step relaxed limit).

  Lemma fits_keep (b x keep : bytes) : fits (b ++ x) -> lenN keep <= lenN b -> fits (keep ++ x).
  Proof. unfold fits. rewrite !lenN_app. lia. Qed.

  Lemma do_parse_done s b : r_stage s = SDone -> do_parse relaxed limit s b = (true, s, b).
  Proof.
    intros H. unfold do_parse, do_first, do_mime. rewrite H. cbn [stage_eqb].
    rewrite needs_more_stage, H. reflexivity.
  Qed.

  (* stage NONE with a buffer that really starts a message: same as stage FIRST on the view *)
  Lemma none_as_first s b x : r_stage s = SNone ->
    none_view relaxed b <> [] -> (relaxed = true -> none_view relaxed b <> [13]) ->
    none_view relaxed (b ++ x) = none_view relaxed b ++ x ->
    do_parse relaxed limit s b = do_first relaxed limit (set_stage s SFirst) (none_view relaxed b) /\
    do_parse relaxed limit s (b ++ x) = do_first relaxed limit (set_stage s SFirst) (none_view relaxed b ++ x).
  Proof.
    intros Hst H1 H2 H3. rewrite !do_parse_none by exact Hst. rewrite H3. split.
    - apply none_tail_first; assumption.
    - apply none_tail_first.
      + destruct (none_view relaxed b); [congruence|discriminate].
      + intros Hr. apply app_not_13; auto.
  Qed.

  Theorem step_stable_done : stable_done rst fields (N * fields) P inv fits.
  Proof.
    intros s b f rest x Hi Hf H. rewrite step_classify in *.
    destruct (r_stage s) eqn:Hst.
    - (* NONE *)
      destruct (none_view_ext relaxed b x) as [[Hv _]|[(Hr & Hv & _)|(H1 & H2 & H3)]].
      + rewrite do_parse_none, Hv, none_tail_wait in H by auto. inversion H.
      + rewrite do_parse_none, Hv, none_tail_wait in H by auto. inversion H.
      + destruct (none_as_first s b x Hst H1 H2 H3) as [E1 E2]. rewrite E1 in H. rewrite E2.
        apply first_done_ext; [reflexivity| |exact H].
        eapply fits_keep; [exact Hf|apply none_view_len].
    - rewrite do_parse_first in * by exact Hst. apply first_done_ext; assumption.
    - rewrite do_parse_mime in * by exact Hst. apply mime_done_ext; assumption.
    - rewrite do_parse_done in * by exact Hst. unfold classify in *.
      rewrite needs_more_stage, Hst in *. cbn [stage_eqb negb] in *. inversion H; subst. reflexivity.
  Qed.

  Theorem step_stable_bad : stable_bad rst fields (N * fields) P inv fits.
  Proof.
    intros s b e x Hi Hf H. rewrite step_classify in *.
    destruct (r_stage s) eqn:Hst.
    - destruct (none_view_ext relaxed b x) as [[Hv _]|[(Hr & Hv & _)|(H1 & H2 & H3)]].
      + rewrite do_parse_none, Hv, none_tail_wait in H by auto. inversion H.
      + rewrite do_parse_none, Hv, none_tail_wait in H by auto. inversion H.
      + destruct (none_as_first s b x Hst H1 H2 H3) as [E1 E2]. rewrite E1 in H. rewrite E2.
        apply first_bad_ext; [exact Hlimit|reflexivity| |exact H].
        eapply fits_keep; [exact Hf|apply none_view_len].
    - rewrite do_parse_first in * by exact Hst. apply first_bad_ext; assumption.
    - rewrite do_parse_mime in * by exact Hst. apply mime_bad_ext; assumption.
    - rewrite do_parse_done in * by exact Hst. unfold classify in *.
      rewrite needs_more_stage, Hst in *. cbn [stage_eqb negb] in *. inversion H.
  Qed.

  Theorem step_checkpoint_commutes : checkpoint_commutes rst fields (N * fields) P inv fits.
  Proof.
    intros s b s' keep x Hi Hf H. rewrite step_classify in H. rewrite (step_classify relaxed limit s).
    destruct (r_stage s) eqn:Hst.
    - destruct (none_view_ext relaxed b x) as [[Hv Hx]|[(Hr & Hv & Hx)|(H1 & H2 & H3)]].
      + rewrite do_parse_none, Hv, none_tail_wait in H by auto. inversion H; subst s' keep.
        split; [|split; [exact Hi|]].
        * rewrite step_classify, !do_parse_none, Hx by exact Hst. reflexivity.
        * cbn [app]. unfold fits in *. rewrite lenN_app in Hf. lia.
      + rewrite do_parse_none, Hv, none_tail_wait in H by auto. inversion H; subst s' keep.
        split; [|split; [exact Hi|]].
        * rewrite step_classify, !do_parse_none, Hx by exact Hst. reflexivity.
        * pose proof (none_view_len relaxed b) as Hl. rewrite Hv in Hl.
          eapply fits_keep; [exact Hf|exact Hl].
      + destruct (none_as_first s b x Hst H1 H2 H3) as [E1 E2]. rewrite E1 in H. rewrite E2.
        pose proof (none_view_len relaxed b) as Hl.
        assert (Hf' : fits (none_view relaxed b ++ x)) by (eapply fits_keep; [exact Hf|exact Hl]).
        destruct (first_more_ext relaxed limit Hlimit (set_stage s SFirst) _ x s' keep eq_refl Hi Hf' H) as (G1 & G2 & G3).
        split; [exact G1|split; [exact G2|]]. eapply fits_keep; [exact Hf|lia].
    - rewrite do_parse_first in * by exact Hst.
      destruct (first_more_ext relaxed limit Hlimit s b x s' keep Hst Hi Hf H) as (G1 & G2 & G3).
      split; [exact G1|split; [exact G2|]]. eapply fits_keep; [exact Hf|exact G3].
    - rewrite do_parse_mime in * by exact Hst.
      destruct (mime_more limit s b s' keep Hst Hi H) as [-> ->].
      split; [|split; [exact Hi|exact Hf]].
      rewrite step_classify, do_parse_mime by exact Hst. reflexivity.
    - rewrite do_parse_done in * by exact Hst. unfold classify in H.
      rewrite needs_more_stage, Hst in H. cbn [stage_eqb negb] in H. inversion H.
  Qed.

  (* C21: every segmentation of every input gives the outcome of the one-shot parse *)
  Theorem req_parse_segmentation_independent : forall segs,
    segs <> [] -> fits (concat segs) ->
    parse_segments relaxed limit segs = parse_whole relaxed limit (concat segs).
  Proof.
    intros segs Hne Hf. unfold parse_segments, parse_whole, drive.
    rewrite (drive_oneshot rst fields (N * fields) P inv fits
               step_stable_done step_stable_bad step_checkpoint_commutes segs rst0 [] Hne inv_rst0 Hf).
    reflexivity.
  Qed.

  (* from any reachable checkpoint as well *)
  Theorem req_parse_segmentation_independent_from : forall segs s keep,
    segs <> [] -> inv s -> fits (keep ++ concat segs) ->
    drive relaxed limit s keep segs = step relaxed limit s (keep ++ concat segs).
  Proof.
    intros segs s keep Hne Hi Hf. unfold drive.
    apply (drive_oneshot rst fields (N * fields) P inv fits
             step_stable_done step_stable_bad step_checkpoint_commutes); assumption.
  Qed.
End Main.

Theorem req_parse_two_segmentations : forall relaxed limit segs1 segs2,
  req_max_method + 2 <= limit -> segs1 <> [] -> segs2 <> [] -> concat segs1 = concat segs2 ->
  lenN (concat segs1) <= npos ->
  parse_segments relaxed limit segs1 = parse_segments relaxed limit segs2.
Proof.
  intros relaxed limit segs1 segs2 Hl H1 H2 Hc Hf.
  rewrite (req_parse_segmentation_independent relaxed limit Hl segs1 H1 Hf).
  rewrite (req_parse_segmentation_independent relaxed limit Hl segs2 H2) by (unfold fits; rewrite <- Hc; exact Hf).
  now rewrite Hc.
Qed.

(* limit 10: "GETGETGETG" | " /" -- whole: method + 1 delimiter => blame the URI (414);
   in pieces the first read already reaches the limit, no delimiter seen => 400 *)
Theorem req_parse_small_limit_refuted : exists relaxed limit segs,
  limit < req_max_method + 2 /\ segs <> [] /\
  parse_segments relaxed limit segs <> parse_whole relaxed limit (concat segs).
Proof.
  exists false, 10, [[71;69;84;71;69;84;71;69;84;71]; [32;47]].
  split; [vm_compute; reflexivity|]. split; [discriminate|].
  vm_compute. discriminate.
Qed.

Theorem step_stable_both : forall relaxed limit, req_max_method + 2 <= limit ->
  (forall s b f rest x, inv s -> fits (b ++ x) ->
     step relaxed limit s b = Done f rest -> step relaxed limit s (b ++ x) = Done f (rest ++ x)) /\
  (forall s b e x, inv s -> fits (b ++ x) ->
     step relaxed limit s b = Bad e -> step relaxed limit s (b ++ x) = Bad e).
Proof.
  intros relaxed limit H. split; [exact (step_stable_done relaxed limit H)|exact (step_stable_bad relaxed limit H)].
Qed.

(* ================================================================== *)
(* C62: size limits                                                     *)
(* ================================================================== *)

(* --- a parser that asks for more data holds fewer than limit bytes --- *)
Lemma grab_mime_more_len limit s b s1 b1 :
  grab_mime limit s b = (false, s1, b1) -> r_stage s1 <> SDone -> r_stage s <> SDone -> lenN b1 < limit.
Proof.
  unfold grab_mime. destruct (r_http s && (r_major s =? 1)).
  - destruct (headers_end b) as [e fold]. destruct (e =? 0).
    + destruct (limit <=? lenN b + first_line_size s) eqn:L; intros H; inversion H; subst s1 b1.
      * cbn. congruence.
      * intros _ _. lia.
    + destruct (limit <=? first_line_size s + e); intros H; inversion H; subst s1 b1. cbn. congruence.
  - intros H; inversion H.
Qed.

Section Limits.
  Variables (relaxed : bool) (limit : N).
  Hypothesis Hlimit : req_max_method + 2 <= limit.

  Lemma more_below_limit s b s' keep : inv s ->
    step relaxed limit s b = More s' keep -> lenN keep < limit.
  Proof.
    intros Hi H. rewrite step_classify in H.
    assert (Hm : forall s0 b0, r_stage s0 = SMime -> inv s0 ->
                 classify (do_mime limit s0 b0) = More s' keep -> lenN keep < limit).
    { intros s0 b0 Hst0 Hi0. unfold do_mime. rewrite Hst0. cbn [stage_eqb].
      destruct (grab_mime limit s0 b0) as [[ok s1] b1] eqn:G. destruct ok.
      - pose proof (grab_mime_true_stage _ _ _ _ _ G) as Hd. unfold classify.
        rewrite needs_more_stage, Hd. cbn. intros K; inversion K.
      - destruct (grab_mime_false _ _ _ _ _ G) as [[Hs1 _]|[Hs1 Hb1]].
        + subst s1. unfold classify. cbn.
          destruct (rq_sc_header_too_large =? rq_sc_header_too_large); intros K; inversion K.
        + subst s1 b1. unfold classify.
          assert (r_code s0 =? rq_sc_header_too_large = false) as -> by (unfold inv in Hi0; lia).
          rewrite needs_more_stage, Hst0. cbn. intros K; inversion K; subst s' keep.
          eapply grab_mime_more_len; [exact G| |]; rewrite Hst0; discriminate. }
    assert (Hfst : forall s0 b0, r_stage s0 = SFirst ->
                 classify (do_first relaxed limit s0 b0) = More s' keep -> lenN keep < limit).
    { intros s0 b0 Hst0. unfold do_first. rewrite Hst0. cbn [stage_eqb].
      destruct (first_line relaxed limit s0 b0) as [[ret s1] b1] eqn:FL. destruct ret.
      - apply Hm; [reflexivity|]. unfold inv. cbn.
        rewrite (first_line_ok_code _ _ _ _ _ _ FL). exact okay_not_too_large.
      - unfold first_line in FL.
        destruct (match find_line b0 with
                  | Some (line, rest) => if limit <=? lenN line then None else Some (line, rest)
                  | None => None end) as [[line rest]|].
        + destruct (parse_line relaxed s0 line) as [sx [|]]; inversion FL.
        + destruct (limit <=? lenN b0) eqn:L; inversion FL; subst s1 b1.
          unfold do_mime. rewrite Hst0. cbn [stage_eqb]. unfold classify. rewrite needs_more_stage, Hst0. cbn.
          intros K; inversion K; subst. lia.
      - unfold classify. cbn. intros K; inversion K. }
    destruct (r_stage s) eqn:Hst.
    - rewrite do_parse_none in H by exact Hst. unfold none_tail in H.
      destruct (relaxed && list_eqb (none_view relaxed b) [13]) eqn:E.
      + unfold classify in H. rewrite needs_more_stage, Hst in H. cbn in H. inversion H; subst.
        apply andb_prop in E. destruct E as [_ E]. apply list_eqb_13 in E. rewrite E.
        cbn [lenN]. revert Hlimit. vm_compute (req_max_method + 2). lia.
      + destruct (none_view relaxed b) as [|c r] eqn:V.
        * unfold classify in H. rewrite needs_more_stage, Hst in H. cbn in H. inversion H; subst.
          cbn [lenN]. lia.
        * eapply Hfst; [|exact H]. reflexivity.
    - rewrite do_parse_first in H by exact Hst. eapply Hfst; eassumption.
    - rewrite do_parse_mime in H by exact Hst. eapply Hm; eassumption.
    - rewrite do_parse_done in H by exact Hst. unfold classify in H.
      rewrite needs_more_stage, Hst in H. cbn in H. inversion H.
  Qed.
End Limits.

(* --- an accepted request is within the limits --- *)
Definition is_crlf (c : N) : bool := (c =? 13) || (c =? 10).

Lemma skip_garbage_split b : exists lead, b = lead ++ skip_garbage b /\ forallb is_crlf lead = true.
Proof.
  induction b as [|c r IH].
  - exists []. split; reflexivity.
  - cbn [skip_garbage]. destruct (c =? 10) eqn:E10.
    + destruct IH as (lead & Hb & Hl). exists (c :: lead). split; [cbn [app]; congruence|].
      cbn [forallb]. unfold is_crlf at 1. rewrite E10, Hl. destruct (c =? 13); reflexivity.
    + destruct (c =? 13) eqn:E13; [|exists []; split; reflexivity].
      destruct r as [|d r']; [exists []; split; reflexivity|].
      destruct (d =? 10) eqn:D10; [|exists []; split; reflexivity].
      destruct IH as (lead & Hb & Hl). exists (c :: lead). split; [cbn [app]; congruence|].
      cbn [forallb]. unfold is_crlf at 1. rewrite E13, Hl. reflexivity.
Qed.

Lemma find_line_split b line rest : fits b -> find_line b = Some (line, rest) ->
  b = line ++ 10 :: rest /\ forallb (fun c => negb (c =? 10)) line = true.
Proof.
  intros Hf H. rewrite find_line_spec in H by exact Hf.
  pose proof (span_app not_lf b) as Happ. pose proof (span_all not_lf b) as Hall.
  pose proof (span_stop not_lf b) as Hstop.
  destruct (span not_lf b) as [l r]. cbn [fst snd] in *.
  destruct l as [|l0 l]; [discriminate|]. destruct r as [|c r]; [discriminate|].
  inversion H; subst line rest. rewrite not_lf_spec in Hstop.
  assert (c = 10) by (destruct (c =? 10) eqn:E; [apply N.eqb_eq in E; exact E|discriminate]). subst c.
  split; [symmetry; exact Happ|].
  rewrite forallb_forall in *. intros y Hy. rewrite <- not_lf_spec. apply Hall. exact Hy.
Qed.

(* what "within the limits" means for an accepted request, stated on the raw input bytes:
   input = tolerated empty lines ++ request line ++ LF ++ header block ++ unconsumed rest *)
Definition accepted_within (limit : N) (input : bytes) (f : fields) (rest : bytes) : Prop :=
  exists lead line block,
    input = lead ++ line ++ [10] ++ block ++ rest /\
    forallb is_crlf lead = true /\
    forallb (fun c => negb (c =? 10)) line = true /\
    lenN line < limit /\
    (if f_http f && (f_major f =? 1)
     then lenN (f_mimg f) + lenN (f_uri f) + req_fls_extra + lenN block < limit
     else block = []).

Lemma grab_mime_true_split limit s b s1 b1 :
  grab_mime limit s b = (true, s1, b1) ->
  exists block, b = block ++ b1 /\
    r_mimg s1 = r_mimg s /\ r_uri s1 = r_uri s /\ r_http s1 = r_http s /\ r_major s1 = r_major s /\
    (if r_http s && (r_major s =? 1) then first_line_size s + lenN block < limit else block = []).
Proof.
  unfold grab_mime. destruct (r_http s && (r_major s =? 1)).
  - destruct (headers_end b) as [e fold] eqn:HE. destruct (e =? 0) eqn:E0.
    + destruct (limit <=? lenN b + first_line_size s); intros H; inversion H.
    + destruct (headers_end_found b [] e fold HE ltac:(lia)) as [_ Hle].
      destruct (limit <=? first_line_size s + e) eqn:L; intros H; inversion H; subst s1 b1.
      exists (takeN e b). split; [symmetry; apply takeN_dropN|].
      cbn. repeat split; try reflexivity. rewrite lenN_takeN. lia.
  - intros H; inversion H; subst s1 b1. exists []. cbn. repeat split; reflexivity.
Qed.

Section Accepted.
  Variables (relaxed : bool) (limit : N).

  Lemma first_accepted_within s b f rest : r_stage s = SFirst -> fits b ->
    classify (do_first relaxed limit s b) = Done f rest ->
    exists line block, b = line ++ [10] ++ block ++ rest /\
      forallb (fun c => negb (c =? 10)) line = true /\ lenN line < limit /\
      (if f_http f && (f_major f =? 1)
       then lenN (f_mimg f) + lenN (f_uri f) + req_fls_extra + lenN block < limit else block = []).
  Proof.
    intros Hst Hf. unfold do_first. rewrite Hst. cbn [stage_eqb].
    destruct (first_line relaxed limit s b) as [[ret s1] b1] eqn:FL. destruct ret.
    - unfold first_line in FL.
      destruct (find_line b) as [[line r]|] eqn:FLn.
      + destruct (limit <=? lenN line) eqn:LL.
        * destruct (limit <=? lenN b); inversion FL.
        * destruct (parse_line relaxed s line) as [sx [|]]; inversion FL; subst sx b1.
          destruct (find_line_split _ _ _ Hf FLn) as [Hb Hline].
          unfold do_mime. cbn [r_stage set_stage stage_eqb].
          destruct (grab_mime limit (set_stage s1 SMime) r) as [[ok s2] b2] eqn:G. destruct ok.
          -- pose proof (grab_mime_true_stage _ _ _ _ _ G) as Hd.
             destruct (grab_mime_true_split _ _ _ _ _ G) as (block & Hr & Hm & Hu & Hh & Hma & Hlim).
             unfold classify. rewrite !needs_more_stage, Hd. cbn [stage_eqb negb].
             intros K; inversion K; subst f rest.
             exists line, block. split; [rewrite Hb, Hr; reflexivity|].
             split; [exact Hline|]. split; [lia|].
             cbn [f_http f_major f_mimg f_uri fields_of]. rewrite Hh, Hma, Hm, Hu.
             cbn [r_http r_major r_mimg r_uri set_stage] in *. unfold first_line_size in Hlim.
             cbn [r_mimg r_uri set_stage] in Hlim. exact Hlim.
          -- unfold classify.
             destruct (needs_more (if r_code s2 =? rq_sc_header_too_large then set_code s2 rq_sc_fields_too_large else s2));
               intros K; inversion K.
      + destruct (limit <=? lenN b); inversion FL.
    - destruct (first_line_more _ _ _ _ _ _ FL) as [-> ->].
      unfold do_mime. rewrite Hst. cbn [stage_eqb]. unfold classify. rewrite needs_more_stage, Hst. cbn.
      intros K; inversion K.
    - unfold classify. cbn. intros K; inversion K.
  Qed.

  Theorem accepted_request_within_limits input f rest : fits input ->
    parse_whole relaxed limit input = Done f rest -> accepted_within limit input f rest.
  Proof.
    intros Hf. unfold parse_whole. rewrite step_classify, do_parse_none by reflexivity.
    unfold none_tail.
    destruct (relaxed && list_eqb (none_view relaxed input) [13]).
    - unfold classify. cbn. intros K; inversion K.
    - destruct (none_view relaxed input) as [|c r] eqn:V.
      + unfold classify. cbn. intros K; inversion K.
      + intros K.
        assert (Hsplit : exists lead, input = lead ++ (c :: r) /\ forallb is_crlf lead = true).
        { unfold none_view in V. destruct relaxed.
          - destruct (skip_garbage_split input) as (lead & Hb & Hl). rewrite V in Hb. eauto.
          - exists []. split; [cbn [app]; congruence|reflexivity]. }
        destruct Hsplit as (lead & Hin & Hlead).
        assert (Hf' : fits (c :: r)).
        { unfold fits in *. rewrite Hin, lenN_app in Hf. lia. }
        destruct (first_accepted_within (set_stage rst0 SFirst) (c :: r) f rest eq_refl Hf' K)
          as (line & block & Hb & Hline & Hlen & Hlim).
        exists lead, line, block. split; [rewrite Hin, Hb; reflexivity|]. auto.
  Qed.
End Accepted.

(* --- rejections carry 400, 414 or 431 --- *)
Definition reject_code (c : N) : Prop :=
  c = rq_sc_bad_request \/ c = rq_sc_uri_too_long \/ c = rq_sc_fields_too_large.

Lemma parse_method_bad_code relaxed s t s1 : parse_method relaxed s t = (s1, None) -> r_code s1 = rq_sc_bad_request.
Proof.
  unfold parse_method. destruct (tok_prefix cs_TCHAR req_max_method t) as [[m t1]|].
  - destruct (tok_skipAll (delim relaxed) t1) as [cnt t2].
    destruct (skip_delimiter relaxed cnt); intros H; inversion H. reflexivity.
  - intros H; inversion H. reflexivity.
Qed.

Lemma skip_trailing_crs_bad_code relaxed s t s1 :
  skip_trailing_crs relaxed s t = (s1, None) -> r_code s1 = rq_sc_bad_request.
Proof.
  unfold skip_trailing_crs. destruct relaxed; [intros H; inversion H|].
  destruct (tok_skipOneTrailing cs_CR t) as [ok t1]. destruct ok; intros H; inversion H. reflexivity.
Qed.

Lemma parse_version_bad_code s t s1 : parse_version s t = (s1, None) -> r_code s1 = rq_sc_bad_request.
Proof.
  unfold parse_version.
  destruct (tok_skipSuffix http1p1 t) as [ok11 t11]. destruct ok11; [intros H; inversion H|].
  destruct (tok_skipSuffix http1p0 t) as [ok10 t10]. destruct ok10; [intros H; inversion H|].
  destruct (version_suffix t) as [[[majorD minorD] td]|]; [intros H; inversion H|].
  destruct (r_mid s =? req_m_get); intros H; inversion H. reflexivity.
Qed.

Lemma parse_uri_bad_code relaxed s t s1 : parse_uri relaxed s t = (s1, None) ->
  r_code s1 = rq_sc_bad_request \/ r_code s1 = rq_sc_uri_too_long.
Proof.
  unfold parse_uri. destruct (tok_prefix (target_chars relaxed) npos t) as [[u t1]|].
  - destruct (req_max_uri <? lenN u); intros H; inversion H. right; reflexivity.
  - intros H; inversion H. left; reflexivity.
Qed.

Lemma parse_line_bad_code relaxed s line s1 : parse_line relaxed s line = (s1, false) ->
  r_code s1 = rq_sc_bad_request \/ r_code s1 = rq_sc_uri_too_long.
Proof.
  unfold parse_line.
  destruct (parse_method relaxed s line) as [sa [t1|]] eqn:PM;
    [|intros H; inversion H; subst; left; eapply parse_method_bad_code; exact PM].
  destruct (skip_trailing_crs relaxed sa t1) as [sb [t2|]] eqn:TC;
    [|intros H; inversion H; subst; left; eapply skip_trailing_crs_bad_code; exact TC].
  destruct (parse_version sb t2) as [sc [t3|]] eqn:PV;
    [|intros H; inversion H; subst; left; eapply parse_version_bad_code; exact PV].
  destruct (if r_major sc =? 0 then (true, sc, t3)
            else let '(cnt, t) := tok_skipAllTrailing (delim relaxed) t3 in
                 if skip_delimiter relaxed cnt then (true, sc, t)
                 else (false, set_code sc rq_sc_bad_request, t)) as [[ok4 s4] t4] eqn:D.
  destruct ok4.
  - destruct (parse_uri relaxed s4 t4) as [s5 [t5|]] eqn:PU;
      [|intros H; inversion H; subst; eapply parse_uri_bad_code; exact PU].
    destruct t5; intros H; inversion H. left; reflexivity.
  - intros H; inversion H; subst s4. left.
    destruct (r_major sc =? 0); [inversion D|].
    destruct (tok_skipAllTrailing (delim relaxed) t3) as [cnt t].
    destruct (skip_delimiter relaxed cnt); inversion D. reflexivity.
Qed.

Lemma blame_code relaxed s b :
  r_code (blame relaxed s b) = rq_sc_bad_request \/ r_code (blame relaxed s b) = rq_sc_uri_too_long.
Proof.
  unfold blame. destruct (parse_method relaxed s b) as [s1 [t|]] eqn:PM.
  - right. reflexivity.
  - left. eapply parse_method_bad_code; exact PM.
Qed.

Lemma first_line_bad_code relaxed limit s b s1 b1 :
  first_line relaxed limit s b = (FLbad, s1, b1) ->
  r_code s1 = rq_sc_bad_request \/ r_code s1 = rq_sc_uri_too_long.
Proof.
  unfold first_line.
  destruct (match find_line b with
            | Some (line, rest) => if limit <=? lenN line then None else Some (line, rest)
            | None => None end) as [[line rest]|].
  - destruct (parse_line relaxed s line) as [s' [|]] eqn:PL; intros H; inversion H; subst.
    eapply parse_line_bad_code; exact PL.
  - destruct (limit <=? lenN b); intros H; inversion H; subst. apply blame_code.
Qed.

Lemma mime_bad_code limit s b c f : r_stage s = SMime ->
  classify (do_mime limit s b) = Bad (c, f) -> c = rq_sc_fields_too_large.
Proof.
  intros Hst. unfold do_mime. rewrite Hst. cbn [stage_eqb].
  destruct (grab_mime limit s b) as [[ok s1] b1] eqn:G. destruct ok.
  - pose proof (grab_mime_true_stage _ _ _ _ _ G) as Hd.
    unfold classify. rewrite !needs_more_stage, Hd. cbn [stage_eqb negb]. intros H; inversion H.
  - destruct (grab_mime_false _ _ _ _ _ G) as [[Hs1 _]|[Hs1 Hb1]].
    + subst s1. unfold classify. cbn [r_code set_stage set_code].
      rewrite N.eqb_refl. rewrite needs_more_stage. cbn. intros H; inversion H. reflexivity.
    + subst s1 b1. unfold classify.
      destruct (r_code s =? rq_sc_header_too_large); rewrite needs_more_stage; cbn [r_stage set_code];
        rewrite Hst; cbn; intros H; inversion H.
Qed.

Lemma first_bad_code relaxed limit s b c f : r_stage s = SFirst ->
  classify (do_first relaxed limit s b) = Bad (c, f) -> reject_code c.
Proof.
  intros Hst. unfold do_first. rewrite Hst. cbn [stage_eqb].
  destruct (first_line relaxed limit s b) as [[ret s1] b1] eqn:FL. destruct ret.
  - intros H. apply mime_bad_code in H; [|reflexivity]. right; right; exact H.
  - destruct (first_line_more _ _ _ _ _ _ FL) as [-> ->].
    unfold do_mime. rewrite Hst. cbn [stage_eqb]. unfold classify. rewrite needs_more_stage, Hst. cbn.
    intros H; inversion H.
  - unfold classify. cbn. intros H; inversion H; subst.
    destruct (first_line_bad_code _ _ _ _ _ _ FL) as [K|K]; [left|right; left]; exact K.
Qed.

Theorem reject_codes relaxed limit s b c f : step relaxed limit s b = Bad (c, f) -> reject_code c.
Proof.
  rewrite step_classify. destruct (r_stage s) eqn:Hst.
  - rewrite do_parse_none by exact Hst. unfold none_tail.
    destruct (relaxed && list_eqb (none_view relaxed b) [13]).
    + unfold classify. rewrite needs_more_stage, Hst. cbn. intros H; inversion H.
    + destruct (none_view relaxed b).
      * unfold classify. rewrite needs_more_stage, Hst. cbn. intros H; inversion H.
      * apply first_bad_code. reflexivity.
  - rewrite do_parse_first by exact Hst. apply first_bad_code. exact Hst.
  - rewrite do_parse_mime by exact Hst. intros H. apply mime_bad_code in H; [|exact Hst]. right; right; exact H.
  - unfold do_parse, do_first, do_mime. rewrite Hst. cbn [stage_eqb]. unfold classify.
    rewrite !needs_more_stage, Hst. cbn. intros H; inversion H.
Qed.

(* once the request line has been accepted (the parser waits in stage MIME), the only possible
   rejection is "header fields too large" *)
Theorem header_block_rejection_is_431 relaxed limit : req_max_method + 2 <= limit ->
  forall head s keep x c f, fits (head ++ x) ->
  parse_whole relaxed limit head = More s keep -> r_stage s = SMime ->
  parse_whole relaxed limit (head ++ x) = Bad (c, f) -> c = rq_sc_fields_too_large.
Proof.
  intros Hl head s keep x c f Hf Hm Hst Hb. unfold parse_whole in *.
  destruct (step_checkpoint_commutes relaxed limit Hl rst0 head s keep x inv_rst0 Hf Hm) as (E & _ & _).
  rewrite E in Hb. rewrite step_classify, do_parse_mime in Hb by exact Hst.
  eapply mime_bad_code; eassumption.
Qed.

(* --- C62 for every segmentation (C21 + the one-shot facts) --- *)
Theorem accepted_segments_within_limits relaxed limit : req_max_method + 2 <= limit ->
  forall segs f rest, segs <> [] -> lenN (concat segs) <= npos ->
  parse_segments relaxed limit segs = Done f rest -> accepted_within limit (concat segs) f rest.
Proof.
  intros Hl segs f rest Hne Hf H.
  rewrite (req_parse_segmentation_independent relaxed limit Hl segs Hne Hf) in H.
  eapply accepted_request_within_limits; eassumption.
Qed.

Theorem rejected_segments_codes relaxed limit : req_max_method + 2 <= limit ->
  forall segs c f, segs <> [] -> lenN (concat segs) <= npos ->
  parse_segments relaxed limit segs = Bad (c, f) -> reject_code c.
Proof.
  intros Hl segs c f Hne Hf H.
  rewrite (req_parse_segmentation_independent relaxed limit Hl segs Hne Hf) in H.
  eapply reject_codes; exact H.
Qed.

(* whatever has been delivered so far, a parser still waiting holds fewer than limit bytes:
   ConnStateData::parseRequests()'s Must(inBuf.length() < Config.maxRequestHeaderSize) *)
Theorem waiting_segments_below_limit relaxed limit : req_max_method + 2 <= limit ->
  forall segs s keep, segs <> [] -> lenN (concat segs) <= npos ->
  parse_segments relaxed limit segs = More s keep -> lenN keep < limit.
Proof.
  intros Hl segs s keep Hne Hf H.
  rewrite (req_parse_segmentation_independent relaxed limit Hl segs Hne Hf) in H.
  eapply more_below_limit; [exact Hl|exact inv_rst0|exact H].
Qed.

(* --- reply half: the reply_header_max_size decision --- *)
Theorem resp_relay_within_limit limit fls buf n :
  resp_head_decision limit fls buf = RHrelay n -> fls + n < limit /\ 0 < n /\ n <= lenN buf.
Proof.
  unfold resp_head_decision. destruct (headers_end buf) as [e fold] eqn:HE.
  destruct (e =? 0) eqn:E0.
  - destruct (limit <=? lenN buf + fls); intros H; inversion H.
  - destruct (headers_end_found buf [] e fold HE ltac:(lia)) as [_ Hle].
    destruct (limit <=? fls + e) eqn:L; intros H; inversion H; subst. lia.
Qed.

Theorem resp_decision_stable limit fls buf x :
  (forall n, resp_head_decision limit fls buf = RHrelay n -> resp_head_decision limit fls (buf ++ x) = RHrelay n) /\
  (resp_head_decision limit fls buf = RHtoobig -> resp_head_decision limit fls (buf ++ x) = RHtoobig) /\
  (resp_head_decision limit fls buf = RHmore -> lenN buf + fls < limit).
Proof.
  unfold resp_head_decision. destruct (headers_end buf) as [e fold] eqn:HE.
  destruct (e =? 0) eqn:E0.
  - assert (e = 0) by lia. subst e.
    destruct (limit <=? lenN buf + fls) eqn:L; (split; [intros n H; inversion H|split]); intros H; try inversion H.
    + destruct (headers_end (buf ++ x)) as [e' fold'] eqn:HE'.
      destruct (headers_end_later buf x fold e' fold' HE HE') as [K|K].
      * subst e'. cbn [N.eqb]. rewrite lenN_app.
        assert (limit <=? lenN buf + lenN x + fls = true) as -> by lia. reflexivity.
      * assert (e' =? 0 = false) as -> by lia.
        assert (limit <=? fls + e' = true) as -> by lia. reflexivity.
    + lia.
  - destruct (headers_end_found buf x e fold HE ltac:(lia)) as [HE' _]. rewrite HE', E0.
    destruct (limit <=? fls + e); (split; [intros n H; inversion H; reflexivity|split]); intros H; inversion H.
    reflexivity.
Qed.

(* --- an over-long request line with a well-formed method is answered 414 --- *)
Lemma tchar_facts c : cs_TCHAR c = true -> c <> 10 /\ c <> 13 /\ c <> 32.
Proof.
  intros H. destruct (c <? 256) eqn:Hc.
  - assert (Hlt : c < 256) by lia.
    pose proof (forallb_bytes (fun c => negb (cs_TCHAR c) || (negb (c =? 10) && negb (c =? 13) && negb (c =? 32)))
                  ltac:(vm_compute; reflexivity) c Hlt) as G.
    cbv beta in G. rewrite H in G. cbn [negb orb] in G. lia.
  - unfold cs_TCHAR, mem_tbl in H. rewrite tbl_get_out in H by (vm_compute lenN; lia). discriminate.
Qed.

Lemma delim_sp relaxed : delim relaxed 32 = true.
Proof. destruct relaxed; vm_compute; reflexivity. Qed.

Lemma forallb_span {A} (q : A -> bool) l : forallb q l = true -> span q l = (l, []).
Proof.
  induction l as [|a l IH]; cbn [forallb span]; [reflexivity|].
  intros H. apply andb_prop in H. destruct H as [Ha Hl]. rewrite Ha, (IH Hl). reflexivity.
Qed.

Lemma span_takeN_run (set : cset) m y r n :
  forallb set m = true -> lenN m <= n -> set y = false ->
  fst (span set (takeN n (m ++ y :: r))) = m.
Proof.
  revert n; induction m as [|a m IH]; intros n Hm Hn Hy.
  - cbn [app takeN]. destruct (n =? 0); [reflexivity|]. cbn [span]. rewrite Hy. reflexivity.
  - cbn [forallb] in Hm. apply andb_prop in Hm. destruct Hm as [Ha Hm]. cbn [lenN] in Hn.
    cbn [app takeN]. destruct (n =? 0) eqn:E; [lia|]. cbn [span]. rewrite Ha.
    specialize (IH (N.pred n) Hm ltac:(lia) Hy).
    destruct (span set (takeN (N.pred n) (m ++ y :: r))) as [p q]. cbn [fst] in *. now rewrite IH.
Qed.

Lemma tok_prefix_run (set : cset) limit m y r :
  m <> [] -> forallb set m = true -> lenN m <= limit -> set y = false ->
  tok_prefix set limit (m ++ y :: r) = Some (m, y :: r).
Proof.
  intros Hne Hm Hl Hy. rewrite tok_prefix_eq_spec. unfold prefix_spec.
  rewrite (span_takeN_run set m y r limit Hm Hl Hy).
  destruct m as [|a m]; [congruence|]. rewrite dropN_app_exact. reflexivity.
Qed.

Lemma skip_delimiter_1 relaxed : skip_delimiter relaxed (N.succ 0) = true.
Proof. destruct relaxed; reflexivity. Qed.

Lemma classify_bad s b : classify (false, set_stage s SDone, b) = Bad (r_code s, fields_of (set_stage s SDone)).
Proof. reflexivity. Qed.

Theorem overlong_line_414 relaxed limit m c u tail :
  req_max_method + 2 <= limit ->
  m <> [] -> forallb cs_TCHAR m = true -> lenN m <= req_max_method ->
  delim relaxed c = false ->
  forallb (fun b => negb (b =? 10)) (m ++ 32 :: c :: u) = true ->
  limit <= lenN (m ++ 32 :: c :: u) -> fits ((m ++ 32 :: c :: u) ++ tail) ->
  exists f, parse_whole relaxed limit ((m ++ 32 :: c :: u) ++ tail) = Bad (rq_sc_uri_too_long, f).
Proof.
  intros Hl Hne Hm Hlen Hc Hnolf Hbig Hf.
  set (p := m ++ 32 :: c :: u) in *.
  destruct m as [|a m'] eqn:Em; [congruence|].
  assert (Ha : cs_TCHAR a = true) by (cbn [forallb] in Hm; apply andb_prop in Hm; tauto).
  destruct (tchar_facts a Ha) as (Ha10 & Ha13 & _).
  unfold parse_whole. rewrite step_classify, do_parse_none by reflexivity.
  assert (Hv : none_view relaxed (p ++ tail) = p ++ tail).
  { unfold none_view. destruct relaxed; [|reflexivity]. unfold p. cbn [app skip_garbage].
    assert (a =? 10 = false) as -> by lia. assert (a =? 13 = false) as -> by lia. reflexivity. }
  rewrite Hv. rewrite none_tail_first.
  2:{ unfold p. cbn [app]. discriminate. }
  2:{ intros _. unfold p. cbn [app]. intros K. inversion K. congruence. }
  unfold do_first. cbn [r_stage set_stage stage_eqb].
  (* no usable line *)
  assert (Hp : find_line p = None).
  { rewrite find_line_spec by (eapply fits_app_l; exact Hf).
    assert (Hs : span not_lf p = (p, [])).
    { apply forallb_span. rewrite forallb_forall in *. intros y Hy. rewrite not_lf_spec. apply Hnolf. exact Hy. }
    rewrite Hs. destruct p; reflexivity. }
  unfold first_line.
  assert (Hparse : match find_line (p ++ tail) with
                   | Some (line, rest) => if limit <=? lenN line then None else Some (line, rest)
                   | None => None end = None).
  { destruct (find_line (p ++ tail)) as [[line rest]|] eqn:FL2; [|reflexivity].
    pose proof (find_line_none_ext _ _ _ _ Hf Hp FL2) as Hll.
    assert (limit <=? lenN line = true) as -> by lia. reflexivity. }
  rewrite Hparse.
  assert (limit <=? lenN (p ++ tail) = true) as -> by (rewrite lenN_app; lia).
  (* the blame rule *)
  unfold blame, parse_method.
  assert (Hpre : tok_prefix cs_TCHAR req_max_method (p ++ tail) = Some (a :: m', 32 :: c :: u ++ tail)).
  { unfold p. rewrite <- app_assoc. cbn [app].
    change (a :: m' ++ 32 :: c :: u ++ tail) with ((a :: m') ++ 32 :: (c :: u ++ tail)).
    apply tok_prefix_run; [discriminate|exact Hm|exact Hlen|].
    destruct (cs_TCHAR 32) eqn:K; [|reflexivity]. apply tchar_facts in K. lia. }
  rewrite Hpre.
  rewrite tok_skipAll_spec. cbn [span]. rewrite delim_sp, Hc. cbn [fst snd lenN].
  rewrite skip_delimiter_1. rewrite classify_bad. cbn [r_code set_code]. eexists. reflexivity.
Qed.
