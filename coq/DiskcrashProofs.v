(* DiskcrashProofs.v — proofs about DiskcrashModel.v (C16, C17). *)
Require Import SquidV.Bytes.
Require Import SquidV.gen.DiskCrash_gen.
Require Import SquidV.DiskcrashModel.
Require Import ZifyBool ZifyNat.
Local Open Scope Z_scope.

(* ------------------------------------------------------------------------------------------------------------
   Part 1. What the properties ask for, stated on the model.
   ------------------------------------------------------------------------------------------------------------ *)

(* the session's last slot write is among the first n writes of the workload *)
Definition completed (P : Z) (ss : list session) (n : nat) (s : session) : Prop :=
  exists ss1 ss2, ss = ss1 ++ s :: ss2 /\ (length (all_writes P (ss1 ++ [s])) <= n)%nat.

Lemma completed_in : forall P ss n s, completed P ss n s -> In s ss.
Proof. intros P ss n s (ss1 & ss2 & -> & _). apply in_or_app. right. left. reflexivity. Qed.

(* C16 on the model: whatever is served as a hit after the crash is the complete stream of one session with that
   key whose last write completed before the crash *)
Definition crash_consistent (N P : Z) (ss : list session) (n : nat) (torn : option Z) : Prop :=
  forall k c, hit_after N P ss n torn k = Some c ->
    exists s, completed P ss n s /\ s_key s = k /\ c = full_stream s.

(* C17 on the model: after ALL writes (clean shutdown), the entry last stored under a key and not purged is a hit
   with its complete stream *)
Definition survives (N P : Z) (ss : list session) (s : session) : Prop :=
  hit_after N P ss (length (all_writes P ss)) None (s_key s) = Some (full_stream s).

(* ------------------------------------------------------------------------------------------------------------
   Part 2. Refutations (witnesses found by running the extracted model over small workloads; each is replayed
   against the real binary by the checks: corpus/C16/known.jsonl, corpus/C17/known.jsonl).
   8 slots, 4 payload bytes per slot, 10-byte objects = 3 slots.
   ------------------------------------------------------------------------------------------------------------ *)
Definition w_ops : list op := [OStore (1, 0) 1 5 10 2 0; OStore (1, 0) 2 6 10 2 0].

Lemma w_ops_slots : map s_slots (sessions_of 8 4 w_ops) = [[1; 0; 2]; [1; 0; 2]].
Proof. vm_compute. reflexivity. Qed.

(* F12: version 2 of the same key goes into the recycled slots of version 1 in the same order; killed after 5 of
   the 6 slot writes, the rebuild accepts the chain new, new, OLD (versions are never compared) *)
Lemma overwrite_crash_mixes :
  hit_after 8 4 (sessions_of 8 4 w_ops) 5 None (1, 0)
  = Some [(2,0);(2,1);(2,2);(2,3);(2,4);(2,5);(2,6);(2,7);(1,8);(1,9)].
Proof. vm_compute. reflexivity. Qed.

Lemma crash_consistent_refuted :
  exists N P ops n, ~ crash_consistent N P (sessions_of N P ops) n None.
Proof.
  exists 8, 4, w_ops, 5%nat. intros H.
  destruct (H (1, 0) _ overwrite_crash_mixes) as (s & Hin & _ & Hc). apply completed_in in Hin.
  vm_compute in Hin. destruct Hin as [<- | [<- | []]]; vm_compute in Hc; discriminate Hc.
Qed.

(* a torn write: a one-slot object whose only write is cut after the header and 2 of its 3 payload bytes: the
   header (entrySize, payloadSize) is complete, so the entry is accepted and the never-written byte is served *)
Definition t_ops : list op := [OStore (1, 0) 1 5 3 2 0].

Lemma torn_write_serves_unwritten_bytes :
  hit_after 8 4 (sessions_of 8 4 t_ops) 0 (Some 42) (1, 0) = Some [(1,0);(1,1);(0,0)].
Proof. vm_compute. reflexivity. Qed.

Lemma torn_crash_consistent_refuted :
  exists N P ops n t, ~ crash_consistent N P (sessions_of N P ops) n (Some t).
Proof.
  exists 8, 4, t_ops, 0%nat, 42. intros H.
  destruct (H (1, 0) _ torn_write_serves_unwritten_bytes) as (s & Hin & _ & Hc). apply completed_in in Hin.
  vm_compute in Hin. destruct Hin as [<- | []]; vm_compute in Hc; discriminate Hc.
Qed.

(* C17: a completed overwrite by an object that needs FEWER slots leaves the old chain's extra slot on disk with the
   same key; after a clean restart the rebuild counts it into the entry (le.size), the chain walk comes up short,
   and the complete new entry is dropped *)
Definition l_ops : list op := [OStore (1, 0) 1 5 10 2 0; OStore (1, 0) 2 6 7 2 0].

Lemma overwrite_by_smaller_lost :
  hit_after 8 4 (sessions_of 8 4 l_ops) (length (all_writes 4 (sessions_of 8 4 l_ops))) None (1, 0) = None.
Proof. vm_compute. reflexivity. Qed.

Lemma survives_refuted :
  exists N P ops s, last (sessions_of N P ops) s = s /\ In s (sessions_of N P ops) /\
                    ~ survives N P (sessions_of N P ops) s.
Proof.
  exists 8, 4, l_ops, (mkSess (1, 0) 2 6 7 2 0 [1; 0]).
  split; [vm_compute; reflexivity|]. split; [vm_compute; auto|].
  unfold survives. cbn [s_key]. rewrite overwrite_by_smaller_lost. discriminate.
Qed.

(* ------------------------------------------------------------------------------------------------------------
   Part 4. Workloads that write every slot at most once: for ALL such workloads and ALL crash points at write
   boundaries, recovery makes readable exactly the sessions whose last write completed, with their full streams.
   ------------------------------------------------------------------------------------------------------------ *)

(* ---- 4.1 lists ---- *)
Lemma zseq_in : forall n a c, In c (zseq a n) <-> a <= c < a + Z.of_nat n.
Proof.
  induction n as [|n IH]; intros a c; cbn [zseq In].
  - lia.
  - rewrite IH. lia.
Qed.

Lemma zseq_length : forall n a, length (zseq a n) = n.
Proof. induction n as [|n IH]; intros a; cbn [zseq length]; [reflexivity| now rewrite IH]. Qed.

Lemma firstn_zseq : forall n m a, (n <= m)%nat -> firstn n (zseq a m) = zseq a n.
Proof.
  induction n as [|n IH]; intros m a Hle; [reflexivity|].
  destruct m as [|m]; [lia|]. cbn [zseq firstn]. rewrite IH by lia. reflexivity.
Qed.

Lemma stream_length : forall o len, length (stream o len) = Z.to_nat len.
Proof. intros. unfold stream. now rewrite map_length, zseq_length. Qed.

Lemma firstn_stream : forall o len n, 0 <= n <= len -> firstn (Z.to_nat n) (stream o len) = stream o n.
Proof. intros o len n H. unfold stream. rewrite firstn_map, firstn_zseq by lia. reflexivity. Qed.

Lemma is_run_firstn : forall n o off l,
  firstn n l = map (fun i => (o, i)) (zseq off n) -> is_run o off n l = true.
Proof.
  induction n as [|n IH]; intros o off l H; [reflexivity|].
  destruct l as [|a l]; [discriminate H|]. cbn [firstn zseq map] in H. injection H as Ha Hl.
  cbn [is_run]. rewrite (IH _ _ _ Hl). subst a. unfold atom_eqb. cbn [fst snd]. rewrite !Z.eqb_refl. reflexivity.
Qed.

Lemma parse_meta_stream : forall oi o info buf,
  oi o = Some info -> 0 < o_mlen info ->
  firstn (Z.to_nat (o_mlen info)) buf = stream o (o_mlen info) ->
  parse_meta oi buf = Some info.
Proof.
  intros oi o info buf Hoi Hm Hf. unfold parse_meta.
  assert (Hrun : is_run o 0 (Z.to_nat (o_mlen info)) buf = true) by (apply is_run_firstn; exact Hf).
  destruct buf as [|[o' i'] buf'].
  - unfold stream in Hf. destruct (Z.to_nat (o_mlen info)) eqn:E; [lia| discriminate Hf].
  - unfold stream in Hf. destruct (Z.to_nat (o_mlen info)) eqn:E; [lia|].
    cbn [firstn zseq map] in Hf. injection Hf as Ho Hi _. subst o' i'.
    rewrite Hoi. assert (0 <? o_mlen info = true) as -> by lia. rewrite E, Hrun. reflexivity.
Qed.

Lemma zeroed_false : forall o i buf, 0 < o -> zeroed ((o, i) :: buf) = false.
Proof.
  intros o i buf Ho. unfold zeroed. cbn [firstn forallb fst].
  assert (o =? 0 = false) as -> by lia. cbn [andb]. apply andb_false_r.
Qed.

Lemma read_area_exact : forall a, read_area (Z.of_nat (length a)) a = a.
Proof.
  intros a. unfold read_area. rewrite Nat2Z.id, firstn_all, Nat.sub_diag. cbn [repeat]. apply app_nil_r.
Qed.

(* ---- 4.2 chunks ---- *)
Lemma chunks_aux_concat : forall fuel p l, (0 < p)%nat -> (length l <= fuel)%nat -> concat (chunks_aux fuel p l) = l.
Proof.
  induction fuel as [|fuel IH]; intros p l Hp Hl.
  - destruct l; [reflexivity| cbn [length] in Hl; lia].
  - destruct l as [|a l]; [reflexivity|]. cbn [chunks_aux concat].
    rewrite IH; [apply firstn_skipn| exact Hp|].
    rewrite skipn_length. cbn [length] in *. lia.
Qed.

Lemma chunks_aux_sizes : forall fuel p l ch, (0 < p)%nat -> In ch (chunks_aux fuel p l) -> (0 < length ch <= p)%nat.
Proof.
  induction fuel as [|fuel IH]; intros p l ch Hp Hin; [destruct Hin|].
  destruct l as [|a l]; [destruct Hin|]. cbn [chunks_aux In] in Hin. destruct Hin as [<- | Hin].
  - rewrite firstn_length. cbn [length]. lia.
  - eapply IH; eauto.
Qed.

Lemma chunks_aux_first : forall fuel p l ch r, chunks_aux fuel p l = ch :: r -> ch = firstn p l.
Proof.
  intros [|fuel] p l ch r H; [discriminate H|]. destruct l; [discriminate H|]. cbn [chunks_aux] in H. now injection H as <- _.
Qed.

Lemma chunks_nonempty : forall P l, l <> [] -> chunks P l <> [].
Proof. intros P [|a l] H; [congruence|]. unfold chunks. cbn [length chunks_aux]. discriminate. Qed.

(* ---- 4.3 the writes of a session ---- *)
Fixpoint linked_to (ws : list wr) (e : Z) : Prop :=
  match ws with
  | [] => True
  | w :: r => h_next (w_hdr w) = match r with w' :: _ => w_slot w' | [] => e end /\ linked_to r e
  end.

Definition psz_sum (l : list wr) : Z := fold_right (fun w a => h_psz (w_hdr w) + a) 0 l.

Lemma mk_writes_facts : forall chs slots k ver first total,
  length chs = length slots ->
  let ws := mk_writes k ver first total chs slots in
  map w_slot ws = slots /\ map w_data ws = chs /\
  (forall w, In w ws -> h_key (w_hdr w) = k /\ h_ver (w_hdr w) = ver /\ h_first (w_hdr w) = first /\
                        h_psz (w_hdr w) = Z.of_nat (length (w_data w))) /\
  linked_to ws (-1) /\
  (forall w r, ws = w :: r -> h_esz (w_hdr w) = match r with [] => total | _ :: _ => 0 end).
Proof.
  induction chs as [|ch chs IH]; intros slots k ver first total Hlen; destruct slots as [|c slots]; try discriminate Hlen.
  - cbn. split; [reflexivity|]. split; [reflexivity|]. split; [intros ? []|]. split; [exact I|].
    intros w r H. discriminate H.
  - cbn [length] in Hlen. injection Hlen as Hlen.
    specialize (IH slots k ver first total Hlen). cbv zeta in IH. destruct IH as (I1 & I2 & I3 & I4 & I5).
    cbn [mk_writes]. cbv zeta. cbn [map w_slot w_data]. rewrite I1, I2.
    split; [reflexivity|]. split; [reflexivity|]. split; [|split].
    + intros w [<- | Hin]; [cbn; auto| apply I3, Hin].
    + cbn [linked_to w_hdr h_next]. split; [|exact I4].
      destruct chs as [|ch' chs']; destruct slots as [|c' slots']; try discriminate Hlen; reflexivity.
    + intros w r H. injection H as <- <-. cbn [w_hdr h_esz].
      destruct chs as [|ch' chs']; destruct slots as [|c' slots']; try discriminate Hlen; reflexivity.
Qed.

Lemma linked_firstn : forall ws e m d, linked_to ws e -> (m < length ws)%nat ->
  linked_to (firstn m ws) (w_slot (nth m ws d)).
Proof.
  induction ws as [|w ws IH]; intros e m d Hl Hm; [cbn in Hm; lia|].
  destruct m as [|m]; [exact I|]. cbn [firstn nth linked_to]. destruct Hl as [Hn Hl]. cbn [length] in Hm.
  split; [| apply (IH e); [exact Hl| lia]].
  destruct ws as [|w' ws']; [cbn in Hm; lia|]. destruct m; cbn [firstn nth]; exact Hn.
Qed.

(* ---- 4.4 the image of a set of writes that touch every slot at most once ---- *)
Definition cell_of (w : wr) : cell := mkCell (w_hdr w) (w_data w).

Lemma fold_apply_spec : forall W d, NoDup (map w_slot W) ->
  (forall w, In w W -> c_area (d (w_slot w)) = []) ->
  (forall w, In w W -> fold_left apply_wr W d (w_slot w) = cell_of w) /\
  (forall c, ~ In c (map w_slot W) -> fold_left apply_wr W d c = d c).
Proof.
  induction W as [|w W IH]; intros d Hnd Hz; [split; [intros ? []| reflexivity]|].
  cbn [map] in Hnd. inversion Hnd as [|? ? Hnin Hnd']; subst. cbn [fold_left].
  assert (Hz' : forall w', In w' W -> c_area (apply_wr d w (w_slot w')) = []).
  { intros w' Hin. unfold apply_wr, upd. destruct (w_slot w' =? w_slot w) eqn:E.
    - exfalso. apply Hnin. apply Z.eqb_eq in E. rewrite <- E. apply in_map, Hin.
    - apply Hz. right. exact Hin. }
  destruct (IH (apply_wr d w) Hnd' Hz') as [A B]. split.
  - intros w' [<- | Hin]; [|apply A, Hin].
    rewrite B by exact Hnin. unfold apply_wr, upd. rewrite Z.eqb_refl.
    rewrite (Hz w (or_introl eq_refl)). unfold cell_of. f_equal. rewrite skipn_nil. apply app_nil_r.
  - intros c Hc. cbn [map In] in Hc. rewrite B by tauto. unfold apply_wr, upd.
    destruct (c =? w_slot w) eqn:E; [apply Z.eqb_eq in E; subst; tauto| reflexivity].
Qed.

Lemma disk_after_spec : forall W, NoDup (map w_slot W) ->
  (forall w, In w W -> disk_after W (w_slot w) = cell_of w) /\
  (forall c, ~ In c (map w_slot W) -> disk_after W c = cell0).
Proof. intros W H. unfold disk_after. apply (fold_apply_spec W disk0 H). intros; reflexivity. Qed.

(* ---- 4.5 single steps of the rebuild, as explicit states ---- *)
Lemma upd_eq : forall A (g : Z -> A) k v, upd g k v k = v.
Proof. intros. unfold upd. now rewrite Z.eqb_refl. Qed.
Lemma upd_neq : forall A (g : Z -> A) k v x, x <> k -> upd g k v x = g x.
Proof. intros. unfold upd. destruct (x =? k) eqn:E; [apply Z.eqb_eq in E; congruence| reflexivity]. Qed.

Ltac rsimp := cbn [set_ent set_sl set_nofuel r_ent r_sl r_nofuel e_state e_anch e_size e_start e_swapsz e_rewind
  le_state le_anch le_size la_key la_start la_swapsz x_more x_final x_freed x_map
  ls_more ls_mapped ls_final ls_freed ls_size ls_next lslot0 lent0 negb andb orb].

Section RebuildSteps.
Variables (N P : Z) (oi : Z -> option oinfo) (d : disk).

Notation add_slot := (add_slot N P oi d).
Notation add_tail := (add_tail N).
Notation add_inode := (add_inode N P oi d).
Notation load_one := (load_one N P oi d).
Notation use_new_slot := (use_new_slot N P oi d).
Notation finalize_or_free := (finalize_or_free N).
Notation fin_walk := (fin_walk N).
Notation free_bad_entry := (free_bad_entry N).

(* while the total size is unknown the tail of addSlotToEntry only maps the slot *)
Lemma add_tail_unknown : forall pos f i h s,
  la_swapsz (r_ent s f) = 0 ->
  add_tail pos f i h s = set_sl s i (x_map (r_sl s i) (h_psz h) (h_next h)).
Proof. intros pos f i h s H. unfold DiskcrashModel.add_tail. rewrite H. reflexivity. Qed.

Lemma chain_slot_unanch : forall f i s,
  le_anch (r_ent s f) = false ->
  chain_slot f i s = set_ent (set_sl s i (x_more (r_sl s i) (la_start (r_ent s f)))) f (e_start (r_ent s f) i).
Proof. intros f i s H. unfold chain_slot. rewrite H. reflexivity. Qed.

Lemma chain_slot_anch : forall f i s,
  le_anch (r_ent s f) = true ->
  chain_slot f i s =
    let ino := la_start (r_ent s f) in
    let s' := set_sl s i (x_more (r_sl s i) (ls_more (r_sl s ino))) in
    set_sl s' ino (x_more (r_sl s' ino) i).
Proof. intros f i s H. unfold chain_slot. rewrite H. reflexivity. Qed.

(* a non-inode slot joins a Loading entry of unknown total size *)
Lemma add_slot_noninode_unanch : forall pos f i h st e,
  r_ent st f = e -> le_anch e = false -> la_swapsz e = 0 -> h_first h <> i ->
  let st' := add_slot pos f i h st in
  (forall f', r_ent st' f' = if f' =? f then mkLent (le_state e) false (le_size e + h_psz h) (la_key e) i 0
                             else r_ent st f') /\
  (forall c, r_sl st' c = if c =? i then mkLslot (la_start e) true (ls_final (r_sl st i)) (ls_freed (r_sl st i))
                                                 (h_psz h) (h_next h)
                          else r_sl st c).
Proof.
  intros pos f i h st e He Ha Hz Hf st'. subst st'. unfold DiskcrashModel.add_slot.
  assert (h_first h =? i = false) as -> by lia.
  rewrite chain_slot_unanch by (rewrite He; exact Ha). rewrite He.
  cbn [set_ent set_sl r_ent r_sl]. rewrite upd_eq.
  rewrite add_tail_unknown.
  2:{ cbn [set_ent r_ent]. rewrite upd_eq. destruct e; cbn in *; exact Hz. }
  destruct e as [es ea ez ek est esw]. cbn [le_state le_anch le_size la_key la_start la_swapsz] in *. subst ea esw.
  split.
  - intros f'. cbn [set_ent set_sl r_ent r_sl]. unfold upd. destruct (f' =? f); reflexivity.
  - intros c. cbn [set_ent set_sl r_ent r_sl]. unfold upd. rewrite Z.eqb_refl. destruct (c =? i); reflexivity.
Qed.

Lemma add_slot_noninode_anch : forall pos f i h st e,
  r_ent st f = e -> le_anch e = true -> la_swapsz e = 0 -> h_first h <> i -> la_start e <> i ->
  let st' := add_slot pos f i h st in
  (forall f', r_ent st' f' = if f' =? f then mkLent (le_state e) true (le_size e + h_psz h) (la_key e) (la_start e) 0
                             else r_ent st f') /\
  (forall c, r_sl st' c =
     if c =? i then mkLslot (ls_more (r_sl st (la_start e))) true (ls_final (r_sl st i)) (ls_freed (r_sl st i))
                            (h_psz h) (h_next h)
     else if c =? la_start e then x_more (r_sl st c) i
     else r_sl st c).
Proof.
  intros pos f i h st e He Ha Hz Hf Hino st'. subst st'. unfold DiskcrashModel.add_slot.
  assert (h_first h =? i = false) as -> by lia.
  rewrite chain_slot_anch by (rewrite He; exact Ha). rewrite He. cbv zeta.
  cbn [set_ent set_sl r_ent r_sl]. rewrite He.
  rewrite add_tail_unknown.
  2:{ cbn [set_ent r_ent]. rewrite upd_eq. destruct e; cbn in *; exact Hz. }
  destruct e as [es ea ez ek est esw]. cbn [le_state le_anch le_size la_key la_start la_swapsz] in *. subst ea esw.
  split.
  - intros f'. cbn [set_ent set_sl r_ent r_sl]. unfold upd. destruct (f' =? f); reflexivity.
  - intros c. cbn [set_ent set_sl r_ent r_sl]. unfold upd.
    assert (est =? i = false) as Hne by lia. assert (i =? est = false) as Hne' by lia.
    rewrite Hne, Hne', Z.eqb_refl.
    destruct (c =? i) eqn:Eci; [reflexivity|]. destruct (c =? est) eqn:Ece; [|reflexivity].
    apply Z.eqb_eq in Ece. subst c. reflexivity.
Qed.

(* the inode of a multi-slot entry (entrySize 0, metadata intact) *)
Definition meta_buf (w : wr) : list atom := read_area (Z.min P (dc_page_size - dc_cell_header_size)) (w_data w).
Definition meta_ok (w : wr) : Prop :=
  zeroed (meta_buf w) = false /\ exists info, parse_meta oi (meta_buf w) = Some info /\ o_ssz info = 0.

Lemma import_entry_unknown : forall i w e,
  d i = cell_of w -> meta_ok w -> h_esz (w_hdr w) = 0 -> la_swapsz e = 0 ->
  import_entry P oi d i (w_hdr w) e = Some 0.
Proof.
  intros i w e Hd (Hz & info & Hp & Hs) He Hsw. unfold import_entry, import_buf. rewrite Hd. cbn [cell_of c_area].
  fold (meta_buf w). rewrite Hz, Hp, He, Hsw, Hs. reflexivity.
Qed.

Lemma import_entry_known : forall i w e,
  d i = cell_of w -> meta_ok w -> 0 < h_esz (w_hdr w) ->
  import_entry P oi d i (w_hdr w) e = Some (h_esz (w_hdr w)).
Proof.
  intros i w e Hd (Hz & info & Hp & Hs) He. unfold import_entry, import_buf. rewrite Hd. cbn [cell_of c_area].
  fold (meta_buf w). rewrite Hz, Hp, Hs. assert (H0 : 0 <? h_esz (w_hdr w) = true) by lia.
  rewrite H0. cbv iota. rewrite H0. reflexivity.
Qed.

Lemma add_slot_inode_multi : forall pos f i w st e,
  r_ent st f = e -> le_anch e = false -> la_swapsz e = 0 ->
  h_first (w_hdr w) = i -> h_esz (w_hdr w) = 0 -> d i = cell_of w -> meta_ok w ->
  let h := w_hdr w in
  let st' := add_slot pos f i h st in
  (forall f', r_ent st' f' = if f' =? f then mkLent (le_state e) true (le_size e + h_psz h) (la_key e) i 0
                             else r_ent st f') /\
  (forall c, r_sl st' c = if c =? i then mkLslot (la_start e) true (ls_final (r_sl st i)) (ls_freed (r_sl st i))
                                                 (h_psz h) (h_next h)
                          else r_sl st c).
Proof.
  intros pos f i w st e He Ha Hz Hf Hesz Hd Hm h st'. subst st' h. unfold DiskcrashModel.add_slot.
  assert (h_first (w_hdr w) =? i = true) as -> by lia.
  rewrite chain_slot_unanch by (rewrite He; exact Ha). rewrite He.
  cbn [set_ent set_sl r_ent r_sl]. rewrite upd_eq.
  unfold DiskcrashModel.add_inode. cbn [set_ent r_ent]. rewrite upd_eq.
  destruct e as [es ea ez ek est esw]. cbn [le_state le_anch le_size la_key la_start la_swapsz] in *. subst ea esw.
  cbn [e_size e_start e_anch le_anch le_state le_size la_key la_start la_swapsz].
  rewrite (import_entry_unknown i w _ Hd Hm Hesz) by reflexivity.
  rewrite Hesz. change (0 <? 0) with false. cbv iota.
  rewrite add_tail_unknown by (cbn [set_ent r_ent]; rewrite upd_eq; reflexivity).
  split.
  - intros f'. cbn [set_ent set_sl r_ent r_sl]. unfold upd. destruct (f' =? f); reflexivity.
  - intros c. cbn [set_ent set_sl r_ent r_sl]. unfold upd. rewrite Z.eqb_refl. destruct (c =? i); reflexivity.
Qed.

Lemma fin_walk_done : forall fuel pos lesize slot sum s,
  (slot <? 0) || negb (sum <? lesize) = true -> fin_walk fuel pos lesize slot sum s = WDone slot sum s.
Proof. intros [|fuel] pos lesize slot sum s H; cbn [DiskcrashModel.fin_walk]; rewrite H; reflexivity. Qed.

(* a complete one-slot entry is finalised as soon as its slot is loaded *)
Lemma add_slot_single : forall pos f i w st k,
  r_ent st f = mkLent LeLoading false 0 k (-1) 0 -> r_sl st i = lslot0 ->
  h_first (w_hdr w) = i -> h_esz (w_hdr w) = h_psz (w_hdr w) -> 0 < h_psz (w_hdr w) -> h_next (w_hdr w) = -1 ->
  0 <= i < N -> i <= pos -> d i = cell_of w -> meta_ok w ->
  let T := h_psz (w_hdr w) in
  let st' := add_slot pos f i (w_hdr w) st in
  (forall f', r_ent st' f' = if f' =? f then mkLent LeLoaded true T k i T else r_ent st f') /\
  (forall c, r_sl st' c = if c =? i then mkLslot (-1) true true false T (-1) else r_sl st c).
Proof.
  intros pos f i w st k He Hfresh Hf Hesz Hpsz Hnext Hi Hpos Hd Hm T st'. subst st' T. unfold DiskcrashModel.add_slot.
  assert (h_first (w_hdr w) =? i = true) as -> by lia.
  rewrite chain_slot_unanch by (rewrite He; reflexivity). rewrite He.
  cbn [set_ent set_sl r_ent r_sl]. rewrite upd_eq.
  unfold DiskcrashModel.add_inode. cbn [set_ent r_ent]. rewrite upd_eq.
  rsimp.
  rewrite (import_entry_known i w _ Hd Hm) by lia.
  assert (0 <? h_esz (w_hdr w) = true) as -> by lia.
  rsimp.
  assert (h_esz (w_hdr w) =? 0 = false) as -> by lia. rewrite Z.eqb_refl. rsimp.
  unfold DiskcrashModel.add_tail. rsimp. rewrite upd_eq. rsimp. rewrite Hesz.
  assert (0 <? h_psz (w_hdr w) = true) as -> by lia.
  assert (h_psz (w_hdr w) <? 0 + h_psz (w_hdr w) = false) as -> by lia.
  assert (0 + h_psz (w_hdr w) =? h_psz (w_hdr w) = true) as -> by lia. rsimp.
  unfold DiskcrashModel.finalize_or_free. rsimp. rewrite !upd_eq. rsimp.
  assert (0 + h_psz (w_hdr w) <=? 0 = false) as -> by lia.
  unfold fuelN. cbn [DiskcrashModel.fin_walk].
  assert (i <? 0 = false) as -> by lia. assert (0 <? 0 + h_psz (w_hdr w) = true) as -> by lia. rsimp.
  assert (i <? N = true) as -> by lia. assert (i <=? pos = true) as -> by lia. rsimp.
  rewrite !upd_eq. rewrite Hfresh. rsimp.
  assert (h_psz (w_hdr w) <=? 0 = false) as -> by lia.
  rewrite fin_walk_done by (rewrite Hnext; reflexivity).
  rewrite Hnext. change (-1 <? 0) with true. rsimp.
  assert (0 + h_psz (w_hdr w) =? 0 + h_psz (w_hdr w) = true) as -> by lia.
  rsimp. rewrite !upd_eq. rsimp.
  assert (h_psz (w_hdr w) =? 0 = false) as -> by lia.
  split.
  - intros f'. rsimp. unfold upd. destruct (f' =? f); [|reflexivity].
    unfold e_state, e_swapsz, e_anch, e_size, e_start. cbn. reflexivity.
  - intros c. rsimp. unfold upd. destruct (c =? i); reflexivity.
Qed.

End RebuildSteps.

(* ---- 4.6 chains of slot writes and the load-phase invariant ---- *)
Record chain := mkChain { ch_key : key; ch_T : Z; ch_ws : list wr; ch_m : nat }.
Definition ch_written (c : chain) : list wr := firstn (ch_m c) (ch_ws c).
Definition ch_c0 (c : chain) : Z := match ch_ws c with w :: _ => w_slot w | [] => 0 end.
Definition ch_single (c : chain) : bool := match ch_ws c with [_] => true | _ => false end.
Definition ch_complete (c : chain) : Prop := ch_m c = length (ch_ws c).

Lemma psz_sum_app : forall a b, psz_sum (a ++ b) = psz_sum a + psz_sum b.
Proof. unfold psz_sum. induction a as [|w a IH]; intros b; cbn [app fold_right]; [lia| rewrite IH; lia]. Qed.

Lemma nodup_concat_owner : forall A B (g : A -> list B) l a1 a2 x,
  NoDup (concat (map g l)) -> In a1 l -> In a2 l -> In x (g a1) -> In x (g a2) -> a1 = a2.
Proof.
  induction l as [|a l IH]; intros a1 a2 x Hnd H1 H2 Hx1 Hx2; [destruct H1|].
  cbn [map concat] in Hnd. 
  assert (Hsplit : NoDup (concat (map g l)) /\ forall y, In y (g a) -> ~ In y (concat (map g l))).
  { clear - Hnd. induction (g a) as [|b gb IHg]; cbn [app] in Hnd; [split; [exact Hnd| intros ? []]|].
    inversion Hnd as [|? ? Hn Hd]; subst. destruct (IHg Hd) as [A1 A2]. split; [exact A1|].
    intros y [<- | Hy]; [intros Hc; apply Hn, in_or_app; right; exact Hc| apply A2, Hy]. }
  destruct Hsplit as [Hnd' Hdis].
  assert (Hin_concat : forall a', In a' l -> In x (g a') -> In x (concat (map g l))).
  { intros a' Ha' Hx'. apply in_concat. exists (g a'). split; [apply in_map, Ha'| exact Hx']. }
  destruct H1 as [<- | H1]; destruct H2 as [<- | H2].
  - reflexivity.
  - exfalso. apply (Hdis x Hx1). apply (Hin_concat a2); assumption.
  - exfalso. apply (Hdis x Hx2). apply (Hin_concat a1); assumption.
  - apply (IH a1 a2 x); assumption.
Qed.

Lemma nodup_map_inj : forall A B (g : A -> B) l a b, NoDup (map g l) -> In a l -> In b l -> g a = g b -> a = b.
Proof.
  induction l as [|x l IH]; intros a b Hnd Ha Hb Hg; [destruct Ha|].
  cbn [map] in Hnd. inversion Hnd as [|? ? Hn Hd]; subst.
  destruct Ha as [<- | Ha]; destruct Hb as [<- | Hb]; try reflexivity.
  - exfalso. apply Hn. rewrite Hg. apply in_map, Hb.
  - exfalso. apply Hn. rewrite <- Hg. apply in_map, Ha.
  - apply IH; assumption.
Qed.

Lemma nodup_app_l : forall A (a b : list A), NoDup (a ++ b) -> NoDup a.
Proof.
  induction a as [|x a IH]; intros b H; [constructor|]. cbn [app] in H. inversion H as [|? ? Hn Hd]; subst.
  constructor; [intros Hc; apply Hn, in_or_app; left; exact Hc| apply (IH b), Hd].
Qed.

Lemma in_firstn : forall A n (l : list A) x, In x (firstn n l) -> In x l.
Proof. intros A n l x H. rewrite <- (firstn_skipn n l). apply in_or_app. left. exact H. Qed.

Lemma key_eqb_refl : forall k, key_eqb k k = true.
Proof. intros [a b]. unfold key_eqb. cbn [fst snd]. now rewrite !Z.eqb_refl. Qed.

Section Recovery.
Variables (N P : Z) (oi : Z -> option oinfo) (d : disk).
Hypothesis HN : 0 < N.

Definition ch_f (c : chain) : Z := fileno_of N (ch_key c).

Record good_chain (c : chain) : Prop := {
  gc_nonempty : ch_ws c <> [];
  gc_m : (ch_m c <= length (ch_ws c))%nat;
  gc_hdr : forall w, In w (ch_ws c) ->
     h_key (w_hdr w) = ch_key c /\ h_first (w_hdr w) = ch_c0 c /\ 0 < h_ver (w_hdr w) /\
     0 < h_psz (w_hdr w) <= P /\ 0 <= w_slot w < N /\ -1 <= h_next (w_hdr w) < N;
  gc_linked : linked_to (ch_ws c) (-1);
  gc_esz : forall w r, ch_ws c = w :: r ->
     h_esz (w_hdr w) = match r with [] => ch_T c | _ :: _ => 0 end /\ (r = [] -> h_psz (w_hdr w) = ch_T c);
  gc_meta : forall w r, ch_ws c = w :: r -> meta_ok P oi w;
  gc_nodup : NoDup (map w_slot (ch_ws c));
  gc_data : forall w, In w (ch_ws c) -> h_psz (w_hdr w) = Z.of_nat (length (w_data w)) }.

Variable cs : list chain.
Hypothesis Hgood : forall c, In c cs -> good_chain c.
Hypothesis Hslots : NoDup (concat (map (fun c => map w_slot (ch_ws c)) cs)).
Hypothesis Hfiles : NoDup (map ch_f cs).
Hypothesis Himg_w : forall c w, In c cs -> In w (ch_written c) -> d (w_slot w) = cell_of w.
Hypothesis Himg_0 : forall x, (forall c w, In c cs -> In w (ch_written c) -> w_slot w <> x) -> d x = cell0.

Lemma owner_unique : forall c1 c2 w1 w2,
  In c1 cs -> In c2 cs -> In w1 (ch_ws c1) -> In w2 (ch_ws c2) -> w_slot w1 = w_slot w2 -> c1 = c2 /\ w1 = w2.
Proof.
  intros c1 c2 w1 w2 H1 H2 Hw1 Hw2 Hs.
  assert (c1 = c2).
  { apply (nodup_concat_owner _ _ (fun c => map w_slot (ch_ws c)) cs c1 c2 (w_slot w1) Hslots H1 H2).
    - apply in_map, Hw1.
    - rewrite Hs. apply in_map, Hw2. }
  subst c2. split; [reflexivity|].
  apply (nodup_map_inj _ _ w_slot (ch_ws c1)); auto. apply (gc_nodup c1 (Hgood c1 H1)).
Qed.

Lemma files_distinct : forall c1 c2, In c1 cs -> In c2 cs -> ch_f c1 = ch_f c2 -> c1 = c2.
Proof. intros c1 c2 H1 H2 Hf. apply (nodup_map_inj _ _ ch_f cs); auto. Qed.

Lemma written_in : forall c w, In w (ch_written c) -> In w (ch_ws c).
Proof. intros c w. apply in_firstn. Qed.

Lemma written_head : forall c w, In c cs -> In w (ch_written c) ->
  exists w0 r, ch_ws c = w0 :: r /\ In w0 (ch_written c) /\ ch_c0 c = w_slot w0.
Proof.
  intros c w Hc Hw. unfold ch_written, ch_c0 in *. destruct (ch_ws c) as [|w0 r] eqn:E.
  - rewrite firstn_nil in Hw. destruct Hw.
  - exists w0, r. split; [reflexivity|]. split; [|reflexivity].
    destruct (ch_m c); [destruct Hw| cbn [firstn]; left; reflexivity].
Qed.

(* scanned part of a chain at scan position p *)
Definition Scn (c : chain) (p : Z) (w : wr) : Prop := In w (ch_written c) /\ w_slot w < p.
Definition ssum (c : chain) (p : Z) : Z := psz_sum (filter (fun w => w_slot w <? p) (ch_written c)).

Lemma ssum_same : forall c p, (forall w, In w (ch_written c) -> w_slot w <> p) -> ssum c (p + 1) = ssum c p.
Proof.
  intros c p H. unfold ssum. f_equal. apply filter_ext_in. intros w Hw. specialize (H w Hw). lia.
Qed.

Lemma ssum_step : forall c p w1, NoDup (map w_slot (ch_written c)) -> In w1 (ch_written c) -> w_slot w1 = p ->
  ssum c (p + 1) = ssum c p + h_psz (w_hdr w1).
Proof.
  intros c p w1. unfold ssum. induction (ch_written c) as [|w l IH]; intros Hnd Hin Hs; [destruct Hin|].
  cbn [map] in Hnd. inversion Hnd as [|? ? Hn Hd]; subst. cbn [filter].
  destruct Hin as [-> | Hin].
  - assert (w_slot w1 <? w_slot w1 + 1 = true) as -> by lia. assert (w_slot w1 <? w_slot w1 = false) as -> by lia.
    cbn [psz_sum fold_right]. fold (psz_sum (filter (fun w => w_slot w <? w_slot w1 + 1) l)).
    assert (filter (fun w => w_slot w <? w_slot w1 + 1) l = filter (fun w => w_slot w <? w_slot w1) l) as ->.
    { apply filter_ext_in. intros w Hw. assert (w_slot w <> w_slot w1) by (intros E; apply Hn; rewrite <- E; apply in_map, Hw). lia. }
    unfold psz_sum. lia.
  - assert (w_slot w <> w_slot w1) by (intros E; apply Hn; rewrite E; apply in_map, Hin).
    specialize (IH Hd Hin eq_refl).
    destruct (w_slot w <? w_slot w1 + 1) eqn:E1; destruct (w_slot w <? w_slot w1) eqn:E2; try lia;
      cbn [psz_sum fold_right] in *; unfold psz_sum in *; lia.
Qed.

Lemma written_nodup : forall c, In c cs -> NoDup (map w_slot (ch_written c)).
Proof.
  intros c Hc. unfold ch_written. pose proof (gc_nodup c (Hgood c Hc)) as H.
  rewrite <- (firstn_skipn (ch_m c) (ch_ws c)) in H. rewrite map_app in H. apply nodup_app_l in H. exact H.
Qed.

Definition slot_ok (st : rst) (c : chain) (p : Z) (w : wr) : Prop :=
  exists mo, r_sl st (w_slot w) = mkLslot mo true false false (h_psz (w_hdr w)) (h_next (w_hdr w)) /\
             (mo = -1 \/ exists w', Scn c p w' /\ w_slot w' = mo).

Definition linv (c : chain) (p : Z) (st : rst) : Prop :=
  ((forall w, In w (ch_written c) -> p <= w_slot w) /\ r_ent st (ch_f c) = lent0) \/
  ((exists w, Scn c p w) /\ ch_single c = true /\
     r_ent st (ch_f c) = mkLent LeLoaded true (ch_T c) (ch_key c) (ch_c0 c) (ch_T c) /\
     r_sl st (ch_c0 c) = mkLslot (-1) true true false (ch_T c) (-1)) \/
  ((exists w, Scn c p w) /\ ch_single c = false /\ exists start,
     r_ent st (ch_f c) = mkLent LeLoading (ch_c0 c <? p) (ssum c p) (ch_key c) start 0 /\
     ((ch_c0 c <? p) = true -> start = ch_c0 c) /\
     (exists w, Scn c p w /\ w_slot w = start) /\
     (forall w, Scn c p w -> slot_ok st c p w)).

Definition LInv (p : Z) (st : rst) : Prop :=
  (forall c, In c cs -> linv c p st) /\
  (forall f, (forall c, In c cs -> ch_f c <> f) -> r_ent st f = lent0) /\
  (forall x, p <= x -> r_sl st x = lslot0).

(* nothing of chain c lives in slot p: its invariant carries over when its entry and slots are untouched *)
Lemma linv_frame : forall c p st st', In c cs -> linv c p st ->
  (forall w, In w (ch_written c) -> w_slot w <> p) ->
  r_ent st' (ch_f c) = r_ent st (ch_f c) ->
  (forall w, In w (ch_written c) -> r_sl st' (w_slot w) = r_sl st (w_slot w)) ->
  linv c (p + 1) st'.
Proof.
  intros c p st st' Hc Hinv Hno He Hsl.
  assert (Hscn : forall w, Scn c (p + 1) w <-> Scn c p w).
  { intros w. unfold Scn. split; intros [A B]; split; auto; [specialize (Hno w A)|]; lia. }
  destruct Hinv as [[A B] | [(Hex & Hsg & Hent & Hs0) | (Hex & Hsg & start & Hent & Hst & Hstart & Hok)]].
  - left. split; [intros w Hw; specialize (A w Hw); specialize (Hno w Hw); lia| now rewrite He].
  - right; left. destruct Hex as [w Hw]. split; [exists w; apply Hscn, Hw|]. split; [exact Hsg|].
    split; [now rewrite He|].
    destruct (written_head c w Hc (proj1 Hw)) as (w0 & r & _ & Hw0 & Hc0). rewrite Hc0, (Hsl w0 Hw0), <- Hc0. exact Hs0.
  - right; right. destruct Hex as [w Hw]. split; [exists w; apply Hscn, Hw|]. split; [exact Hsg|].
    destruct (written_head c w Hc (proj1 Hw)) as (w0 & r & _ & Hw0 & Hc0).
    assert (Hc0p : (ch_c0 c <? p + 1) = (ch_c0 c <? p)). { specialize (Hno w0 Hw0). rewrite Hc0. lia. }
    exists start. rewrite He, Hc0p, (ssum_same c p Hno). split; [exact Hent|]. split; [exact Hst|].
    split.
    + destruct Hstart as (ws & Hws & Hwss). exists ws. split; [apply Hscn, Hws| exact Hwss].
    + intros w' Hw'. apply Hscn in Hw'. destruct (Hok w' Hw') as (mo & Hmo & Hcl). exists mo.
      rewrite (Hsl w' (proj1 Hw')). split; [exact Hmo|].
      destruct Hcl as [-> | (w'' & Hw'' & Hm)]; [left; reflexivity| right; exists w''; split; [apply Hscn, Hw''| exact Hm]].
Qed.

Lemma dec_owner : forall p,
  (exists c w, In c cs /\ In w (ch_written c) /\ w_slot w = p) \/
  (forall c w, In c cs -> In w (ch_written c) -> w_slot w <> p).
Proof.
  intros p. destruct (existsb (fun c => existsb (fun w => w_slot w =? p) (ch_written c)) cs) eqn:E.
  - left. apply existsb_exists in E. destruct E as (c & Hc & E). apply existsb_exists in E. destruct E as (w & Hw & E).
    exists c, w. repeat split; auto. lia.
  - right. intros c w Hc Hw Hs.
    assert (existsb (fun c => existsb (fun w => w_slot w =? p) (ch_written c)) cs = true); [|congruence].
    apply existsb_exists. exists c. split; [exact Hc|]. apply existsb_exists. exists w. split; [exact Hw| lia].
Qed.

Lemma ssum_zero : forall c p, (forall w, In w (ch_written c) -> p <= w_slot w) -> ssum c p = 0.
Proof.
  intros c p H. unfold ssum. induction (ch_written c) as [|w l IH]; [reflexivity|].
  cbn [filter]. assert (w_slot w <? p = false) as -> by (specialize (H w (or_introl eq_refl)); lia).
  apply IH. intros w' Hw'. apply H. right. exact Hw'.
Qed.

Lemma load_one_empty : forall st p, d p = cell0 -> load_one N P oi d st p = free_slot p st.
Proof. intros st p H. unfold load_one. rewrite H. reflexivity. Qed.

Lemma load_one_owned : forall st p c w, In c cs -> In w (ch_written c) -> w_slot w = p ->
  load_one N P oi d st p = use_new_slot N P oi d p p (w_hdr w) st.
Proof.
  intros st p c w Hc Hw Hs. unfold load_one. rewrite <- Hs, (Himg_w c w Hc Hw). cbn [cell_of c_hdr].
  destruct (gc_hdr c (Hgood c Hc) w (written_in c w Hw)) as (_ & _ & Hv & Hp & Hsl & Hn).
  unfold hdr_empty, hdr_sane.
  assert (h_psz (w_hdr w) =? 0 = false) as -> by lia. rewrite !andb_false_r.
  destruct (gc_hdr c (Hgood c Hc) w (written_in c w Hw)) as (_ & Hf & _).
  assert (Hc0 : 0 <= ch_c0 c < N).
  { destruct (written_head c w Hc Hw) as (w0 & r & Hws & Hw0 & Hc0). rewrite Hc0.
    apply (gc_hdr c (Hgood c Hc) w0 (written_in c w0 Hw0)). }
  rewrite Hf.
  assert (0 <=? ch_c0 c = true) as -> by lia. assert (ch_c0 c <? N = true) as -> by lia.
  assert (-1 <=? h_next (w_hdr w) = true) as -> by lia. assert (h_next (w_hdr w) <? N = true) as -> by lia.
  assert (0 <? h_ver (w_hdr w) = true) as -> by lia. assert (0 <? h_psz (w_hdr w) = true) as -> by lia.
  assert (h_psz (w_hdr w) <=? P = true) as -> by lia. reflexivity.
Qed.

Lemma single_only : forall c w w', ch_single c = true -> In w (ch_ws c) -> In w' (ch_ws c) -> w = w'.
Proof.
  intros c w w' Hs Hw Hw'. unfold ch_single in Hs. destruct (ch_ws c) as [|a [|b r]]; try discriminate Hs.
  destruct Hw as [<- | []]; destruct Hw' as [<- | []]; reflexivity.
Qed.

(* the state and the entry that addSlotToEntry sees when the scan reaches a written slot of chain c1 *)
Lemma owner_pre : forall p st c1 w1, LInv p st -> In c1 cs -> In w1 (ch_written c1) -> w_slot w1 = p ->
  exists st0 start,
    use_new_slot N P oi d p p (w_hdr w1) st = add_slot N P oi d p (ch_f c1) p (w_hdr w1) st0 /\
    r_ent st0 (ch_f c1) = mkLent LeLoading (ch_c0 c1 <? p) (ssum c1 p) (ch_key c1) start 0 /\
    (forall f', f' <> ch_f c1 -> r_ent st0 f' = r_ent st f') /\ (forall x, r_sl st0 x = r_sl st x) /\
    ((ch_c0 c1 <? p) = true -> start = ch_c0 c1) /\
    (start = -1 \/ exists w, Scn c1 p w /\ w_slot w = start) /\
    (forall w, Scn c1 p w -> slot_ok st c1 p w) /\
    ((exists w, Scn c1 p w) -> ch_single c1 = false).
Proof.
  intros p st c1 w1 (Hall & _ & _) Hc1 Hw1 Hs1.
  destruct (gc_hdr c1 (Hgood c1 Hc1) w1 (written_in c1 w1 Hw1)) as (Hk & _).
  unfold use_new_slot. rewrite Hk. fold (ch_f c1).
  destruct (Hall c1 Hc1) as [[A B] | [(Hex & Hsg & Hent & Hs0) | (Hex & Hsg & start & Hent & Hst & Hstart & Hok)]].
  - rewrite B. cbn [lent0 le_state].
    exists (set_ent st (ch_f c1) (mkLent LeLoading false 0 (ch_key c1) (-1) 0)), (-1).
    split; [reflexivity|].
    destruct (written_head c1 w1 Hc1 Hw1) as (w0 & r & _ & Hw0 & Hc0).
    assert (Hc0p : (ch_c0 c1 <? p) = false) by (specialize (A w0 Hw0); rewrite Hc0; lia).
    rewrite Hc0p, (ssum_zero c1 p A). split; [cbn [set_ent r_ent]; apply upd_eq|].
    split; [intros f' Hf'; cbn [set_ent r_ent]; apply upd_neq, Hf'|]. split; [reflexivity|].
    split; [discriminate|]. split; [left; reflexivity|].
    split; intros; [|destruct H as (w & Hw & Hlt)]; try (destruct H as [Hw Hlt]); specialize (A _ Hw); lia.
  - exfalso. destruct Hex as (w & Hw & Hlt).
    assert (w = w1) by (apply (single_only c1); auto using written_in). subst w. lia.
  - rewrite Hent. cbn [le_state la_key]. rewrite key_eqb_refl.
    exists st, start. split; [reflexivity|]. split; [exact Hent|]. split; [reflexivity|]. split; [reflexivity|].
    split; [exact Hst|]. split; [right; exact Hstart|]. split; [exact Hok|]. intros _. exact Hsg.
Qed.

Lemma c0_in : forall c, In c cs -> exists w0, In w0 (ch_ws c) /\ w_slot w0 = ch_c0 c.
Proof.
  intros c Hc. pose proof (gc_nonempty c (Hgood c Hc)) as Hne. unfold ch_c0.
  destruct (ch_ws c) as [|w0 r]; [congruence|]. exists w0. split; [left; reflexivity| reflexivity].
Qed.

Lemma classic_chain_eq : forall c c1, In c cs -> In c1 cs -> c = c1 \/ c <> c1.
Proof.
  intros c c1 Hc Hc1. destruct (Z.eq_dec (ch_f c) (ch_f c1)) as [E | E].
  - left. apply files_distinct; assumption.
  - right. intros ->. apply E. reflexivity.
Qed.

Lemma scn_mono : forall c p w, Scn c p w -> Scn c (p + 1) w.
Proof. intros c p w [A B]. split; [exact A| lia]. Qed.

(* the other chains, the unowned filenos and the unscanned slots after a step that touched only chain c1 *)
Lemma load_step_others : forall p st st' c1 w1 (b : bool),
  LInv p st -> In c1 cs -> In w1 (ch_written c1) -> w_slot w1 = p ->
  (forall f', f' <> ch_f c1 -> r_ent st' f' = r_ent st f') ->
  (forall x, x <> p -> (b = true -> x <> ch_c0 c1) -> r_sl st' x = r_sl st x) ->
  (b = true -> ch_c0 c1 < p) ->
  (forall c, In c cs -> c <> c1 -> linv c (p + 1) st') /\
  (forall f, (forall c, In c cs -> ch_f c <> f) -> r_ent st' f = lent0) /\
  (forall x, p + 1 <= x -> r_sl st' x = lslot0).
Proof.
  intros p st st' c1 w1 b (Hall & Hfree & Hfresh) Hc1 Hw1 Hs1 He Hsl Hb.
  split; [|split].
  - intros c Hc Hne. apply (linv_frame c p st st' Hc (Hall c Hc)).
    + intros w Hw Hs. apply Hne. apply (owner_unique c c1 w w1); auto using written_in. lia.
    + apply He. intros Hf. apply Hne. apply files_distinct; auto.
    + intros w Hw. apply Hsl.
      * intros Hs. apply Hne. apply (owner_unique c c1 w w1); auto using written_in. lia.
      * intros _ Hs. destruct (c0_in c1 Hc1) as (w0 & Hw0 & Hs0). apply Hne.
        apply (owner_unique c c1 w w0); auto using written_in. lia.
  - intros f Hf. rewrite He; [apply Hfree, Hf| intros ->; apply (Hf c1 Hc1); reflexivity].
  - intros x Hx. rewrite Hsl; [apply Hfresh; lia| lia| intros Hb'; specialize (Hb Hb'); lia].
Qed.

Lemma load_step_owner_multi : forall p st st' c1 w1 (b : bool) start' mo',
  LInv p st -> In c1 cs -> In w1 (ch_written c1) -> w_slot w1 = p -> ch_single c1 = false ->
  (forall f', r_ent st' f' = if f' =? ch_f c1
        then mkLent LeLoading (ch_c0 c1 <? p + 1) (ssum c1 (p + 1)) (ch_key c1) start' 0 else r_ent st f') ->
  (forall x, r_sl st' x =
        if x =? p then mkLslot mo' true false false (h_psz (w_hdr w1)) (h_next (w_hdr w1))
        else if b && (x =? ch_c0 c1) then x_more (r_sl st x) p else r_sl st x) ->
  (b = true -> ch_c0 c1 < p) ->
  ((ch_c0 c1 <? p + 1) = true -> start' = ch_c0 c1) ->
  (start' = p \/ exists w, Scn c1 p w /\ w_slot w = start') ->
  (mo' = -1 \/ exists w, Scn c1 p w /\ w_slot w = mo') ->
  (forall w, Scn c1 p w -> slot_ok st c1 p w) ->
  LInv (p + 1) st'.
Proof.
  intros p st st' c1 w1 b start' mo' HI Hc1 Hw1 Hs1 Hsg He Hsl Hb Hst Hstart Hmo Hok.
  destruct (load_step_others p st st' c1 w1 b HI Hc1 Hw1 Hs1) as (Ho & Hf & Hx).
  { intros f' Hf'. rewrite He. assert (f' =? ch_f c1 = false) as -> by lia. reflexivity. }
  { intros x Hx1 Hx2. rewrite Hsl. assert (x =? p = false) as -> by lia.
    destruct b; [|reflexivity]. specialize (Hx2 eq_refl). assert (x =? ch_c0 c1 = false) as -> by lia. reflexivity. }
  { exact Hb. }
  split; [|split; assumption].
  intros c Hc. destruct (classic_chain_eq c c1 Hc Hc1) as [-> | Hne]; [|apply Ho; assumption].
  right; right. split; [exists w1; split; [exact Hw1| lia]|]. split; [exact Hsg|].
  exists start'. split; [rewrite He, Z.eqb_refl; reflexivity|]. split; [exact Hst|]. split.
  - destruct Hstart as [-> | (w & Hw & Hws)]; [exists w1; split; [split; [exact Hw1| lia]| exact Hs1]|].
    exists w. split; [apply scn_mono, Hw| exact Hws].
  - intros w [Hw Hlt]. unfold slot_ok. rewrite Hsl.
    destruct (w_slot w =? p) eqn:Ep.
    + assert (w = w1).
      { apply (nodup_map_inj _ _ w_slot (ch_written c1)); auto using written_nodup. lia. }
      subst w. exists mo'. split; [reflexivity|].
      destruct Hmo as [-> | (w & Hw' & Hws)]; [left; reflexivity| right; exists w; split; [apply scn_mono, Hw'| exact Hws]].
    + assert (Hscn : Scn c1 p w) by (split; [exact Hw| lia]).
      destruct (Hok w Hscn) as (mo & Hmo_eq & Hcl).
      destruct (b && (w_slot w =? ch_c0 c1)) eqn:Eb.
      * exists p. rewrite Hmo_eq. unfold x_more. cbn [ls_mapped ls_final ls_freed ls_size ls_next]. split; [reflexivity|].
        right. exists w1. split; [split; [exact Hw1| lia]| exact Hs1].
      * exists mo. split; [exact Hmo_eq|].
        destruct Hcl as [-> | (w' & Hw' & Hws)]; [left; reflexivity| right; exists w'; split; [apply scn_mono, Hw'| exact Hws]].
Qed.

Lemma load_step : forall p st, 0 <= p < N -> LInv p st -> LInv (p + 1) (load_one N P oi d st p).
Proof.
  intros p st Hp HI. destruct (dec_owner p) as [(c1 & w1 & Hc1 & Hw1 & Hs1) | Hnone].
  2:{ rewrite load_one_empty by (apply Himg_0; intros c w Hc Hw; apply (Hnone c w Hc Hw)).
      destruct HI as (Hall & Hfree & Hfresh). split; [|split].
      - intros c Hc. apply (linv_frame c p st _ Hc (Hall c Hc)); [intros w Hw; apply (Hnone c w Hc Hw)| reflexivity|].
        intros w Hw. unfold free_slot. cbn [set_sl r_sl]. apply upd_neq. apply (Hnone c w Hc Hw).
      - intros f Hf. unfold free_slot. cbn [set_sl r_ent]. apply Hfree, Hf.
      - intros x Hx. unfold free_slot. cbn [set_sl r_sl]. rewrite upd_neq by lia. apply Hfresh. lia. }
  rewrite (load_one_owned st p c1 w1 Hc1 Hw1 Hs1).
  destruct (owner_pre p st c1 w1 HI Hc1 Hw1 Hs1) as (st0 & start & Heq & Hent & Hof & Hsl0 & Hst & Hstart & Hok & Hsgl).
  rewrite Heq. clear Heq.
  pose proof (Hgood c1 Hc1) as G.
  destruct (gc_hdr c1 G w1 (written_in c1 w1 Hw1)) as (Hk & Hfirst & Hver & Hpsz & Hslot & Hnext).
  assert (Hfreshp : r_sl st p = lslot0) by (destruct HI as (_ & _ & HIx); apply HIx; lia).
  assert (Himg : d p = cell_of w1) by (rewrite <- Hs1; apply (Himg_w c1 w1 Hc1 Hw1)).
  destruct (written_head c1 w1 Hc1 Hw1) as (w0 & r & Hws & Hw0 & Hc0).
  destruct (ch_single c1) eqn:Esg.
  - (* a one-slot entry *)
    assert (w0 = w1) by (apply (single_only c1); auto using written_in). subst w0.
    assert (r = []) by (unfold ch_single in Esg; rewrite Hws in Esg; destruct r; [reflexivity| discriminate Esg]). subst r.
    destruct (gc_esz c1 G w1 [] Hws) as (Hesz & HT). specialize (HT eq_refl).
    pose proof (gc_linked c1 G) as Hl. rewrite Hws in Hl. cbn [linked_to] in Hl. destruct Hl as [Hnx _].
    assert (Hnoscan : forall w, In w (ch_written c1) -> p <= w_slot w).
    { intros w Hw. assert (w = w1) by (apply (single_only c1); auto using written_in). subst w. lia. }
    assert (Hstart1 : start = -1).
    { destruct Hstart as [-> | (w & Hw & _)]; [reflexivity|]. assert (true = false) by (apply Hsgl; exists w; exact Hw). discriminate. }
    assert (Hc0p : (ch_c0 c1 <? p) = false) by lia.
    rewrite Hc0p, (ssum_zero c1 p Hnoscan), Hstart1 in Hent.
    destruct (add_slot_single N P oi d p (ch_f c1) p w1 st0 (ch_key c1)) as (E1 & S1); auto; try lia.
    { rewrite Hsl0. exact Hfreshp. }
    { apply (gc_meta c1 G w1 [] Hws). }
    set (st' := add_slot N P oi d p (ch_f c1) p (w_hdr w1) st0) in *.
    destruct (load_step_others p st st' c1 w1 false HI Hc1 Hw1 Hs1) as (Ho & Hf & Hx).
    { intros f' Hf'. rewrite E1. assert (f' =? ch_f c1 = false) as -> by lia. apply Hof, Hf'. }
    { intros x Hx1 _. rewrite S1. assert (x =? p = false) as -> by lia. apply Hsl0. }
    { discriminate. }
    split; [|split; assumption].
    intros c Hc. destruct (classic_chain_eq c c1 Hc Hc1) as [-> | Hne]; [|apply Ho; assumption].
    right; left. split; [exists w1; split; [exact Hw1| lia]|]. split; [exact Esg|].
    split; [rewrite E1, Z.eqb_refl, HT, Hc0, Hs1; reflexivity|].
    rewrite S1, Hc0, Hs1, Z.eqb_refl, HT. reflexivity.
  - (* a slot of a multi-slot entry *)
    assert (Hr : r <> []) by (intros ->; unfold ch_single in Esg; rewrite Hws in Esg; discriminate Esg).
    assert (Hstep : ssum c1 (p + 1) = ssum c1 p + h_psz (w_hdr w1)) by (apply ssum_step; auto using written_nodup).
    destruct (Z.eq_dec (ch_c0 c1) p) as [Eino | Eino].
    + (* the inode *)
      assert (w0 = w1).
      { apply (nodup_map_inj _ _ w_slot (ch_ws c1)); auto using written_in; [apply (gc_nodup c1 G)| lia]. }
      subst w0.
      destruct (gc_esz c1 G w1 r Hws) as (Hesz & _). destruct r as [|w2 r]; [congruence|].
      assert (Hc0p : (ch_c0 c1 <? p) = false) by lia. rewrite Hc0p in Hent.
      destruct (add_slot_inode_multi N P oi d p (ch_f c1) p w1 st0 _ Hent) as (E1 & S1); auto.
      { rewrite Hfirst. exact Eino. }
      { apply (gc_meta c1 G w1 _ Hws). }
      cbn [le_state le_size la_key la_start] in E1, S1.
      apply (load_step_owner_multi p st _ c1 w1 false p start HI Hc1 Hw1 Hs1 Esg).
      * intros f'. rewrite E1. destruct (f' =? ch_f c1) eqn:Ef; [|apply Hof; lia].
        assert (ch_c0 c1 <? p + 1 = true) as -> by lia. rewrite Hstep. reflexivity.
      * intros x. rewrite S1, !Hsl0, Hfreshp. cbn [andb lslot0 ls_final ls_freed]. reflexivity.
      * discriminate.
      * intros _. lia.
      * left. reflexivity.
      * exact Hstart.
      * exact Hok.
    + (* not the inode *)
      assert (Hfne : h_first (w_hdr w1) <> p) by (rewrite Hfirst; exact Eino).
      destruct (ch_c0 c1 <? p) eqn:Ea.
      * specialize (Hst eq_refl). subst start.
        destruct (add_slot_noninode_anch N P oi d p (ch_f c1) p (w_hdr w1) st0 _ Hent) as (E1 & S1); auto.
        cbn [le_state le_size la_key la_start] in E1, S1.
        assert (Hscn0 : Scn c1 p w0) by (split; [exact Hw0| lia]).
        destruct (Hok w0 Hscn0) as (mo & Hmo_eq & Hcl). rewrite <- Hc0 in Hmo_eq.
        apply (load_step_owner_multi p st _ c1 w1 true (ch_c0 c1) mo HI Hc1 Hw1 Hs1 Esg).
        -- intros f'. rewrite E1. destruct (f' =? ch_f c1) eqn:Ef; [|apply Hof; lia].
           assert (ch_c0 c1 <? p + 1 = true) as -> by lia. rewrite Hstep. reflexivity.
        -- intros x. rewrite S1, !Hsl0, Hfreshp, Hmo_eq. cbn [andb lslot0 ls_final ls_freed ls_more]. reflexivity.
        -- intros _. lia.
        -- intros _. reflexivity.
        -- right. exists w0. split; [exact Hscn0| lia].
        -- exact Hcl.
        -- exact Hok.
      * destruct (add_slot_noninode_unanch N P oi d p (ch_f c1) p (w_hdr w1) st0 _ Hent) as (E1 & S1); auto.
        cbn [le_state le_size la_key la_start] in E1, S1.
        apply (load_step_owner_multi p st _ c1 w1 false p start HI Hc1 Hw1 Hs1 Esg).
        -- intros f'. rewrite E1. destruct (f' =? ch_f c1) eqn:Ef; [|apply Hof; lia].
           assert (ch_c0 c1 <? p + 1 = false) as -> by lia. rewrite Hstep. reflexivity.
        -- intros x. rewrite S1, !Hsl0, Hfreshp. cbn [andb lslot0 ls_final ls_freed]. reflexivity.
        -- discriminate.
        -- intros Hc. lia.
        -- left. reflexivity.
        -- exact Hstart.
        -- exact Hok.
Qed.

Lemma LInv_init : LInv 0 rst0.
Proof.
  split; [|split; reflexivity]. intros c Hc. left. split; [|reflexivity].
  intros w Hw. apply (gc_hdr c (Hgood c Hc) w (written_in c w Hw)).
Qed.

Lemma load_fold : forall n a st, 0 <= a -> a + Z.of_nat n <= N -> LInv a st ->
  LInv (a + Z.of_nat n) (fold_left (load_one N P oi d) (zseq a n) st).
Proof.
  induction n as [|n IH]; intros a st Ha Hn HI.
  - cbn [zseq fold_left]. replace (a + Z.of_nat 0) with a by lia. exact HI.
  - cbn [zseq fold_left]. replace (a + Z.of_nat (S n)) with ((a + 1) + Z.of_nat n) by lia.
    apply IH; [lia| lia|]. apply load_step; [lia| exact HI].
Qed.

Lemma loaded : LInv N (fold_left (load_one N P oi d) (zseq 0 (Z.to_nat N)) rst0).
Proof.
  pose proof (load_fold (Z.to_nat N) 0 rst0) as H. rewrite Z2Nat.id in H by lia. apply H; [lia| lia| apply LInv_init].
Qed.

(* ---- 4.7 the chain walk of finalizeOrThrow ---- *)
Definition mark_final (l : list wr) (st : rst) : rst :=
  fold_left (fun s w => set_sl s (w_slot w) (x_final (r_sl s (w_slot w)))) l st.

Lemma mark_final_ent : forall l st f, r_ent (mark_final l st) f = r_ent st f.
Proof. induction l as [|w l IH]; intros st f; [reflexivity|]. cbn [mark_final fold_left]. fold (mark_final l). rewrite IH. reflexivity. Qed.

Lemma mark_final_nofuel : forall l st, r_nofuel (mark_final l st) = r_nofuel st.
Proof. induction l as [|w l IH]; intros st; [reflexivity|]. cbn [mark_final fold_left]. fold (mark_final l). rewrite IH. reflexivity. Qed.

Lemma mark_final_out : forall l st x, ~ In x (map w_slot l) -> r_sl (mark_final l st) x = r_sl st x.
Proof.
  induction l as [|w l IH]; intros st x Hx; [reflexivity|]. cbn [mark_final fold_left]. fold (mark_final l).
  cbn [map In] in Hx. rewrite IH by tauto. cbn [set_sl r_sl]. apply upd_neq. intros E. apply Hx. left. congruence.
Qed.

Lemma mark_final_in : forall l st w, NoDup (map w_slot l) -> In w l ->
  r_sl (mark_final l st) (w_slot w) = x_final (r_sl st (w_slot w)).
Proof.
  induction l as [|a l IH]; intros st w Hnd Hw; [destruct Hw|]. cbn [mark_final fold_left]. fold (mark_final l).
  cbn [map] in Hnd. inversion Hnd as [|? ? Hn Hd]; subst. destruct Hw as [<- | Hw].
  - rewrite mark_final_out by exact Hn. cbn [set_sl r_sl]. apply upd_eq.
  - rewrite IH by assumption. cbn [set_sl r_sl]. rewrite upd_neq; [reflexivity|].
    intros E. apply Hn. rewrite <- E. apply in_map, Hw.
Qed.

Definition head_slot (l : list wr) (e : Z) : Z := match l with w :: _ => w_slot w | [] => e end.

Lemma fin_walk_chain : forall l e fuel pos lesize sum st,
  linked_to l e -> (length l <= fuel)%nat -> NoDup (map w_slot l) ->
  (forall w, In w l -> 0 <= w_slot w < N /\ w_slot w <= pos /\ 0 < h_psz (w_hdr w) /\
      exists mo, r_sl st (w_slot w) = mkLslot mo true false false (h_psz (w_hdr w)) (h_next (w_hdr w))) ->
  sum + psz_sum l = lesize ->
  fin_walk N fuel pos lesize (head_slot l e) sum st = WDone e lesize (mark_final l st).
Proof.
  induction l as [|w l IH]; intros e fuel pos lesize sum st Hl Hf Hnd Hok Hsum.
  - cbn [psz_sum fold_right] in Hsum. cbn [head_slot mark_final fold_left]. rewrite fin_walk_done; [f_equal; lia|].
    assert (sum <? lesize = false) as -> by lia. apply orb_true_r.
  - destruct fuel as [|fuel]; [cbn [length] in Hf; lia|]. cbn [head_slot DiskcrashModel.fin_walk].
    destruct (Hok w (or_introl eq_refl)) as (Hr & Hp & Hps & mo & Hsl).
    cbn [psz_sum fold_right] in Hsum. fold (psz_sum l) in Hsum.
    assert (Hnn : 0 <= psz_sum l).
    { clear - Hok. induction l as [|a l IHl]; [cbn; lia|]. cbn [psz_sum fold_right]. fold (psz_sum l).
      assert (0 <= psz_sum l) by (apply IHl; intros w' [<- | Hw']; apply Hok; [left; reflexivity| right; right; exact Hw']).
      destruct (Hok a (or_intror (or_introl eq_refl))) as (_ & _ & Ha & _). lia. }
    assert (w_slot w <? 0 = false) as -> by lia. assert (sum <? lesize = true) as -> by lia. cbn [negb orb].
    assert (w_slot w <? N = true) as -> by lia. assert (w_slot w <=? pos = true) as -> by lia. cbn [andb negb].
    rewrite Hsl. cbn [ls_final ls_mapped ls_freed ls_size ls_next negb].
    assert (h_psz (w_hdr w) <=? 0 = false) as -> by lia.
    cbn [linked_to] in Hl. destruct Hl as [Hnx Hl]. cbn [map] in Hnd. inversion Hnd as [|? ? Hn Hd]; subst.
    assert (Hhead : h_next (w_hdr w) = head_slot l e) by (destruct l; exact Hnx).
    cbn [mark_final fold_left]. fold (mark_final l). rewrite Hsl. rewrite Hhead at 1.
    apply IH; auto; [cbn [length] in Hf; lia| | lia].
    intros w' Hw'. destruct (Hok w' (or_intror Hw')) as (A & B & C & mo' & D). repeat split; try lia.
    exists mo'. cbn [set_sl r_sl]. rewrite upd_neq; [exact D|]. intros E. apply Hn. rewrite <- E. apply in_map, Hw'.
Qed.

(* ---- 4.8 freeBadEntry touches only the entry and the slots on its [more] list ---- *)
Lemma free_more_frame : forall (S : Z -> Prop) fuel i st,
  (i = -1 \/ S i) ->
  (forall x, S x -> 0 <= x /\ (ls_more (r_sl st x) = -1 \/ S (ls_more (r_sl st x)))) ->
  (forall f, r_ent (free_more fuel i st) f = r_ent st f) /\
  (forall x, ~ S x -> r_sl (free_more fuel i st) x = r_sl st x).
Proof.
  intros S. induction fuel as [|fuel IH]; intros i st Hi Hcl.
  - cbn [free_more]. destruct (i <? 0); split; intros; reflexivity.
  - cbn [free_more]. destruct (i <? 0) eqn:Ei; [split; intros; reflexivity|].
    destruct Hi as [-> | Hi]; [discriminate Ei|].
    destruct (Hcl i Hi) as (Hi0 & Hmo).
    destruct (IH (ls_more (r_sl st i)) (free_slot i st)) as (A & B).
    + exact Hmo.
    + intros x Hx. destruct (Hcl x Hx) as (Hx0 & Hxm). split; [exact Hx0|].
      unfold free_slot. cbn [set_sl r_sl]. unfold upd. destruct (x =? i) eqn:E.
      * apply Z.eqb_eq in E. subst x. cbn [x_freed ls_more]. exact Hxm.
      * exact Hxm.
    + split.
      * intros f. rewrite A. reflexivity.
      * intros x Hx. rewrite B by exact Hx. unfold free_slot. cbn [set_sl r_sl]. apply upd_neq.
        intros ->. apply Hx, Hi.
Qed.

Lemma free_bad_entry_spec : forall (S : Z -> Prop) f st,
  (la_start (r_ent st f) = -1 \/ S (la_start (r_ent st f))) ->
  (forall x, S x -> 0 <= x /\ (ls_more (r_sl st x) = -1 \/ S (ls_more (r_sl st x)))) ->
  le_state (r_ent (free_bad_entry N f st) f) = LeCorrupted /\
  (forall f', f' <> f -> r_ent (free_bad_entry N f st) f' = r_ent st f') /\
  (forall x, ~ S x -> r_sl (free_bad_entry N f st) x = r_sl st x).
Proof.
  intros S f st Hs Hcl. unfold free_bad_entry.
  set (st1 := set_ent st f (e_state (r_ent st f) LeCorrupted)).
  destruct (free_more_frame S (fuelN N) (la_start (r_ent st f)) st1 Hs) as (A & B).
  { intros x Hx. apply Hcl, Hx. }
  split; [|split].
  - cbn [set_ent r_ent]. rewrite upd_eq, A. unfold st1. cbn [set_ent r_ent]. rewrite upd_eq. reflexivity.
  - intros f' Hf'. cbn [set_ent r_ent]. rewrite upd_neq by exact Hf'. rewrite A. unfold st1. cbn [set_ent r_ent].
    apply upd_neq, Hf'.
  - intros x Hx. cbn [set_ent r_sl]. rewrite B by exact Hx. reflexivity.
Qed.

(* ---- 4.9 the validation phase ---- *)
Definition slot_done (st : rst) (w : wr) : Prop :=
  exists mo, r_sl st (w_slot w) = mkLslot mo true true false (h_psz (w_hdr w)) (h_next (w_hdr w)).

Definition vinv (c : chain) (g : Z) (st : rst) : Prop :=
  (ch_written c = [] /\ r_ent st (ch_f c) = lent0) \/
  (ch_written c <> [] /\ ch_single c = true /\
     r_ent st (ch_f c) = mkLent LeLoaded true (ch_T c) (ch_key c) (ch_c0 c) (ch_T c) /\
     r_sl st (ch_c0 c) = mkLslot (-1) true true false (ch_T c) (-1)) \/
  (ch_written c <> [] /\ ch_single c = false /\ g <= ch_f c /\
     r_ent st (ch_f c) = mkLent LeLoading true (psz_sum (ch_written c)) (ch_key c) (ch_c0 c) 0 /\
     forall w, In w (ch_written c) -> slot_ok st c N w) \/
  (ch_written c <> [] /\ ch_single c = false /\ ch_f c < g /\ ch_complete c /\
     r_ent st (ch_f c) = mkLent LeLoaded true (psz_sum (ch_ws c)) (ch_key c) (ch_c0 c) (psz_sum (ch_ws c)) /\
     forall w, In w (ch_ws c) -> slot_done st w) \/
  (ch_written c <> [] /\ ch_single c = false /\ ch_f c < g /\ ~ ch_complete c /\
     le_state (r_ent st (ch_f c)) = LeCorrupted).

Definition VInv (g : Z) (st : rst) : Prop :=
  (forall c, In c cs -> vinv c g st) /\
  (forall f, (forall c, In c cs -> ch_f c <> f) -> r_ent st f = lent0).

Lemma ch_f_range : forall c, 0 <= ch_f c < N.
Proof. intros c. unfold ch_f, fileno_of. apply Z.mod_pos_bound. exact HN. Qed.

Lemma ssum_all : forall c, In c cs -> ssum c N = psz_sum (ch_written c).
Proof.
  intros c Hc. unfold ssum. f_equal.
  assert (H : forall w, In w (ch_written c) -> w_slot w <? N = true).
  { intros w Hw. destruct (gc_hdr c (Hgood c Hc) w (written_in c w Hw)) as (_ & _ & _ & _ & Hr & _). lia. }
  induction (ch_written c) as [|w l IH]; [reflexivity|]. cbn [filter]. rewrite (H w (or_introl eq_refl)).
  f_equal. apply IH. intros w' Hw'. apply H. right. exact Hw'.
Qed.

Lemma VInv_of_LInv : forall st, LInv N st -> VInv 0 st.
Proof.
  intros st (Hall & Hfree & _). split; [|exact Hfree].
  intros c Hc. pose proof (ch_f_range c) as Hfr.
  assert (Hrange : forall w, In w (ch_written c) -> w_slot w < N).
  { intros w Hw. apply (gc_hdr c (Hgood c Hc) w (written_in c w Hw)). }
  destruct (Hall c Hc) as [[A B] | [(Hex & Hsg & Hent & Hs0) | (Hex & Hsg & start & Hent & Hst & Hstart & Hok)]].
  - left. split; [|exact B]. destruct (ch_written c) as [|w l]; [reflexivity|].
    specialize (A w (or_introl eq_refl)). specialize (Hrange w (or_introl eq_refl)). lia.
  - right; left. destruct Hex as (w & Hw & _). split; [intros E; rewrite E in Hw; destruct Hw|]. auto.
  - right; right; left. destruct Hex as (w & Hw & _).
    split; [intros E; rewrite E in Hw; destruct Hw|]. split; [exact Hsg|]. split; [lia|].
    destruct (written_head c w Hc Hw) as (w0 & r & _ & Hw0 & Hc0).
    assert (Hc0N : (ch_c0 c <? N) = true) by (specialize (Hrange w0 Hw0); lia).
    rewrite Hc0N, (ssum_all c Hc) in Hent. rewrite (Hst Hc0N) in Hent. split; [exact Hent|].
    intros w' Hw'. apply Hok. split; [exact Hw'| apply Hrange, Hw'].
Qed.

Lemma vinv_frame : forall c g st st', In c cs -> vinv c g st -> ch_f c <> g ->
  r_ent st' (ch_f c) = r_ent st (ch_f c) ->
  (forall w, In w (ch_ws c) -> r_sl st' (w_slot w) = r_sl st (w_slot w)) ->
  vinv c (g + 1) st'.
Proof.
  intros c g st st' Hc Hv Hne He Hsl.
  destruct Hv as [(A & B) | [(A & Hsg & B & C) | [(A & Hsg & Hg & B & C) | [(A & Hsg & Hg & Hco & B & C) | (A & Hsg & Hg & Hco & B)]]]].
  - left. split; [exact A| now rewrite He].
  - right; left. split; [exact A|]. split; [exact Hsg|]. split; [now rewrite He|].
    destruct (c0_in c Hc) as (w0 & Hw0 & Hs0). rewrite <- Hs0, (Hsl w0 Hw0), Hs0. exact C.
  - right; right; left. split; [exact A|]. split; [exact Hsg|]. split; [lia|]. split; [now rewrite He|].
    intros w Hw. destruct (C w Hw) as (mo & Hmo & Hcl). exists mo. rewrite (Hsl w (written_in c w Hw)). auto.
  - right; right; right; left. split; [exact A|]. split; [exact Hsg|]. split; [lia|]. split; [exact Hco|].
    split; [now rewrite He|]. intros w Hw. destruct (C w Hw) as (mo & Hmo). exists mo. rewrite (Hsl w Hw). exact Hmo.
  - right; right; right; right. split; [exact A|]. split; [exact Hsg|]. split; [lia|]. split; [exact Hco|]. now rewrite He.
Qed.

Lemma psz_sum_pos : forall c l, In c cs -> (forall w, In w l -> In w (ch_ws c)) -> l <> [] -> 0 < psz_sum l.
Proof.
  intros c l Hc Hin Hne. destruct l as [|w l]; [congruence|]. cbn [psz_sum fold_right]. fold (psz_sum l).
  assert (0 <= psz_sum l).
  { clear Hne. induction l as [|a l IH]; [cbn; lia|]. cbn [psz_sum fold_right]. fold (psz_sum l).
    assert (0 <= psz_sum l) by (apply IH; intros w' [<- | Hw']; apply Hin; [left; reflexivity| right; right; exact Hw']).
    destruct (gc_hdr c (Hgood c Hc) a (Hin a (or_intror (or_introl eq_refl)))) as (_ & _ & _ & Hp & _). lia. }
  destruct (gc_hdr c (Hgood c Hc) w (Hin w (or_introl eq_refl))) as (_ & _ & _ & Hp & _). lia.
Qed.

Lemma chain_length : forall c, In c cs -> (length (ch_ws c) <= Z.to_nat N)%nat.
Proof.
  intros c Hc. rewrite <- (map_length w_slot), <- (zseq_length (Z.to_nat N) 0).
  apply NoDup_incl_length; [apply (gc_nodup c (Hgood c Hc))|].
  intros x Hx. apply in_map_iff in Hx. destruct Hx as (w & <- & Hw). apply zseq_in.
  destruct (gc_hdr c (Hgood c Hc) w Hw) as (_ & _ & _ & _ & Hr & _). lia.
Qed.

Lemma finalize_chain : forall c st, In c cs -> ch_written c <> [] -> ch_single c = false ->
  r_ent st (ch_f c) = mkLent LeLoading true (psz_sum (ch_written c)) (ch_key c) (ch_c0 c) 0 ->
  (forall w, In w (ch_written c) -> slot_ok st c N w) ->
  let st' := finalize_or_free N N (ch_f c) st in
  (ch_complete c ->
     r_ent st' (ch_f c) = mkLent LeLoaded true (psz_sum (ch_ws c)) (ch_key c) (ch_c0 c) (psz_sum (ch_ws c)) /\
     forall w, In w (ch_ws c) -> slot_done st' w) /\
  (~ ch_complete c -> le_state (r_ent st' (ch_f c)) = LeCorrupted) /\
  (forall f', f' <> ch_f c -> r_ent st' f' = r_ent st f') /\
  (forall x, (forall w, In w (ch_written c) -> w_slot w <> x) -> r_sl st' x = r_sl st x).
Proof.
  intros c st Hc Hne Hsg Hent Hok st'.
  pose proof (Hgood c Hc) as G.
  assert (HW : forall w, In w (ch_written c) -> In w (ch_ws c)) by (intros; apply written_in; assumption).
  assert (Hsize : 0 < psz_sum (ch_written c)) by (apply (psz_sum_pos c); auto).
  destruct (ch_written c) as [|w0 W'] eqn:EW; [congruence|].
  destruct (written_head c w0 Hc) as (w0' & r & Hws & _ & Hc0); [rewrite EW; left; reflexivity|].
  assert (w0' = w0).
  { unfold ch_written in EW. rewrite Hws in EW. destruct (ch_m c); [discriminate EW|]. cbn [firstn] in EW. congruence. }
  subst w0'.
  set (W := w0 :: W') in *.
  assert (HndW : NoDup (map w_slot W)) by (rewrite <- EW; apply written_nodup, Hc).
  assert (Hlen : (length W <= fuelN N)%nat).
  { unfold fuelN. pose proof (chain_length c Hc). rewrite <- EW. unfold ch_written. rewrite firstn_length. lia. }
  assert (HokW : forall w, In w W -> 0 <= w_slot w < N /\ w_slot w <= N /\ 0 < h_psz (w_hdr w) /\
      exists mo, r_sl st (w_slot w) = mkLslot mo true false false (h_psz (w_hdr w)) (h_next (w_hdr w))).
  { intros w Hw. destruct (gc_hdr c G w (HW w Hw)) as (_ & _ & _ & Hp & Hr & _).
    destruct (Hok w Hw) as (mo & Hmo & _). repeat split; try lia. exists mo. exact Hmo. }
  assert (Hwalk : forall e, linked_to W e ->
     fin_walk N (fuelN N) N (psz_sum W) (ch_c0 c) 0 st = WDone e (psz_sum W) (mark_final W st)).
  { intros e He. rewrite Hc0. change (w_slot w0) with (head_slot W e). apply fin_walk_chain; auto. }
  subst st'. unfold finalize_or_free. rewrite Hent. cbn [le_size la_start].
  assert (psz_sum W <=? 0 = false) as -> by lia.
  destruct (Nat.eq_dec (ch_m c) (length (ch_ws c))) as [Hco | Hco].
  - (* complete *)
    assert (HWall : W = ch_ws c) by (rewrite <- EW; unfold ch_written; rewrite Hco; apply firstn_all).
    rewrite (Hwalk (-1)) by (rewrite HWall; apply (gc_linked c G)).
    change (-1 <? 0) with true. rewrite Z.eqb_refl. cbn [andb].
    rewrite mark_final_ent, Hent. cbn [la_swapsz e_swapsz e_state le_anch le_size la_key la_start Z.eqb].
    split; [|split; [|split]].
    + intros _. rewrite <- HWall. split; [cbn [set_ent r_ent]; apply upd_eq|].
      intros w Hw. unfold slot_done. cbn [set_ent r_sl]. rewrite mark_final_in by assumption.
      destruct (HokW w Hw) as (_ & _ & _ & mo & Hmo). rewrite Hmo. exists mo. reflexivity.
    + intros Hn. exfalso. apply Hn. exact Hco.
    + intros f' Hf'. cbn [set_ent r_ent]. rewrite upd_neq by exact Hf'. apply mark_final_ent.
    + intros x Hx. cbn [set_ent r_sl]. apply mark_final_out. intros Hin. apply in_map_iff in Hin.
      destruct Hin as (w & Hs & Hw). apply (Hx w Hw Hs).
  - (* cut short by the crash *)
    pose proof (gc_m c G) as Hm.
    assert (Hlt : (ch_m c < length (ch_ws c))%nat) by lia.
    pose proof (linked_firstn (ch_ws c) (-1) (ch_m c) w0 (gc_linked c G) Hlt) as Hl. fold (ch_written c) in Hl. rewrite EW in Hl.
    set (e := w_slot (nth (ch_m c) (ch_ws c) w0)) in *.
    assert (He0 : 0 <= e).
    { destruct (gc_hdr c G (nth (ch_m c) (ch_ws c) w0)) as (_ & _ & _ & _ & Hr & _); [apply nth_In; exact Hlt| unfold e; lia]. }
    rewrite (Hwalk e Hl). assert (e <? 0 = false) as -> by lia. cbn [andb].
    set (S := fun x => exists w, In w W /\ w_slot w = x).
    destruct (free_bad_entry_spec S (ch_f c) (mark_final W st)) as (A & B & C).
    { right. rewrite mark_final_ent, Hent. cbn [la_start]. exists w0. split; [left; reflexivity| symmetry; exact Hc0]. }
    { intros x (w & Hw & <-). destruct (HokW w Hw) as (Hr & _). split; [lia|].
      rewrite mark_final_in by assumption. destruct (Hok w Hw) as (mo & Hmo & Hcl). rewrite Hmo. cbn [x_final ls_more].
      destruct Hcl as [-> | (w' & (Hw' & _) & Hs')]; [left; reflexivity| right; exists w'; split; [rewrite EW in Hw'; exact Hw'| exact Hs']]. }
    split; [|split; [|split]].
    + intros Hn. exfalso. apply Hco. exact Hn.
    + intros _. exact A.
    + intros f' Hf'. rewrite B by exact Hf'. apply mark_final_ent.
    + intros x Hx. rewrite C; [apply mark_final_out|].
      * intros Hin. apply in_map_iff in Hin. destruct Hin as (w & Hs & Hw). apply (Hx w Hw Hs).
      * intros (w & Hw & Hs). apply (Hx w Hw Hs).
Qed.

Lemma dec_file : forall g, (exists c, In c cs /\ ch_f c = g) \/ (forall c, In c cs -> ch_f c <> g).
Proof.
  intros g. destruct (existsb (fun c => ch_f c =? g) cs) eqn:E.
  - left. apply existsb_exists in E. destruct E as (c & Hc & E). exists c. split; [exact Hc| lia].
  - right. intros c Hc Hf. assert (existsb (fun c => ch_f c =? g) cs = true); [|congruence].
    apply existsb_exists. exists c. split; [exact Hc| lia].
Qed.

Lemma validate_step : forall g st, 0 <= g < N -> VInv g st -> VInv (g + 1) (validate_one N st g).
Proof.
  intros g st Hg (Hall & Hfree).
  assert (Hsame : validate_one N st g = st -> (forall c, In c cs -> ch_f c = g ->
            (ch_written c = [] \/ ch_single c = true)) -> VInv (g + 1) (validate_one N st g)).
  { intros Heq Hc1. rewrite Heq. split; [|exact Hfree]. intros c Hc.
    destruct (Z.eq_dec (ch_f c) g) as [E | E].
    - specialize (Hall c Hc).
      destruct Hall as [(A & B) | [(A & Hsg & B & C) | [(A & Hsg & _) | [(A & Hsg & _) | (A & Hsg & _)]]]];
        try (destruct (Hc1 c Hc E); congruence).
      + left. auto.
      + right; left. auto.
    - apply (vinv_frame c g st st Hc (Hall c Hc) E); reflexivity. }
  destruct (dec_file g) as [(c1 & Hc1 & Hf1) | Hnone].
  2:{ apply Hsame.
      - unfold validate_one. rewrite (Hfree g Hnone). reflexivity.
      - intros c Hc Hf. exfalso. apply (Hnone c Hc Hf). }
  destruct (Hall c1 Hc1) as [(A & B) | [(A & Hsg & B & C) | [(A & Hsg & Hge & B & C) | [(A & Hsg & Hlt & _) | (A & Hsg & Hlt & _)]]]]; try lia.
  - apply Hsame.
    + unfold validate_one. rewrite <- Hf1, B. reflexivity.
    + intros c Hc Hf. assert (c = c1) by (apply files_distinct; auto; lia). subst c. left. exact A.
  - apply Hsame.
    + unfold validate_one. rewrite <- Hf1, B. reflexivity.
    + intros c Hc Hf. assert (c = c1) by (apply files_distinct; auto; lia). subst c. right. exact Hsg.
  - assert (Hv : validate_one N st g = finalize_or_free N N (ch_f c1) st).
    { unfold validate_one. rewrite <- Hf1, B. reflexivity. }
    rewrite Hv. destruct (finalize_chain c1 st Hc1 A Hsg B C) as (Fco & Finc & Fent & Fsl).
    split.
    + intros c Hc. destruct (classic_chain_eq c c1 Hc Hc1) as [-> | Hne].
      * destruct (Nat.eq_dec (ch_m c1) (length (ch_ws c1))) as [Hco | Hco].
        -- right; right; right; left. destruct (Fco Hco) as (F1 & F2). repeat split; auto; lia.
        -- right; right; right; right. repeat split; auto; lia.
      * assert (Hfne : ch_f c <> g) by (intros E; apply Hne; apply files_distinct; auto; lia).
        apply (vinv_frame c g st _ Hc (Hall c Hc) Hfne).
        -- apply Fent. lia.
        -- intros w Hw. apply Fsl. intros w' Hw' Hs. apply Hne.
           apply (owner_unique c c1 w w'); auto using written_in.
    + intros f Hf. rewrite Fent; [apply Hfree, Hf| intros ->; apply (Hf c1 Hc1); reflexivity].
Qed.

Lemma validate_fold : forall n a st, 0 <= a -> a + Z.of_nat n <= N -> VInv a st ->
  VInv (a + Z.of_nat n) (fold_left (validate_one N) (zseq a n) st).
Proof.
  induction n as [|n IH]; intros a st Ha Hn HI.
  - cbn [zseq fold_left]. replace (a + Z.of_nat 0) with a by lia. exact HI.
  - cbn [zseq fold_left]. replace (a + Z.of_nat (S n)) with ((a + 1) + Z.of_nat n) by lia.
    apply IH; [lia| lia|]. apply validate_step; [lia| exact HI].
Qed.

Lemma rebuilt : VInv N (rebuild N P oi d).
Proof.
  unfold rebuild. pose proof (validate_fold (Z.to_nat N) 0) as H. rewrite Z2Nat.id in H by lia.
  apply H; [lia| lia|]. apply VInv_of_LInv, loaded.
Qed.

(* ---- 4.10 hits after recovery ---- *)
Lemma read_chain_spec : forall l e fuel st,
  linked_to l e -> (length l <= fuel)%nat ->
  (forall w, In w l -> 0 <= w_slot w /\ ls_size (r_sl st (w_slot w)) = h_psz (w_hdr w) /\
       ls_next (r_sl st (w_slot w)) = h_next (w_hdr w) /\ d (w_slot w) = cell_of w /\
       h_psz (w_hdr w) = Z.of_nat (length (w_data w))) ->
  read_chain d fuel st (head_slot l e) = concat (map w_data l) ++ read_chain d (fuel - length l) st e.
Proof.
  induction l as [|w l IH]; intros e fuel st Hl Hf Hok.
  - cbn [head_slot map concat length app]. rewrite Nat.sub_0_r. reflexivity.
  - destruct fuel as [|fuel]; [cbn [length] in Hf; lia|].
    destruct (Hok w (or_introl eq_refl)) as (H0 & Hsz & Hnx & Hd & Hps).
    cbn [head_slot read_chain]. assert (w_slot w <? 0 = false) as -> by lia.
    rewrite Hsz, Hnx, Hd, Hps. cbn [cell_of c_area]. rewrite read_area_exact.
    cbn [linked_to] in Hl. destruct Hl as [Hn Hl].
    assert (Hhead : h_next (w_hdr w) = head_slot l e) by (destruct l; exact Hn).
    rewrite Hhead, (IH e fuel st Hl); [| cbn [length] in Hf; lia| intros w' Hw'; apply Hok; right; exact Hw'].
    cbn [map concat length Nat.sub]. rewrite app_assoc. reflexivity.
Qed.

Lemma read_chain_end : forall fuel st, read_chain d fuel st (-1) = [].
Proof. intros [|fuel] st; reflexivity. Qed.

(* what a hit on a complete chain serves: the swap-in checks applied to the concatenated payloads *)
Definition serve (c : chain) : option (list atom) :=
  let content := firstn (Z.to_nat (psz_sum (ch_ws c))) (concat (map w_data (ch_ws c))) in
  match parse_meta oi (firstn (Z.to_nat dc_page_size) content) with
  | Some info => if key_eqb (o_key info) (ch_key c) then Some (firstn (Z.to_nat (o_len info)) content) else None
  | None => None
  end.

Lemma hit_complete : forall c, In c cs -> ch_complete c ->
  hit N oi d (rebuild N P oi d) (ch_key c) = serve c.
Proof.
  intros c Hc Hco. pose proof (Hgood c Hc) as G. destruct rebuilt as (Hall & _).
  assert (Hwr : ch_written c = ch_ws c) by (unfold ch_written; rewrite Hco; apply firstn_all).
  assert (Hread : forall st,
     (forall w, In w (ch_ws c) -> ls_size (r_sl st (w_slot w)) = h_psz (w_hdr w) /\
                                  ls_next (r_sl st (w_slot w)) = h_next (w_hdr w)) ->
     read_chain d (fuelN N) st (ch_c0 c) = concat (map w_data (ch_ws c))).
  { intros st Hsl. pose proof (gc_nonempty c G) as Hne. unfold ch_c0.
    destruct (ch_ws c) as [|w0 r] eqn:Ews; [congruence|]. change (w_slot w0) with (head_slot (w0 :: r) (-1)).
    rewrite <- Ews in *. rewrite read_chain_spec.
    - rewrite read_chain_end. apply app_nil_r.
    - apply (gc_linked c G).
    - unfold fuelN. pose proof (chain_length c Hc). lia.
    - intros w Hw. destruct (gc_hdr c G w Hw) as (_ & _ & _ & _ & Hr & _). destruct (Hsl w Hw) as (A & B).
      repeat split; auto; [lia| | apply (gc_data c G w Hw)].
      apply (Himg_w c w Hc). rewrite Hwr. exact Hw. }
  unfold hit, serve. fold (ch_f c).
  destruct (Hall c Hc) as [(A & B) | [(A & Hsg & B & C) | [(A & Hsg & Hge & _) | [(A & Hsg & Hlt & _ & B & C) | (A & Hsg & Hlt & Hnco & _)]]]].
  - exfalso. rewrite Hwr in A. apply (gc_nonempty c G A).
  - rewrite B. cbn [le_state la_key la_start la_swapsz]. rewrite key_eqb_refl.
    unfold ch_single in Hsg. destruct (ch_ws c) as [|w0 [|w1 r]] eqn:Ews; try discriminate Hsg.
    destruct (gc_esz c G w0 [] Ews) as (_ & HT). specialize (HT eq_refl).
    assert (Hc0 : ch_c0 c = w_slot w0) by (unfold ch_c0; rewrite Ews; reflexivity).
    pose proof (gc_linked c G) as Hl. rewrite Ews in Hl. cbn [linked_to] in Hl. destruct Hl as [Hnx _].
    rewrite Hread.
    + cbn [psz_sum fold_right]. rewrite HT. replace (ch_T c + 0) with (ch_T c) by lia. reflexivity.
    + intros w [<- | []]. rewrite <- Hc0, C. cbn [ls_size ls_next]. rewrite HT, Hnx. auto.
  - pose proof (ch_f_range c). lia.
  - rewrite B. cbn [le_state la_key la_start la_swapsz]. rewrite key_eqb_refl.
    rewrite Hread; [reflexivity|]. intros w Hw. destruct (C w Hw) as (mo & Hmo). rewrite Hmo. auto.
  - exfalso. apply Hnco. exact Hco.
Qed.

Lemma key_eqb_true : forall a b : key, key_eqb a b = true -> a = b.
Proof.
  intros [a0 a1] [b0 b1] H. unfold key_eqb in H. cbn [fst snd] in H. apply andb_prop in H. destruct H as [H0 H1].
  apply Z.eqb_eq in H0, H1. now subst.
Qed.

Lemma hit_only : forall k content, hit N oi d (rebuild N P oi d) k = Some content ->
  exists c, In c cs /\ ch_complete c /\ ch_key c = k.
Proof.
  intros k content Hh. destruct rebuilt as (Hall & Hfree). unfold hit in Hh.
  destruct (dec_file (fileno_of N k)) as [(c & Hc & Hf) | Hnone].
  2:{ rewrite (Hfree _ Hnone) in Hh. discriminate Hh. }
  rewrite <- Hf in Hh. pose proof (Hgood c Hc) as G.
  assert (Hkey : forall e, le_state e = LeLoaded -> la_key e = ch_key c -> r_ent (rebuild N P oi d) (ch_f c) = e -> ch_key c = k).
  { intros e He Hk Hr. rewrite Hr, He, Hk in Hh. destruct (key_eqb (ch_key c) k) eqn:E; [apply key_eqb_true, E| discriminate Hh]. }
  destruct (Hall c Hc) as [(A & B) | [(A & Hsg & B & C) | [(A & Hsg & Hge & _) | [(A & Hsg & Hlt & Hco & B & C) | (A & Hsg & Hlt & Hnco & B)]]]].
  - rewrite B in Hh. discriminate Hh.
  - exists c. split; [exact Hc|]. split; [|refine (Hkey _ _ _ B); reflexivity].
    unfold ch_complete. pose proof (gc_m c G) as Hm. unfold ch_single in Hsg.
    destruct (ch_ws c) as [|w0 [|w1 r]] eqn:Ews; try discriminate Hsg. cbn [length] in *.
    unfold ch_written in A. rewrite Ews in A. destruct (ch_m c) as [|[|m]]; [exfalso; apply A; reflexivity| reflexivity| lia].
  - pose proof (ch_f_range c). lia.
  - exists c. split; [exact Hc|]. split; [exact Hco| refine (Hkey _ _ _ B); reflexivity].
  - destruct (r_ent (rebuild N P oi d) (ch_f c)) as [es ? ? ? ? ?]. cbn [le_state] in *. subst es. discriminate Hh.
Qed.

End Recovery.

(* ---- 4.11 from workloads to chains ---- *)
Record sess_ok (N P : Z) (s : session) : Prop := {
  so_obj : 0 < s_obj s;
  so_ver : 0 < s_ver s;
  so_len : 0 < s_len s;
  so_mlen : 0 < s_mlen s <= s_len s;
  so_mlen_slot : s_mlen s <= Z.min P (dc_page_size - dc_cell_header_size);
  so_ssz : s_ssz s = 0;
  so_slots : length (s_slots s) = length (chunks P (stream (s_obj s) (s_len s)));
  so_range : forall c, In c (s_slots s) -> 0 <= c < N }.

(* the workload writes every slot at most once; keys hash to different filenos; object ids are distinct *)
Record write_once (N P : Z) (ss : list session) : Prop := {
  wo_N : 0 < N;
  wo_P : 0 < P;
  wo_sess : forall s, In s ss -> sess_ok N P s;
  wo_slots : NoDup (concat (map s_slots ss));
  wo_files : NoDup (map (fun s => fileno_of N (s_key s)) ss);
  wo_objs : NoDup (map s_obj ss) }.

Definition chain_of (P : Z) (sm : session * nat) : chain :=
  mkChain (s_key (fst sm)) (s_len (fst sm)) (writes_of P (fst sm)) (snd sm).

Lemma split_n_fst : forall P ss n, map fst (split_n P ss n) = ss.
Proof. induction ss as [|s ss IH]; intros n; cbn [split_n map fst]; [reflexivity| now rewrite IH]. Qed.

Lemma split_n_le : forall P ss n sm, In sm (split_n P ss n) -> (snd sm <= nwrites P (fst sm))%nat.
Proof.
  induction ss as [|s ss IH]; intros n sm H; [destruct H|]. cbn [split_n In] in H. destruct H as [<- | H].
  - cbn [fst snd]. lia.
  - apply (IH _ _ H).
Qed.

Lemma firstn_min_length : forall A (l : list A) n, firstn (Nat.min n (length l)) l = firstn n l.
Proof.
  intros A l n. destruct (Nat.le_ge_cases n (length l)) as [H | H].
  - now rewrite Nat.min_l.
  - rewrite Nat.min_r by exact H. now rewrite !firstn_all2 by lia.
Qed.

Lemma firstn_all_writes : forall P ss n,
  firstn n (all_writes P ss) = concat (map (fun sm => ch_written (chain_of P sm)) (split_n P ss n)).
Proof.
  induction ss as [|s ss IH]; intros n; [cbn; apply firstn_nil|].
  change (all_writes P (s :: ss)) with (writes_of P s ++ all_writes P ss).
  cbn [split_n map concat]. rewrite firstn_app, IH. f_equal.
  unfold ch_written, chain_of, nwrites. cbn [ch_m ch_ws fst snd]. symmetry. apply firstn_min_length.
Qed.

Lemma nodup_concat_in : forall A (L : list (list A)) l, NoDup (concat L) -> In l L -> NoDup l.
Proof.
  induction L as [|a L IH]; intros l Hnd Hin; [destruct Hin|]. cbn [concat] in Hnd. destruct Hin as [<- | Hin].
  - apply (nodup_app_l _ _ _ Hnd).
  - apply IH; [|exact Hin]. clear - Hnd. induction a as [|x a IHa]; [exact Hnd|]. cbn [app] in Hnd. inversion Hnd; auto.
Qed.

Lemma linked_next_range : forall N ws e, linked_to ws e -> -1 <= e < N ->
  (forall w, In w ws -> 0 <= w_slot w < N) -> forall w, In w ws -> -1 <= h_next (w_hdr w) < N.
Proof.
  induction ws as [|a ws IH]; intros e Hl He Hr w Hw; [destruct Hw|]. cbn [linked_to] in Hl. destruct Hl as [Hn Hl].
  destruct Hw as [<- | Hw].
  - rewrite Hn. destruct ws as [|b ws']; [exact He|]. specialize (Hr b (or_intror (or_introl eq_refl))). lia.
  - apply (IH e Hl He); [intros w' Hw'; apply Hr; right; exact Hw'| exact Hw].
Qed.

Lemma oinfo_of_in : forall ss s, NoDup (map s_obj ss) -> In s ss ->
  oinfo_of ss (s_obj s) = Some (mkOinfo (s_key s) (s_len s) (s_mlen s) (s_ssz s)).
Proof.
  intros ss s Hnd Hin. unfold oinfo_of.
  assert (find (fun x => s_obj x =? s_obj s) ss = Some s) as ->; [|reflexivity].
  induction ss as [|a ss IH]; [destruct Hin|]. cbn [map] in Hnd. inversion Hnd as [|? ? Hn Hd]; subst.
  cbn [find]. destruct Hin as [-> | Hin]; [rewrite Z.eqb_refl; reflexivity|].
  destruct (s_obj a =? s_obj s) eqn:E; [|apply IH; assumption].
  exfalso. apply Hn. apply Z.eqb_eq in E. rewrite E. apply in_map, Hin.
Qed.

Lemma psz_sum_data : forall ws, (forall w, In w ws -> h_psz (w_hdr w) = Z.of_nat (length (w_data w))) ->
  psz_sum ws = Z.of_nat (length (concat (map w_data ws))).
Proof.
  induction ws as [|w ws IH]; intros H; [reflexivity|]. cbn [psz_sum fold_right map concat]. fold (psz_sum ws).
  rewrite app_length, Nat2Z.inj_add, <- IH, (H w (or_introl eq_refl)); [reflexivity|].
  intros w' Hw'. apply H. right. exact Hw'.
Qed.

Section Bridge.
Variables (N P : Z) (ss : list session).
Hypothesis WO : write_once N P ss.

Let oi := oinfo_of ss.

Lemma sess_writes : forall s, In s ss ->
  let ws := writes_of P s in
  map w_slot ws = s_slots s /\ map w_data ws = chunks P (stream (s_obj s) (s_len s)) /\
  (forall w, In w ws -> h_key (w_hdr w) = s_key s /\ h_ver (w_hdr w) = s_ver s /\ h_first (w_hdr w) = hd 0 (s_slots s) /\
                        h_psz (w_hdr w) = Z.of_nat (length (w_data w))) /\
  linked_to ws (-1) /\
  (forall w r, ws = w :: r -> h_esz (w_hdr w) = match r with [] => s_len s | _ :: _ => 0 end) /\
  ws <> [].
Proof.
  intros s Hs ws. pose proof (wo_sess N P ss WO s Hs) as SO.
  pose proof (mk_writes_facts (chunks P (stream (s_obj s) (s_len s))) (s_slots s) (s_key s) (s_ver s)
                (hd 0 (s_slots s)) (s_len s) (eq_sym (so_slots N P s SO))) as F. cbv zeta in F.
  fold (writes_of P s) in F. fold ws in F. destruct F as (F1 & F2 & F3 & F4 & F5).
  split; [exact F1|]. split; [exact F2|]. split; [exact F3|]. split; [exact F4|]. split; [exact F5|].
  intros E. assert (Hc : chunks P (stream (s_obj s) (s_len s)) = []) by (rewrite <- F2, E; reflexivity).
  apply (chunks_nonempty P (stream (s_obj s) (s_len s))); [|exact Hc].
  pose proof (so_len N P s SO). intros E'. apply (f_equal (@length atom)) in E'. rewrite stream_length in E'. cbn in E'. lia.
Qed.

Lemma chunk_sizes : forall s ch, In s ss -> In ch (chunks P (stream (s_obj s) (s_len s))) -> 0 < Z.of_nat (length ch) <= P.
Proof.
  intros s ch Hs Hch. unfold chunks in Hch. pose proof (wo_P N P ss WO).
  apply chunks_aux_sizes in Hch; lia.
Qed.

Lemma chunks_stream : forall s, In s ss -> concat (chunks P (stream (s_obj s) (s_len s))) = stream (s_obj s) (s_len s).
Proof. intros s Hs. unfold chunks. pose proof (wo_P N P ss WO). apply chunks_aux_concat; lia. Qed.

Lemma sess_meta : forall s w r, In s ss -> writes_of P s = w :: r -> meta_ok P oi w.
Proof.
  intros s w r Hs Hws. pose proof (wo_sess N P ss WO s Hs) as SO. pose proof (wo_P N P ss WO) as HP.
  destruct (sess_writes s Hs) as (_ & F2 & _). rewrite Hws in F2. cbn [map] in F2.
  assert (Hdata : w_data w = firstn (Z.to_nat P) (stream (s_obj s) (s_len s))).
  { unfold chunks in F2. symmetry in F2. apply chunks_aux_first in F2. exact F2. }
  destruct (so_mlen N P s SO) as (Hm0 & Hml). pose proof (so_mlen_slot N P s SO) as Hms.
  set (B := Z.min P (dc_page_size - dc_cell_header_size)) in *.
  assert (Hpre : firstn (Z.to_nat (s_mlen s)) (meta_buf P w) = stream (s_obj s) (s_mlen s)).
  { unfold meta_buf, read_area. fold B. rewrite Hdata, firstn_firstn.
    rewrite firstn_app, firstn_firstn.
    rewrite firstn_length, stream_length.
    replace (Z.to_nat (s_mlen s) - Nat.min (Nat.min (Z.to_nat B) (Z.to_nat P)) (Z.to_nat (s_len s)))%nat with 0%nat by lia.
    cbn [firstn]. rewrite app_nil_r.
    replace (Nat.min (Z.to_nat (s_mlen s)) (Nat.min (Z.to_nat B) (Z.to_nat P))) with (Z.to_nat (s_mlen s)) by lia.
    apply firstn_stream. lia. }
  pose proof (oinfo_of_in ss s (wo_objs N P ss WO) Hs) as Hoi. fold oi in Hoi.
  split.
  - destruct (meta_buf P w) as [|[o i] buf'] eqn:Eb.
    + unfold stream in Hpre. destruct (Z.to_nat (s_mlen s)) eqn:E; [lia| discriminate Hpre].
    + unfold stream in Hpre. destruct (Z.to_nat (s_mlen s)) eqn:E; [lia|]. cbn [firstn zseq map] in Hpre.
      injection Hpre as Ho _ _. subst o. apply zeroed_false. apply (so_obj N P s SO).
  - exists (mkOinfo (s_key s) (s_len s) (s_mlen s) (s_ssz s)). split; [|apply (so_ssz N P s SO)].
    apply (parse_meta_stream oi (s_obj s)); auto.
Qed.

Lemma serve_full : forall s m, In s ss -> serve oi (chain_of P (s, m)) = Some (full_stream s).
Proof.
  intros s m Hs. pose proof (wo_sess N P ss WO s Hs) as SO.
  destruct (sess_writes s Hs) as (_ & F2 & F3 & _).
  unfold serve, chain_of. cbn [ch_ws ch_key fst].
  rewrite psz_sum_data by (intros w Hw; apply (F3 w Hw)).
  rewrite F2, (chunks_stream s Hs), Nat2Z.id, firstn_all.
  destruct (so_mlen N P s SO) as (Hm0 & Hml). pose proof (so_mlen_slot N P s SO) as Hms.
  pose proof (oinfo_of_in ss s (wo_objs N P ss WO) Hs) as Hoi. fold oi in Hoi.
  rewrite (parse_meta_stream oi (s_obj s) _ _ Hoi); cbn [o_mlen o_key o_len]; [|exact Hm0|].
  - rewrite key_eqb_refl. unfold full_stream. f_equal. rewrite <- (stream_length (s_obj s) (s_len s)). apply firstn_all.
  - rewrite firstn_firstn. replace (Nat.min (Z.to_nat (s_mlen s)) (Z.to_nat dc_page_size)) with (Z.to_nat (s_mlen s)).
    + apply firstn_stream. lia.
    + assert (s_mlen s <= dc_page_size) by (unfold dc_page_size, dc_cell_header_size in *; lia). lia.
Qed.

Lemma split_n_completed : forall l n s m, In (s, m) (split_n P l n) -> m = nwrites P s -> (0 < nwrites P s)%nat ->
  completed P l n s.
Proof.
  induction l as [|a l IH]; intros n s m Hin Hm Hpos; [destruct Hin|].
  cbn [split_n In] in Hin. destruct Hin as [E | Hin].
  - injection E as Ea Em. subst a. exists [], l. split; [reflexivity|]. cbn [app]. unfold all_writes. cbn [map concat].
    rewrite app_nil_r. fold (nwrites P s). lia.
  - destruct (IH _ _ _ Hin Hm Hpos) as (l1 & l2 & -> & Hlen). exists (a :: l1), l2. split; [reflexivity|].
    assert (Hs : (nwrites P s <= length (all_writes P (l1 ++ [s])))%nat).
    { unfold all_writes. rewrite map_app, concat_app, app_length. cbn [map concat]. rewrite app_nil_r. unfold nwrites. lia. }
    change ((a :: l1) ++ [s]) with (a :: (l1 ++ [s])). unfold all_writes in *. cbn [map concat]. rewrite app_length.
    fold (nwrites P a). lia.
Qed.

Lemma completed_split : forall l n s, completed P l n s -> In (s, nwrites P s) (split_n P l n).
Proof.
  intros l n s (l1 & l2 & -> & Hlen). revert n Hlen. induction l1 as [|a l1 IH]; intros n Hlen.
  - cbn [app split_n]. left. f_equal. cbn [app] in Hlen. unfold all_writes in Hlen. cbn [map concat] in Hlen.
    rewrite app_nil_r in Hlen. fold (nwrites P s) in Hlen. lia.
  - cbn [app split_n]. right. apply IH. change ((a :: l1) ++ [s]) with (a :: (l1 ++ [s])) in Hlen.
    unfold all_writes in *. cbn [map concat] in Hlen. rewrite app_length in Hlen. fold (nwrites P a) in Hlen. lia.
Qed.

Section AtCrash.
Variable n : nat.

Let L := split_n P ss n.
Let cs := map (chain_of P) L.
Let d := crash_disk (all_writes P ss) n None.

Lemma L_in : forall sm, In sm L -> In (fst sm) ss.
Proof. intros sm H. rewrite <- (split_n_fst P ss n). apply in_map, H. Qed.

Lemma slots_of_writes : map w_slot (all_writes P ss) = concat (map s_slots ss).
Proof.
  unfold all_writes. rewrite concat_map, map_map. f_equal. apply map_ext_in. intros s Hs. apply (sess_writes s Hs).
Qed.

Lemma cs_slots : concat (map (fun c => map w_slot (ch_ws c)) cs) = concat (map s_slots ss).
Proof.
  unfold cs. rewrite map_map. f_equal.
  replace (map s_slots ss) with (map s_slots (map fst L)) by (unfold L; now rewrite split_n_fst).
  rewrite map_map. apply map_ext_in.
  intros sm Hsm. cbn [chain_of ch_ws]. apply (sess_writes (fst sm) (L_in sm Hsm)).
Qed.

Lemma cs_files : map (ch_f N) cs = map (fun s => fileno_of N (s_key s)) ss.
Proof.
  unfold cs. rewrite map_map.
  replace (map (fun s => fileno_of N (s_key s)) ss) with (map (fun s => fileno_of N (s_key s)) (map fst L))
    by (unfold L; now rewrite split_n_fst).
  rewrite map_map. reflexivity.
Qed.

Lemma cs_good : forall c, In c cs -> good_chain N P oi c.
Proof.
  intros c Hc. unfold cs in Hc. apply in_map_iff in Hc. destruct Hc as (sm & <- & Hsm).
  pose proof (L_in sm Hsm) as Hs. pose proof (wo_sess N P ss WO _ Hs) as SO.
  destruct (sess_writes _ Hs) as (F1 & F2 & F3 & F4 & F5 & F6).
  assert (Hc0 : ch_c0 (chain_of P sm) = hd 0 (s_slots (fst sm))).
  { unfold ch_c0, chain_of. cbn [ch_ws]. rewrite <- F1. destruct (writes_of P (fst sm)); reflexivity. }
  assert (Hrange : forall w, In w (writes_of P (fst sm)) -> 0 <= w_slot w < N).
  { intros w Hw. apply (so_range N P _ SO). rewrite <- F1. apply in_map, Hw. }
  constructor; cbn [chain_of ch_ws ch_key ch_T ch_m].
  - exact F6.
  - apply (split_n_le P ss n sm Hsm).
  - intros w Hw. destruct (F3 w Hw) as (A & B & C & D).
    assert (Hch : 0 < Z.of_nat (length (w_data w)) <= P).
    { apply (chunk_sizes (fst sm)); [exact Hs|]. rewrite <- F2. apply in_map, Hw. }
    pose proof (so_ver N P _ SO). pose proof (wo_N N P ss WO).
    rewrite Hc0.
    repeat split; try lia; try (apply Hrange, Hw); try apply (linked_next_range N _ (-1) F4); auto; try lia.
  - exact F4.
  - intros w r Hws. split; [apply (F5 w r Hws)|]. intros ->.
    destruct (F3 w) as (_ & _ & _ & D); [rewrite Hws; left; reflexivity|]. rewrite D.
    assert (Hd : w_data w = stream (s_obj (fst sm)) (s_len (fst sm))).
    { rewrite <- (chunks_stream _ Hs), <- F2, Hws. cbn [map concat]. now rewrite app_nil_r. }
    rewrite Hd, stream_length. pose proof (so_len N P _ SO). lia.
  - intros w r Hws. apply (sess_meta (fst sm) w r Hs Hws).
  - rewrite F1. apply (nodup_concat_in _ (map s_slots ss)); [apply (wo_slots N P ss WO)| apply in_map, Hs].
  - intros w Hw. apply (F3 w Hw).
Qed.

Lemma nodup_firstn : forall A k (l : list A), NoDup l -> NoDup (firstn k l).
Proof. intros A k l H. rewrite <- (firstn_skipn k l) in H. apply (nodup_app_l _ _ _ H). Qed.

Lemma W_eq : firstn n (all_writes P ss) = concat (map ch_written cs).
Proof. unfold cs. rewrite map_map. apply firstn_all_writes. Qed.

Lemma W_nodup : NoDup (map w_slot (firstn n (all_writes P ss))).
Proof. rewrite <- firstn_map. apply nodup_firstn. rewrite slots_of_writes. apply (wo_slots N P ss WO). Qed.

Lemma d_eq : d = disk_after (firstn n (all_writes P ss)).
Proof. reflexivity. Qed.

Lemma img_w : forall c w, In c cs -> In w (ch_written c) -> d (w_slot w) = cell_of w.
Proof.
  intros c w Hc Hw. rewrite d_eq. apply (disk_after_spec _ W_nodup). rewrite W_eq. apply in_concat.
  exists (ch_written c). split; [apply in_map, Hc| exact Hw].
Qed.

Lemma img_0 : forall x, (forall c w, In c cs -> In w (ch_written c) -> w_slot w <> x) -> d x = cell0.
Proof.
  intros x Hx. rewrite d_eq. apply (disk_after_spec _ W_nodup). intros Hin. apply in_map_iff in Hin.
  destruct Hin as (w & Hs & Hw). rewrite W_eq in Hw. apply in_concat in Hw. destruct Hw as (l & Hl & Hw).
  apply in_map_iff in Hl. destruct Hl as (c & <- & Hc). apply (Hx c w Hc Hw Hs).
Qed.

Lemma cs_slots_nodup : NoDup (concat (map (fun c => map w_slot (ch_ws c)) cs)).
Proof. rewrite cs_slots. apply (wo_slots N P ss WO). Qed.

Lemma cs_files_nodup : NoDup (map (ch_f N) cs).
Proof. rewrite cs_files. apply (wo_files N P ss WO). Qed.

Theorem crash_sound : forall k c, hit_after N P ss n None k = Some c ->
  exists s, completed P ss n s /\ s_key s = k /\ c = full_stream s.
Proof.
  intros k c Hh. unfold hit_after in Hh. fold d in Hh. fold oi in Hh.
  pose proof (wo_N N P ss WO) as HN.
  destruct (hit_only N P oi d HN cs cs_good cs_slots_nodup cs_files_nodup img_w img_0 k c Hh) as (c0 & Hc0 & Hco & Hk).
  pose proof (hit_complete N P oi d HN cs cs_good cs_slots_nodup cs_files_nodup img_w img_0 c0 Hc0 Hco) as Hs.
  unfold cs in Hc0. apply in_map_iff in Hc0. destruct Hc0 as ([s m] & <- & Hsm).
  pose proof (L_in _ Hsm) as Hin. cbn [fst] in Hin.
  cbn [chain_of ch_key fst] in Hk, Hs. rewrite Hk in Hs. rewrite Hs in Hh. rewrite (serve_full s m Hin) in Hh.
  injection Hh as <-. exists s. split; [|split; [exact Hk| reflexivity]].
  unfold ch_complete, chain_of in Hco. cbn [ch_m ch_ws fst snd] in Hco.
  apply (split_n_completed ss n s m Hsm Hco).
  destruct (sess_writes s Hin) as (_ & _ & _ & _ & _ & Hne). unfold nwrites.
  destruct (writes_of P s); [congruence| cbn [length]; lia].
Qed.

Theorem crash_complete : forall s, completed P ss n s ->
  hit_after N P ss n None (s_key s) = Some (full_stream s).
Proof.
  intros s Hc. pose proof (completed_in P ss n s Hc) as Hin. apply completed_split in Hc.
  unfold hit_after. fold d. fold oi. pose proof (wo_N N P ss WO) as HN.
  assert (Hc0 : In (chain_of P (s, nwrites P s)) cs) by (unfold cs; apply in_map, Hc).
  pose proof (hit_complete N P oi d HN cs cs_good cs_slots_nodup cs_files_nodup img_w img_0 _ Hc0) as Hs.
  cbn [chain_of ch_key fst] in Hs. rewrite Hs; [apply (serve_full s _ Hin)|].
  unfold ch_complete. reflexivity.
Qed.

End AtCrash.
End Bridge.

(* ------------------------------------------------------------------------------------------------------------
   Part 5. The theorems about workloads, and a decidable form of their hypothesis.
   ------------------------------------------------------------------------------------------------------------ *)
Theorem write_once_crash_consistent : forall N P ss, write_once N P ss ->
  forall n, crash_consistent N P ss n None.
Proof. intros N P ss WO n k c H. apply (crash_sound N P ss WO n k c H). Qed.

Theorem write_once_completed_served : forall N P ss, write_once N P ss ->
  forall n s, completed P ss n s -> hit_after N P ss n None (s_key s) = Some (full_stream s).
Proof. intros N P ss WO n s H. apply (crash_complete N P ss WO n s H). Qed.

Lemma all_writes_app : forall P a b, all_writes P (a ++ b) = all_writes P a ++ all_writes P b.
Proof. intros. unfold all_writes. now rewrite map_app, concat_app. Qed.

Theorem write_once_survives : forall N P ss, write_once N P ss -> forall s, In s ss -> survives N P ss s.
Proof.
  intros N P ss WO s Hin. unfold survives. apply (write_once_completed_served N P ss WO).
  apply in_split in Hin. destruct Hin as (l1 & l2 & ->). exists l1, l2. split; [reflexivity|].
  replace (l1 ++ s :: l2) with ((l1 ++ [s]) ++ l2) by (rewrite <- app_assoc; reflexivity).
  rewrite (all_writes_app P (l1 ++ [s]) l2), app_length. lia.
Qed.

(* a boolean form of [write_once] *)
Fixpoint nodupb (l : list Z) : bool :=
  match l with [] => true | x :: r => negb (existsb (Z.eqb x) r) && nodupb r end.

Lemma nodupb_sound : forall l, nodupb l = true -> NoDup l.
Proof.
  induction l as [|x l IH]; intros H; [constructor|]. cbn [nodupb] in H. apply andb_prop in H. destruct H as [H1 H2].
  constructor; [|apply IH, H2]. intros Hin. apply negb_true_iff in H1.
  assert (existsb (Z.eqb x) l = true); [|congruence]. apply existsb_exists. exists x. split; [exact Hin| apply Z.eqb_refl].
Qed.

Definition sess_ok_b (N P : Z) (s : session) : bool :=
  (0 <? s_obj s) && (0 <? s_ver s) && (0 <? s_len s) && (0 <? s_mlen s) && (s_mlen s <=? s_len s) &&
  (s_mlen s <=? Z.min P (dc_page_size - dc_cell_header_size)) && (s_ssz s =? 0) &&
  (length (s_slots s) =? length (chunks P (stream (s_obj s) (s_len s))))%nat &&
  forallb (fun c => (0 <=? c) && (c <? N)) (s_slots s).

Definition write_once_b (N P : Z) (ss : list session) : bool :=
  (0 <? N) && (0 <? P) && forallb (sess_ok_b N P) ss && nodupb (concat (map s_slots ss)) &&
  nodupb (map (fun s => fileno_of N (s_key s)) ss) && nodupb (map s_obj ss).

Lemma write_once_b_sound : forall N P ss, write_once_b N P ss = true -> write_once N P ss.
Proof.
  intros N P ss H. unfold write_once_b in H.
  apply andb_prop in H. destruct H as [H Hobjs]. apply andb_prop in H. destruct H as [H Hfiles].
  apply andb_prop in H. destruct H as [H Hslots]. apply andb_prop in H. destruct H as [H Hsess].
  apply andb_prop in H. destruct H as [HN HP].
  constructor; try (apply nodupb_sound; assumption); try lia.
  intros s Hs. rewrite forallb_forall in Hsess. specialize (Hsess s Hs). unfold sess_ok_b in Hsess.
  apply andb_prop in Hsess. destruct Hsess as [Hsess Hrange]. apply andb_prop in Hsess. destruct Hsess as [Hsess Hlen].
  apply andb_prop in Hsess. destruct Hsess as [Hsess Hssz]. apply andb_prop in Hsess. destruct Hsess as [Hsess Hms].
  apply andb_prop in Hsess. destruct Hsess as [Hsess Hml]. apply andb_prop in Hsess. destruct Hsess as [Hsess Hm0].
  apply andb_prop in Hsess. destruct Hsess as [Hsess Hl]. apply andb_prop in Hsess. destruct Hsess as [Ho Hv].
  constructor; try lia.
  intros c Hc. rewrite forallb_forall in Hrange. specialize (Hrange c Hc). lia.
Qed.

(* the hypotheses are satisfiable, and the theorems are not vacuous: three stores (3 slots, 1 slot, 2 slots),
   8 slots of 4 payload bytes; killed after 5 of the 6 writes, the first two objects are hits, the third is not *)
Definition ex_ops : list op := [OStore (1, 0) 1 5 10 2 0; OStore (2, 0) 2 6 3 2 0; OStore (3, 0) 3 7 5 1 0].

Lemma ex_write_once : write_once 8 4 (sessions_of 8 4 ex_ops).
Proof. apply write_once_b_sound. vm_compute. reflexivity. Qed.

Lemma ex_hits_after_crash :
  map (fun k => match hit_after 8 4 (sessions_of 8 4 ex_ops) 5 None k with Some c => Some (segments c []) | None => None end)
      [(1, 0); (2, 0); (3, 0)]
  = [Some [(1, 0, 10)]; Some [(2, 0, 3)]; None].
Proof. vm_compute. reflexivity. Qed.
