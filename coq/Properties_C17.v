(* Properties_C17.v — completed rock entries survive a clean restart. Statements only; proofs in DiskcrashProofs.v. *)
Require Import SquidV.Bytes SquidV.DiskcrashModel SquidV.DiskcrashProofs.
Local Open Scope Z_scope.

(* The full statement is FALSE for the faithful model: the last, completely stored version of a key is lost by a
   clean restart when it replaced a version that occupied more slots. *)
Theorem C17_rock_overwrite_by_smaller_survives_refuted :
  exists N P ops s, last (sessions_of N P ops) s = s /\ In s (sessions_of N P ops) /\
                    ~ survives N P (sessions_of N P ops) s.
Proof. exact survives_refuted. Qed.
Print Assumptions C17_rock_overwrite_by_smaller_survives_refuted.
