(* RangeModel.v — C28: Range request header parsing and canonicalisation.
   Transcribes, from /repo:
     src/HttpHdrRange.cc    ParseBytePos, HttpHdrRangeSpec::parseInit, HttpHdrRangeSpec::canonize,
                            HttpHdrRange::parseInit, getCanonizedSpecs, merge (MERGING_BREAKS_NOTHING is
                            not defined: mergeWith() always answers false), HttpHdrRange::canonize(int64_t)
     src/base/Range.h       Range<int64_t, uint64_t>::intersection / size
     src/HttpHeaderTools.cc httpHeaderParseOffset            (TokModel.parse_offset)
     src/StrList.cc         strListGetItem                   (HopModel.list_items)
     src/String.cc          String::caseCmp(const char *, size_type)
   64-bit signed arithmetic is explicit: every +/- yields the wrapped value and a flag that is raised when
   the mathematical result does not fit int64_t (what UBSan reports); uint64_t -> int64_t conversions raise the
   same flag when the value changes.  Failed assert()s of canonize raise it too.
   Executable definitions only. *)
Require Import SquidV.Bytes SquidV.TokModel SquidV.HopModel.
Local Open Scope Z_scope.

Definition int64_max : Z := two63 - 1.
Definition wrap64 (x : Z) : Z := (x + two63) mod two64 - two63.
Definition fits64 (x : Z) : bool := (- two63 <=? x) && (x <=? int64_max).

(* a machine value together with "undefined behaviour happened on the way" *)
Definition add64 (a b : Z) : Z * bool := (wrap64 (a + b), negb (fits64 (a + b))).
Definition sub64 (a b : Z) : Z * bool := (wrap64 (a - b), negb (fits64 (a - b))).
(* (uint64_t) of an int64_t, and int64_t = uint64_t assignment *)
Definition to_u64 (x : Z) : Z := x mod two64.
Definition u64_to_i64 (u : Z) : Z * bool := (wrap64 u, negb (u <=? int64_max)).

Definition unknown_pos : Z := -1.                       (* HttpHdrRangeSpec::UnknownPosition *)
Definition known_spec (s : Z) : bool := s >? unknown_pos.

(* ---- Range<int64_t, uint64_t> ---- *)
Definition rng_intersection (a b : Z * Z) : Z * Z := (Z.max (fst a) (fst b), Z.min (snd a) (snd b)).
(* size(): (uint64_t)(end > start ? end - start : 0) *)
Definition rng_size (r : Z * Z) : Z * bool :=
  if snd r >? fst r then let '(d, o) := sub64 (snd r) (fst r) in (to_u64 d, o) else (0, false).
(* int64_t length = range.size() *)
Definition rng_size_i64 (r : Z * Z) : Z * bool :=
  let '(u, o1) := rng_size r in let '(v, o2) := u64_to_i64 u in (v, o1 || o2).

(* ---- ParseBytePos(start, end, value): [start,end) = s; `tail` = what follows `end` in the C string ---- *)
Definition parse_byte_pos (s tail : bytes) : option Z :=
  match s with
  | [] => None                                           (* start >= end *)
  | _ =>
    if forallb is_digit s then
      match parse_offset (s ++ tail) with                (* strtoll() reads on from `start` *)
      | Some (v, n) => if (n =? lenN s)%N then Some v else None   (* parsedEnd == end *)
      | None => None
      end
    else None
  end.

(* ---- HttpHdrRangeSpec::parseInit(field, flen): Some (offset, length) and the UB flag.
   The characters following the item in the header value are a delimiter, white space or NUL (see
   strListGetItem), never a digit, so the model hands strtoll() an empty tail there. ---- *)
Definition spec_parse (field : bytes) : option (Z * Z) * bool :=
  if (lenN field <? 2)%N then (None, false)
  else match field with
  | [] => (None, false)
  | c0 :: r =>
    if (c0 =? 45)%N then                                  (* *field == '-': suffix-byte-range-spec *)
      match parse_byte_pos r [] with
      | Some len => if known_spec len then (Some (unknown_pos, len), false) else (None, false)
      | None => (None, false)
      end
    else
      let '(a, b) := span (fun c => negb (c =? 45)%N) field in    (* strchr(field, '-') && p - field < flen *)
      match b with
      | [] => (None, false)
      | _ :: rest =>
          match parse_byte_pos a b with
          | None => (None, false)
          | Some offset =>
              if negb (known_spec offset) then (None, false)
              else match rest with
              | [] => (Some (offset, unknown_pos), false)           (* no last-pos *)
              | _ =>
                  match parse_byte_pos rest [] with
                  | None => (None, false)
                  | Some last_pos =>
                      if negb (known_spec last_pos) then (None, false)
                      else if last_pos <? offset then (None, false)
                      else if last_pos <? int64_max then
                        let '(e, o1) := add64 last_pos 1 in
                        let '(len, o2) := rng_size_i64 (offset, e) in
                        (Some (offset, len), o1 || o2)
                      else (Some (offset, unknown_pos), false)
                  end
              end
          end
      end
  end.

(* ---- HttpHdrRange::parseInit: the strListGetItem loop; an invalid spec empties the list and stops ---- *)
Fixpoint parse_items (items : list bytes) (acc : list (Z * Z)) (ub : bool) : list (Z * Z) * bool :=
  match items with
  | [] => (rev acc, ub)
  | it :: r =>
      let '(sp, o) := spec_parse it in
      match sp with
      | None => ([], ub || o)
      | Some s => parse_items r (s :: acc) (ub || o)
      end
  end.

Definition bytes_eq : bytes := [98; 121; 116; 101; 115; 61]%N.      (* "bytes=" *)

(* ParseCreate: None = nullptr (the header is ignored) *)
Definition range_parse (value : bytes) : option (list (Z * Z)) * bool :=
  let s := c_str value in                                 (* termedBuf() as the C library sees it *)
  match s with
  | [] => (None, false)                                   (* nilCmp: empty String *)
  | _ =>
    if negb (ci_eqb (takeN 6 s) bytes_eq) then (None, false)        (* strncasecmp(.., "bytes=", 6) *)
    else
      let '(specs, ub) := parse_items (list_items 44 (dropN 6 s)) [] false in
      match specs with
      | [] => (None, ub)
      | _ => (Some specs, ub)
      end
  end.

(* ---- HttpHdrRangeSpec::canonize(clen): the canonical spec, its verdict (length > 0), UB flag ---- *)
Definition spec_canonize (clen : Z) (sp : Z * Z) : (Z * Z) * bool * bool :=
  let object := (0, clen) in
  let '(offset, length) := sp in
  let '(offset1, length1, ub1) :=
    if negb (known_spec offset) then                      (* suffix *)
      let '(s, o) := sub64 clen length in
      (fst (rng_intersection object (s, clen)), length, o || negb (known_spec length))
    else if negb (known_spec length) then                 (* trailer *)
      let '(l, o) := rng_size_i64 (rng_intersection object (offset, clen)) in
      (offset, l, o)
    else (offset, length, false) in
  let ubA := negb (known_spec length1) || negb (known_spec offset1) in     (* the two assert()s *)
  let '(e, o2) := add64 offset1 length1 in
  let '(length2, o3) := rng_size_i64 (rng_intersection object (offset1, e)) in
  ((offset1, length2), length2 >? 0, ub1 || ubA || o2 || o3).

(* getCanonizedSpecs + merge: the good specs in order (mergeWith() is constant false in this build) *)
Fixpoint canon_specs (clen : Z) (specs : list (Z * Z)) : list (Z * Z) * bool :=
  match specs with
  | [] => ([], false)
  | sp :: r =>
      let '(c, good, o) := spec_canonize clen sp in
      let '(cs, o') := canon_specs clen r in
      (if good then c :: cs else cs, o || o')
  end.

(* HttpHdrRange::canonize(int64_t): (return value, resulting specs, UB flag) *)
Definition range_canonize (clen : Z) (specs : list (Z * Z)) : bool * list (Z * Z) * bool :=
  let '(cs, o) := canon_specs clen specs in
  (match cs with [] => false | _ => true end, cs, o).

(* whole pipeline, as the harness drives it *)
Definition range_run (value : bytes) (clen : Z)
  : option (list (Z * Z) * (bool * list (Z * Z))) * bool :=
  let '(p, o1) := range_parse value in
  match p with
  | None => (None, o1)
  | Some specs =>
      let '(ret, cs, o2) := range_canonize clen specs in
      (Some (specs, (ret, cs)), o1 || o2)
  end.
