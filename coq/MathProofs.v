(* MathProofs.v — proofs about MathModel.v (src/SquidMath.h).

   Structure: (1) the type model equals the tables generated from the compiler;
   (2) finite facts about the 10 types / 100 type pairs, each a boolean checked by
   vm_compute over the complete enumeration and lifted to forall; (3) generic range
   lemmas for conversions, comparisons and +/- that use only those facts (no case
   split on types, so the number of integer types is not baked into the arguments);
   (4) Less; (5) the two IncreaseSumInternal overloads; (6) IncreaseSum, NaturalSum
   for argument lists of any length, SetToNaturalSumOrMax, NaturalCast. *)
Require Import SquidV.Bytes SquidV.MathModel SquidV.gen.IntTypes_gen.
Require Import ZifyBool Lia.
Local Open Scope Z_scope.

(* ------------------------------------------------------------------ *)
(* the specification side: unbounded integers, nothing about types except the result maximum *)

Definition all_nonneg (args : list (ity * Z)) : bool := forallb (fun p => 0 <=? snd p) args.
Definition zsum (args : list (ity * Z)) : Z := fold_right (fun p acc => snd p + acc) 0 args.
(* the exact sum if all arguments are non-negative and it fits the result type, else nothing *)
Definition exact_sum (S : ity) (args : list (ity * Z)) : option Z :=
  if all_nonneg args && (zsum args <=? tmax S) then Some (zsum args) else None.
(* every argument value lies in the range of the type it is passed as *)
Definition args_in_range (args : list (ity * Z)) : Prop :=
  Forall (fun p => in_range (fst p) (snd p)) args.

(* ------------------------------------------------------------------ *)
(* 1. The hand-written type model agrees with what the compiler / SquidMath.h say today. *)
Lemma type_model_matches_compiler :
  model_types = gen_types /\ model_promote = gen_promote /\ model_common = gen_common /\
  model_sum_type = gen_sum_type /\ model_all_unsigned = gen_all_unsigned.
Proof. vm_compute. repeat split; reflexivity. Qed.

(* ------------------------------------------------------------------ *)
(* 2. finite facts *)
Lemma all_ity_complete : forall t, In t all_ity.
Proof. destruct t; cbn; tauto. Qed.

Lemma forall_ity (P : ity -> bool) : forallb P all_ity = true -> forall t, P t = true.
Proof. intros H t. rewrite forallb_forall in H. apply H, all_ity_complete. Qed.

Lemma forall_ity2 (P : ity -> ity -> bool) :
  forallb (fun a => forallb (P a) all_ity) all_ity = true -> forall a b, P a b = true.
Proof. intros H a b. apply (forall_ity (P a)). apply (forall_ity (fun a => forallb (P a) all_ity) H a). Qed.

Lemma ity_eqb_eq a b : ity_eqb a b = true -> a = b.
Proof. destruct a, b; try reflexivity; intros H; discriminate H. Qed.

Lemma half_pos t : 0 < half t.
Proof. destruct t; vm_compute; reflexivity. Qed.

(* range of a is contained in range of t *)
Definition range_sub (a t : ity) : bool := (tmin t <=? tmin a) && (tmax a <=? tmax t).

Definition uac_fact (ta tb : ity) : bool :=
  let t := uac ta tb in
  (if is_signed t then range_sub ta t && range_sub tb t
   else (tmax ta <=? tmax t) && (tmax tb <=? tmax t))
  && ity_eqb (uac t t) t
  && (negb (is_signed ta && is_signed tb) || is_signed t)
  && (negb (ity_eqb (promote ta) ta && ity_eqb (promote tb) tb)
      || is_signed ta || is_signed tb || negb (is_signed t)).
Lemma uac_fact_all : forall ta tb, uac_fact ta tb = true.
Proof. apply forall_ity2. vm_compute. reflexivity. Qed.

Definition common_fact (ta tb : ity) : bool :=
  (* common_type is the operand type itself or the usual-arithmetic-conversion type *)
  (ity_eqb ta tb && ity_eqb (common_type ta tb) ta) || ity_eqb (common_type ta tb) (uac ta tb).
Lemma common_fact_all : forall ta tb, common_fact ta tb = true.
Proof. apply forall_ity2. vm_compute. reflexivity. Qed.

Definition promoted_common_fact (ta tb : ity) : bool :=
  negb (ity_eqb (promote ta) ta && ity_eqb (promote tb) tb) || ity_eqb (common_type ta tb) (uac ta tb).
Lemma promoted_common_fact_all : forall ta tb, promoted_common_fact ta tb = true.
Proof. apply forall_ity2. vm_compute. reflexivity. Qed.

Definition promote_fact (t : ity) : bool :=
  range_sub t (promote t) && ity_eqb (promote (promote t)) (promote t).
Lemma promote_fact_all : forall t, promote_fact t = true.
Proof. apply forall_ity. vm_compute. reflexivity. Qed.

(* comparing with the int literal 0 happens in a signed type unless the operand is unsigned *)
Definition zero_fact (t : ity) : bool := is_signed (uac t Int) || negb (is_signed t).
Lemma zero_fact_all : forall t, zero_fact t = true.
Proof. apply forall_ity. vm_compute. reflexivity. Qed.

(* ------------------------------------------------------------------ *)
(* 3. generic range lemmas *)

Lemma tmin_le0 t : tmin t <= 0.
Proof. unfold tmin. pose proof (half_pos t). destruct (is_signed t); lia. Qed.

Lemma tmax_pos t : 0 < tmax t.
Proof.
  unfold tmax, modulus. pose proof (half_pos t) as Hh.
  destruct (is_signed t); [|lia].
  destruct t; vm_compute; reflexivity.
Qed.

Lemma tmax_in_range t : in_range t (tmax t).
Proof. unfold in_range. pose proof (tmin_le0 t). pose proof (tmax_pos t). lia. Qed.

Lemma unsigned_tmin t : is_signed t = false -> tmin t = 0.
Proof. unfold tmin. intros ->. reflexivity. Qed.

Lemma unsigned_tmax t : is_signed t = false -> tmax t = modulus t - 1.
Proof. unfold tmax. intros ->. reflexivity. Qed.

Lemma neg_signed t v : in_range t v -> v < 0 -> is_signed t = true.
Proof.
  unfold in_range, tmin. intros Hr Hv. destruct (is_signed t); [reflexivity|lia].
Qed.

Lemma nonneg_in_range t v : 0 <= v -> v <= tmax t -> in_range t v.
Proof. unfold in_range. pose proof (tmin_le0 t). lia. Qed.

Lemma conv_id t v : in_range t v -> conv t v = v.
Proof.
  unfold in_range, conv, tmin, tmax, modulus. pose proof (half_pos t) as Hh.
  set (h := half t) in *. destruct (is_signed t); intros Hr.
  - rewrite Z.mod_small by lia. lia.
  - rewrite Z.mod_small by lia. reflexivity.
Qed.

Lemma in_rangeb_true t v : in_range t v -> in_rangeb t v = true.
Proof. unfold in_range, in_rangeb. lia. Qed.

Lemma range_sub_in a t v : range_sub a t = true -> in_range a v -> in_range t v.
Proof. unfold range_sub, in_range. lia. Qed.

Section UacFacts.
  Variables ta tb : ity.
  Let t := uac ta tb.

  Lemma uac_parts :
    (if is_signed t then range_sub ta t && range_sub tb t
     else (tmax ta <=? tmax t) && (tmax tb <=? tmax t)) = true /\
    uac t t = t /\
    (is_signed ta = true -> is_signed tb = true -> is_signed t = true) /\
    (promote ta = ta -> promote tb = tb ->
     is_signed ta = false -> is_signed tb = false -> is_signed t = false).
  Proof.
    pose proof (uac_fact_all ta tb) as H. unfold uac_fact in H. fold t in H.
    apply andb_prop in H. destruct H as [H H4].
    apply andb_prop in H. destruct H as [H H3].
    apply andb_prop in H. destruct H as [H1 H2].
    split; [exact H1|]. split; [apply ity_eqb_eq; exact H2|]. split.
    - intros Ha Hb. rewrite Ha, Hb in H3. cbn in H3. exact H3.
    - intros Hpa Hpb Ha Hb. rewrite Hpa, Hpb, Ha, Hb in H4.
      assert (Hr : forall x, ity_eqb x x = true) by (destruct x; reflexivity).
      rewrite !Hr in H4. cbn in H4. destruct (is_signed t); [discriminate H4|reflexivity].
  Qed.

  (* a value keeps its value when converted to the type of the operation if it is
     non-negative or the operation's type is signed *)
  Lemma uac_in_range_l a : in_range ta a -> 0 <= a \/ is_signed t = true -> in_range t a.
  Proof.
    intros Hr Hc. destruct uac_parts as [H1 _]. destruct (is_signed t) eqn:Hs.
    - apply andb_prop in H1. destruct H1 as [H1 _]. exact (range_sub_in _ _ _ H1 Hr).
    - destruct Hc as [Hc|Hc]; [|discriminate Hc].
      apply andb_prop in H1. destruct H1 as [H1 _]. unfold in_range in Hr.
      apply nonneg_in_range; lia.
  Qed.

  Lemma uac_in_range_r b : in_range tb b -> 0 <= b \/ is_signed t = true -> in_range t b.
  Proof.
    intros Hr Hc. destruct uac_parts as [H1 _]. destruct (is_signed t) eqn:Hs.
    - apply andb_prop in H1. destruct H1 as [_ H1]. exact (range_sub_in _ _ _ H1 Hr).
    - destruct Hc as [Hc|Hc]; [|discriminate Hc].
      apply andb_prop in H1. destruct H1 as [_ H1]. unfold in_range in Hr.
      apply nonneg_in_range; lia.
  Qed.

  Lemma uac_tmax_l : tmax ta <= tmax t.
  Proof.
    destruct uac_parts as [H1 _]. destruct (is_signed t).
    - unfold range_sub in H1. lia.
    - lia.
  Qed.

  Lemma uac_tmax_r : tmax tb <= tmax t.
  Proof.
    destruct uac_parts as [H1 _]. destruct (is_signed t).
    - unfold range_sub in H1. lia.
    - lia.
  Qed.

  (* the condition under which comparisons and conversions in type t are value preserving *)
  Definition safe_pair (a b : Z) : Prop := (0 <= a /\ 0 <= b) \/ is_signed t = true.

  Lemma lt_spec a b : in_range ta a -> in_range tb b -> safe_pair a b -> lt ta a tb b = (a <? b).
  Proof.
    intros Ha Hb Hs. unfold lt. fold t.
    rewrite (conv_id t a), (conv_id t b); [reflexivity| |].
    - apply uac_in_range_r; [exact Hb|]. destruct Hs as [[_ H]|H]; [left|right]; assumption.
    - apply uac_in_range_l; [exact Ha|]. destruct Hs as [[H _]|H]; [left|right]; assumption.
  Qed.

  Lemma le_spec a b : in_range ta a -> in_range tb b -> safe_pair a b -> le ta a tb b = (a <=? b).
  Proof.
    intros Ha Hb Hs. unfold le. fold t.
    rewrite (conv_id t a), (conv_id t b); [reflexivity| |].
    - apply uac_in_range_r; [exact Hb|]. destruct Hs as [[_ H]|H]; [left|right]; assumption.
    - apply uac_in_range_l; [exact Ha|]. destruct Hs as [[H _]|H]; [left|right]; assumption.
  Qed.

  Lemma ge_spec a b : in_range ta a -> in_range tb b -> safe_pair a b -> ge ta a tb b = (b <=? a).
  Proof.
    intros Ha Hb Hs. unfold ge. fold t.
    rewrite (conv_id t a), (conv_id t b); [reflexivity| |].
    - apply uac_in_range_r; [exact Hb|]. destruct Hs as [[_ H]|H]; [left|right]; assumption.
    - apply uac_in_range_l; [exact Ha|]. destruct Hs as [[H _]|H]; [left|right]; assumption.
  Qed.

  (* a + b of non-negative operands whose sum fits the operation type: exact, no UB *)
  Lemma add_exact a b :
    in_range ta a -> in_range tb b -> 0 <= a -> 0 <= b -> a + b <= tmax t ->
    add ta a tb b = Ok (t, a + b).
  Proof.
    intros Ha Hb Ha0 Hb0 Hfit. unfold add. fold t.
    rewrite (conv_id t a) by (apply uac_in_range_l; [exact Ha|left; exact Ha0]).
    rewrite (conv_id t b) by (apply uac_in_range_r; [exact Hb|left; exact Hb0]).
    unfold arith_result.
    assert (Hr : in_range t (a + b)) by (apply nonneg_in_range; lia).
    destruct (is_signed t).
    - rewrite (in_rangeb_true _ _ Hr). reflexivity.
    - rewrite (conv_id _ _ Hr). reflexivity.
  Qed.

  (* a + b of non-negative operands in an unsigned operation type: modulo 2^n, never UB *)
  Lemma add_unsigned a b :
    is_signed t = false -> in_range ta a -> in_range tb b -> 0 <= a -> 0 <= b ->
    add ta a tb b = Ok (t, (a + b) mod modulus t).
  Proof.
    intros Hu Ha Hb Ha0 Hb0. unfold add. fold t.
    rewrite (conv_id t a) by (apply uac_in_range_l; [exact Ha|left; exact Ha0]).
    rewrite (conv_id t b) by (apply uac_in_range_r; [exact Hb|left; exact Hb0]).
    unfold arith_result, conv. rewrite Hu. reflexivity.
  Qed.

  (* a - b with 0 <= b <= a: exact, no UB *)
  Lemma sub_exact a b :
    in_range ta a -> in_range tb b -> 0 <= b -> b <= a ->
    sub ta a tb b = Ok (t, a - b).
  Proof.
    intros Ha Hb Hb0 Hba. unfold sub. fold t.
    assert (Ha' : in_range t a) by (apply uac_in_range_l; [exact Ha|left; lia]).
    rewrite (conv_id t a) by exact Ha'.
    rewrite (conv_id t b) by (apply uac_in_range_r; [exact Hb|left; exact Hb0]).
    unfold arith_result.
    assert (Hr : in_range t (a - b)) by (unfold in_range in Ha'; apply nonneg_in_range; lia).
    destruct (is_signed t).
    - rewrite (in_rangeb_true _ _ Hr). reflexivity.
    - rewrite (conv_id _ _ Hr). reflexivity.
  Qed.
End UacFacts.

Lemma int_zero_in_range : in_range Int 0.
Proof. unfold in_range. pose proof (tmin_le0 Int). pose proof (tmax_pos Int). lia. Qed.

Lemma zero_safe ta a : in_range ta a -> safe_pair ta Int a 0.
Proof.
  intros Ha. unfold safe_pair.
  pose proof (zero_fact_all ta) as H. unfold zero_fact in H.
  destruct (is_signed (uac ta Int)); [right; reflexivity|].
  cbn in H. destruct (is_signed ta) eqn:Hs; [discriminate H|].
  left. unfold in_range in Ha. rewrite (unsigned_tmin _ Hs) in Ha. lia.
Qed.

(* `a >= 0` and `a < 0` (int literal) mean what they say for every operand type *)
Lemma ge0_spec ta a : in_range ta a -> ge ta a Int 0 = (0 <=? a).
Proof. intros Ha. apply ge_spec; [exact Ha|exact int_zero_in_range|apply zero_safe; exact Ha]. Qed.

Lemma lt0_spec ta a : in_range ta a -> lt ta a Int 0 = (a <? 0).
Proof. intros Ha. apply lt_spec; [exact Ha|exact int_zero_in_range|apply zero_safe; exact Ha]. Qed.

(* ------------------------------------------------------------------ *)
(* 4. Less *)

(* in the last branch of Less both operands have the same sign; then static_cast<AB> keeps
   their values and the comparison in AB is the mathematical one *)
Lemma less_same_sign ta a tb b :
  in_range ta a -> in_range tb b -> (0 <= a /\ 0 <= b) \/ (a < 0 /\ b < 0) ->
  let AB := common_type ta tb in
  lt AB (conv AB a) AB (conv AB b) = (a <? b).
Proof.
  intros Ha Hb Hsign AB.
  assert (Hboth : is_signed ta = true /\ is_signed tb = true \/ (0 <= a /\ 0 <= b)).
  { destruct Hsign as [H|[H1 H2]]; [right; exact H|left].
    split; [exact (neg_signed _ _ Ha H1)|exact (neg_signed _ _ Hb H2)]. }
  (* AB holds both values, and comparing in AB is safe *)
  assert (HAB : in_range AB a /\ in_range AB b /\ safe_pair AB AB a b).
  { pose proof (common_fact_all ta tb) as Hc. unfold common_fact in Hc. fold AB in Hc.
    apply orb_prop in Hc. destruct Hc as [Hc|Hc].
    - apply andb_prop in Hc. destruct Hc as [He Hc].
      apply ity_eqb_eq in He. apply ity_eqb_eq in Hc. subst tb. rewrite Hc.
      split; [exact Ha|]. split; [exact Hb|].
      unfold safe_pair. destruct Hboth as [[Hs _]|Hnn]; [right|left; exact Hnn].
      destruct (uac_parts ta ta) as (_ & _ & H3 & _). apply H3; exact Hs.
    - apply ity_eqb_eq in Hc. rewrite Hc.
      destruct (uac_parts ta tb) as (_ & Hidem & H3 & _).
      assert (Hcond : (0 <= a /\ 0 <= b) \/ is_signed (uac ta tb) = true).
      { destruct Hboth as [[Hs1 Hs2]|Hnn]; [right; apply H3; assumption|left; exact Hnn]. }
      split; [|split].
      + apply uac_in_range_l; [exact Ha|]. destruct Hcond as [[H _]|H]; [left|right]; assumption.
      + apply uac_in_range_r; [exact Hb|]. destruct Hcond as [[_ H]|H]; [left|right]; assumption.
      + unfold safe_pair. rewrite Hidem. exact Hcond. }
  destruct HAB as (HaAB & HbAB & Hsafe).
  rewrite (conv_id AB a HaAB), (conv_id AB b HbAB).
  apply lt_spec; assumption.
Qed.

Theorem less_spec ta a tb b :
  in_range ta a -> in_range tb b -> Less ta a tb b = (a <? b).
Proof.
  intros Ha Hb. unfold Less.
  rewrite (ge0_spec ta a Ha), (lt0_spec tb b Hb), (lt0_spec ta a Ha), (ge0_spec tb b Hb).
  destruct (0 <=? a) eqn:Ea; destruct (b <? 0) eqn:Eb; cbn [andb].
  - lia.
  - replace (a <? 0) with false by lia. cbn [andb].
    apply less_same_sign; [exact Ha|exact Hb|left; lia].
  - replace (a <? 0) with true by lia. replace (0 <=? b) with false by lia. cbn [andb].
    apply less_same_sign; [exact Ha|exact Hb|right; lia].
  - replace (a <? 0) with true by lia. replace (0 <=? b) with true by lia. cbn [andb]. lia.
Qed.

(* ------------------------------------------------------------------ *)
(* 5. IncreaseSumInternal *)

(* overload for !AllUnsigned: precondition established by IncreaseSum(): a is a promotion of
   an S value (a <= max S <= max A) *)
Theorem isi_signed_spec S A a B b :
  in_range A a -> in_range B b -> a <= tmax S -> tmax S <= tmax A ->
  isi_signed S A a B b =
  Ok (if (0 <=? a) && (0 <=? b) && (a + b <=? tmax S) then Some (a + b) else None).
Proof.
  intros Ha Hb HaS HSA. unfold isi_signed.
  rewrite (lt0_spec A a Ha), (lt0_spec B b Hb).
  destruct (a <? 0) eqn:Ea; cbn [orb].
  { replace (0 <=? a) with false by lia. reflexivity. }
  destruct (b <? 0) eqn:Eb; cbn [orb].
  { replace (0 <=? b) with false by lia. rewrite andb_false_r. reflexivity. }
  replace (0 <=? a) with true by lia. replace (0 <=? b) with true by lia. cbn [andb].
  rewrite (sub_exact S A (tmax S) a (tmax_in_range S) Ha) by lia.
  assert (Hd : in_range (uac S A) (tmax S - a)).
  { apply uac_in_range_l; [apply nonneg_in_range; lia|left; lia]. }
  rewrite (less_spec _ _ _ _ Hd Hb).
  destruct (tmax S - a <? b) eqn:Eo.
  { replace (a + b <=? tmax S) with false by lia. reflexivity. }
  replace (a + b <=? tmax S) with true by lia.
  pose proof (uac_tmax_l A B) as HAB.
  rewrite (add_exact A B a b Ha Hb) by lia.
  rewrite conv_id by (apply nonneg_in_range; lia).
  reflexivity.
Qed.

Lemma mod_wrap_once x M : 0 < M -> M <= x < 2 * M -> x mod M = x - M.
Proof.
  intros HM Hx. replace x with ((x - M) + 1 * M) at 1 by lia.
  rewrite Z_mod_plus_full. apply Z.mod_small. lia.
Qed.

(* overload for AllUnsigned<A,B>: A, B unsigned and already promoted; max S <= max A *)
Theorem isi_unsigned_spec S A a B b :
  is_signed A = false -> is_signed B = false -> promote A = A -> promote B = B ->
  in_range A a -> in_range B b -> tmax S <= tmax A ->
  isi_unsigned S A a B b = Ok (if a + b <=? tmax S then Some (a + b) else None).
Proof.
  intros HuA HuB HpA HpB Ha Hb HSA. unfold isi_unsigned.
  assert (HAB : common_type A B = uac A B).
  { pose proof (promoted_common_fact_all A B) as H. unfold promoted_common_fact in H.
    rewrite HpA, HpB in H.
    assert (Hr : forall x, ity_eqb x x = true) by (destruct x; reflexivity).
    rewrite !Hr in H. cbn in H. apply ity_eqb_eq. exact H. }
  rewrite HAB. set (AB := uac A B).
  destruct (uac_parts A B) as (_ & _ & _ & Hu). specialize (Hu HpA HpB HuA HuB). fold AB in Hu.
  assert (Ha0 : 0 <= a) by (unfold in_range in Ha; rewrite (unsigned_tmin _ HuA) in Ha; lia).
  assert (Hb0 : 0 <= b) by (unfold in_range in Hb; rewrite (unsigned_tmin _ HuB) in Hb; lia).
  rewrite (add_unsigned A B a b Hu Ha Hb Ha0 Hb0). fold AB.
  pose proof (uac_tmax_l A B) as HmA. pose proof (uac_tmax_r A B) as HmB. fold AB in HmA, HmB.
  rewrite (unsigned_tmax _ Hu) in HmA, HmB.
  pose proof (half_pos AB) as Hh.
  set (M := modulus AB) in *.
  assert (HM : 0 < M) by (unfold M, modulus; lia).
  unfold in_range in Ha, Hb.
  set (sum := (a + b) mod M).
  assert (Hsum : 0 <= sum < M) by (apply Z.mod_pos_bound; exact HM).
  assert (HsumR : in_range AB sum).
  { apply nonneg_in_range; [lia|]. rewrite (unsigned_tmax _ Hu). fold M. lia. }
  rewrite (conv_id AB sum HsumR).
  rewrite (ge_spec AB A sum a HsumR) by (try (left; lia); unfold in_range; lia).
  rewrite (le_spec AB S sum (tmax S) HsumR (tmax_in_range S))
    by (left; pose proof (tmax_pos S); lia).
  destruct (Z_lt_ge_dec (a + b) M) as [Hsmall|Hbig].
  - assert (Es : sum = a + b) by (apply Z.mod_small; lia).
    rewrite Es. replace (a <=? a + b) with true by lia. cbn [andb].
    destruct (a + b <=? tmax S) eqn:Ef; [|reflexivity].
    rewrite conv_id by (apply nonneg_in_range; lia). reflexivity.
  - assert (Es : sum = a + b - M) by (apply mod_wrap_once; lia).
    replace (a <=? sum) with false by lia. cbn [andb].
    replace (a + b <=? tmax S) with false by lia. reflexivity.
Qed.

(* ------------------------------------------------------------------ *)
(* 6. IncreaseSum, NaturalSum, SetToNaturalSumOrMax, NaturalCast *)

Lemma promote_parts t : range_sub t (promote t) = true /\ promote (promote t) = promote t.
Proof.
  pose proof (promote_fact_all t) as H. unfold promote_fact in H.
  apply andb_prop in H. destruct H as [H1 H2]. split; [exact H1|apply ity_eqb_eq; exact H2].
Qed.

Theorem increase_sum2_spec S s T t :
  in_range S s -> in_range T t ->
  increase_sum2 S s T t =
  Ok (if (0 <=? s) && (0 <=? t) && (s + t <=? tmax S) then Some (s + t) else None).
Proof.
  intros Hs Ht. unfold increase_sum2.
  destruct (promote_parts S) as [HrS HpS]. destruct (promote_parts T) as [HrT HpT].
  pose proof (range_sub_in _ _ _ HrS Hs) as HsA. pose proof (range_sub_in _ _ _ HrT Ht) as HtB.
  rewrite (conv_id _ _ HsA), (conv_id _ _ HtB).
  assert (HSA : tmax S <= tmax (promote S)) by (unfold range_sub in HrS; lia).
  destruct (all_unsigned (promote S) (promote T)) eqn:Eu.
  - unfold all_unsigned in Eu. apply andb_prop in Eu. destruct Eu as [EuA EuB].
    apply negb_true_iff in EuA. apply negb_true_iff in EuB.
    rewrite (isi_unsigned_spec S _ s _ t EuA EuB HpS HpT HsA HtB HSA).
    unfold in_range in HsA, HtB. rewrite (unsigned_tmin _ EuA) in HsA. rewrite (unsigned_tmin _ EuB) in HtB.
    replace (0 <=? s) with true by lia. replace (0 <=? t) with true by lia. reflexivity.
  - apply isi_signed_spec; [exact HsA|exact HtB|unfold in_range in Hs; lia|exact HSA].
Qed.

Lemma zsum_nonneg args : all_nonneg args = true -> 0 <= zsum args.
Proof.
  induction args as [|[T t] rest IH]; intros H; [cbn; lia|].
  change (all_nonneg ((T, t) :: rest)) with ((0 <=? t) && all_nonneg rest) in H.
  change (zsum ((T, t) :: rest)) with (t + zsum rest).
  apply andb_prop in H. destruct H as [H1 H2]. specialize (IH H2). lia.
Qed.

Theorem increase_sum_spec S : forall args s,
  in_range S s -> args_in_range args ->
  increase_sum S s args =
  Ok (if (0 <=? s) && all_nonneg args && (s + zsum args <=? tmax S)
      then Some (s + zsum args) else None)
  \/ (args = [] /\ increase_sum S s args = Ok (Some s)).
Proof.
  induction args as [|[T t] rest IH]; intros s Hs Hargs.
  - right. split; reflexivity.
  - left. inversion Hargs as [|p l Ht Hrest]; subst. cbn [fst snd] in Ht.
    cbn [increase_sum]. rewrite (increase_sum2_spec S s T t Hs Ht).
    cbn [all_nonneg forallb zsum fold_right snd].
    fold (all_nonneg rest). fold (zsum rest).
    destruct ((0 <=? s) && (0 <=? t) && (s + t <=? tmax S)) eqn:Ehead.
    + apply andb_prop in Ehead. destruct Ehead as [Ehead E3].
      apply andb_prop in Ehead. destruct Ehead as [E1 E2].
      assert (Hs' : in_range S (s + t)) by (apply nonneg_in_range; lia).
      destruct (IH (s + t) Hs' Hrest) as [IH'|[Hnil IH']].
      * rewrite IH'. rewrite E1, E2. replace (0 <=? s + t) with true by lia. cbn [andb].
        replace (s + (t + zsum rest)) with (s + t + zsum rest) by lia. reflexivity.
      * subst rest. rewrite IH'. cbn. rewrite E1, E2. cbn [andb].
        replace (s + (t + 0)) with (s + t) by lia. rewrite E3. reflexivity.
    + destruct (0 <=? s) eqn:E1; cbn [andb]; [|reflexivity].
      destruct (0 <=? t) eqn:E2; cbn [andb]; [|reflexivity].
      cbn [andb] in Ehead.
      destruct (all_nonneg rest) eqn:Enn; [|reflexivity].
      pose proof (zsum_nonneg rest Enn).
      replace (s + (t + zsum rest) <=? tmax S) with false by lia. reflexivity.
Qed.

(* NaturalSum<S>(args...) for any number (>= 1 in C++, >= 0 here) of arguments of any types *)
Theorem natural_sum_spec S args :
  args_in_range args -> natural_sum S args = Ok (exact_sum S args).
Proof.
  intros Hargs. unfold natural_sum, exact_sum.
  assert (H0 : in_range S 0) by (apply nonneg_in_range; [lia|pose proof (tmax_pos S); lia]).
  rewrite (conv_id S 0 H0).
  destruct (increase_sum_spec S args 0 H0 Hargs) as [H|[Hnil H]].
  - rewrite H. cbn [Z.leb Z.compare andb Z.add]. reflexivity.
  - subst args. rewrite H. cbn. pose proof (tmax_pos S).
    replace (0 <=? tmax S) with true by lia. reflexivity.
Qed.

Theorem natural_sum_some_iff S args v :
  args_in_range args ->
  (natural_sum S args = Ok (Some v) <->
   all_nonneg args = true /\ v = zsum args /\ zsum args <= tmax S).
Proof.
  intros Hargs. rewrite (natural_sum_spec S args Hargs). unfold exact_sum.
  destruct (all_nonneg args); cbn [andb].
  - destruct (zsum args <=? tmax S) eqn:E.
    + split.
      * intros H. inversion H. split; [reflexivity|]. split; [reflexivity|lia].
      * intros (_ & -> & _). reflexivity.
    + split; [intros H; discriminate H|intros (_ & _ & H); lia].
  - split; [intros H; discriminate H|intros (H & _); discriminate H].
Qed.

Theorem natural_sum_none_iff S args :
  args_in_range args ->
  (natural_sum S args = Ok None <-> all_nonneg args = false \/ tmax S < zsum args).
Proof.
  intros Hargs. rewrite (natural_sum_spec S args Hargs). unfold exact_sum.
  destruct (all_nonneg args); cbn [andb].
  - destruct (zsum args <=? tmax S) eqn:E.
    + split; [intros H; discriminate H|intros [H|H]; [discriminate H|lia]].
    + split; [intros _; right; lia|reflexivity].
  - split; [intros _; left; reflexivity|reflexivity].
Qed.

Theorem natural_sum_result_in_range S args v :
  args_in_range args -> natural_sum S args = Ok (Some v) -> in_range S v.
Proof.
  intros Hargs H. apply (natural_sum_some_iff S args v Hargs) in H.
  destruct H as (Hnn & -> & Hfit). apply nonneg_in_range; [apply zsum_nonneg; exact Hnn|exact Hfit].
Qed.

Theorem natural_sum_no_ub S args : args_in_range args -> natural_sum S args <> UB.
Proof. intros Hargs. rewrite (natural_sum_spec S args Hargs). discriminate. Qed.

Theorem set_to_natural_sum_or_max_spec S args :
  args_in_range args ->
  set_to_natural_sum_or_max S args =
  Ok (if all_nonneg args && (zsum args <=? tmax S) then zsum args else tmax S).
Proof.
  intros Hargs. unfold set_to_natural_sum_or_max.
  rewrite (natural_sum_spec S args Hargs). unfold exact_sum.
  destruct (all_nonneg args && (zsum args <=? tmax S)); reflexivity.
Qed.

Theorem natural_cast_spec R Src s :
  in_range Src s ->
  natural_cast R Src s = Ok (if (0 <=? s) && (s <=? tmax R) then Some s else None).
Proof.
  intros Hs. unfold natural_cast.
  rewrite natural_sum_spec by (constructor; [exact Hs|constructor]).
  unfold exact_sum. cbn [all_nonneg forallb zsum fold_right snd].
  rewrite andb_true_r. replace (s + 0) with s by lia. reflexivity.
Qed.

(* IncreaseSum(S sum, T t, Args... args) as C++ can instantiate it: at least one addend *)
Theorem increase_sum_nonempty_spec S s x rest :
  in_range S s -> args_in_range (x :: rest) ->
  increase_sum S s (x :: rest) =
  Ok (if (0 <=? s) && all_nonneg (x :: rest) && (s + zsum (x :: rest) <=? tmax S)
      then Some (s + zsum (x :: rest)) else None).
Proof.
  intros Hs Hargs. destruct (increase_sum_spec S (x :: rest) s Hs Hargs) as [H|[H _]];
    [exact H|discriminate H].
Qed.
